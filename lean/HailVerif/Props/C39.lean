import HailVerif.Proofs.BatchDBProtocol
/-!
# C39 — Job lifecycle protocol terminates and never double-runs

Subject: the BatchDB model (`HailVerif.BatchDB.step`, one transaction per step) driven by the nondeterministic actors of
`Model/BatchActors.lean` (`ActorOp s op`): the scheduler (`pool.py::user_runnable_jobs` → `schedule_job`), the three
canceller loops (`canceller.py`), workers (`mark_job_started`, `mark_job_complete` with any terminal outcome, for any attempt
row of the job — stale and repeated reports included) and faults (`deactivate_instance`).

What is proved (all about the model; hypotheses are explicit and each has a satisfiability `example`):

SAFETY
* `single_current_attempt` (literal): at most one attempt row per job is both un-ended and equal to `jobs.attempt_id` —
  holds because (batch, job, attempt_id) is a key of `attempts` in every reachable state (`reachable_attUnique`).
* `current_attempt_exists` (the meaningful content of "single current attempt"): after every history of well-formed messages,
  a job that is Creating or Running has `attempt_id = a` for some `a` and the attempt row (batch, job, a) exists.  Since
  `jobs.attempt_id` is one column, "two attempts both treated as current" cannot be expressed by the schema; what can go
  wrong is a current attempt that does not exist, or a stale report being accepted:
* `stale_complete_ignored`: a completion report naming an attempt other than the job's current one answers rc 2 (or fails on
  `add_attempt`'s foreign key when the attempt is new and its instance unknown) and changes no job row, no group tally /
  state, no batch row.  (Stated for a non-NULL reported attempt: with `in_attempt_id = NULL` the
  SQL condition `expected_attempt_id != in_attempt_id` is NULL and the report is NOT rejected — the model follows the SQL.)
* `no_double_run`: a Running job is not re-scheduled / re-started / re-created by a repeated driver message.
* `IdleHasNoAttemptAlways` ("a job that is not Creating/Running has `attempt_id = NULL` or is terminal") is FALSE in the
  model: `idle_has_no_attempt_fails` (through the C41 defect a job completes, is then recomputed to Ready by
  `commit_batch_update`, and keeps its old `attempt_id` — it will run a second time).

LIVENESS, as a measure (`rank`: Pending 4, Ready 3, Creating 2, Running 1, terminal 0; `rankSum` = Σ over job rows)
* `worker_complete_decreases`, `canceller_makes_progress`, `scheduler_makes_progress`: the three progress actions strictly
  decrease `rankSum`, never raise any row's rank, and do what they are meant to (job row terminal / Cancelled / Running).
* `always_run_still_runs`: an always_run Ready job in a running group is `schedulable` whatever is cancelled, and
  `schedule_job` on an active instance moves it to Running.
* `no_deadlock_partial`: if some job is non-terminal then some actor has an enabled transaction that strictly decreases
  `rankSum` — under the explicit hypotheses `ParentsGate` / `ChildGate` (C05 + C08, proved / assumed elsewhere), `GroupsLive`
  (groups of non-terminal jobs are `running`: the accounting invariant of C06) and an active instance with capacity.
* only stated: `ActorStepsTerminate` (the lexicographic measure with the bound on Running → Ready regressions).

Since repo commit 2813d614a (migration 121 + `LIMIT 1` in the scheduler's cancelled-ancestor subqueries) the real
`is_job_cancelled` is total like the model's `jobCancelled`, and `user_runnable_jobs` selects a job once whatever the number of
cancelled ancestors: `always_run_still_runs` and `scheduler_makes_progress` now describe the real system also for a job under two or
more cancelled groups (before, `schedule_job` / `mark_job_started` failed there with MySQL error 1242).
-/
namespace HailVerif.C39
open HailVerif.BatchDB

def after (s : State) (ops : List Op) : State := ops.foldl (fun s op => (step s op).1) s

instance (op : Op) : Decidable op.WF := by cases op <;> unfold Op.WF <;> infer_instance

/-- reachable from the empty database by a history of well-formed messages (`Op.WF`: completion reports carry a terminal
state) -/
def Reachable (s : State) : Prop := ∃ ops : List Op, (∀ op ∈ ops, op.WF) ∧ s = after init ops

theorem reachable_step {s : State} (h : Reachable s) (op : Op) (hwf : op.WF) : Reachable (step s op).1 := by
  obtain ⟨ops, hw, rfl⟩ := h
  refine ⟨ops ++ [op], ?_, by simp [after, List.foldl_append]⟩
  intro o ho
  rcases List.mem_append.mp ho with h | h
  · exact hw o h
  · simp only [List.mem_singleton] at h; subst h; exact hwf

theorem reachable_attUnique {s : State} (h : Reachable s) : AttUnique s := by
  obtain ⟨ops, _, rfl⟩ := h
  exact (attSub_run ops init).2 (by simp [AttUnique, attKeys, init])

theorem reachable_inv {s : State} (h : Reachable s) : JobsUnique s ∧ AttemptInv s := by
  obtain ⟨ops, hw, rfl⟩ := h
  refine ⟨(shape_run init ops).unique (by simp [JobsUnique, init]), ?_⟩
  have : ∀ (ops : List Op) (s : State), (∀ op ∈ ops, op.WF) → AttemptInv s → AttemptInv (after s ops) := by
    intro ops
    induction ops with
    | nil => intro s _ h; exact h
    | cons op rest ih =>
      intro s hw h
      exact ih _ (fun o ho => hw o (by simp [ho])) (attemptInv_step s op (hw op (by simp)) h)
  exact this ops init hw attemptInv_init

/-! ## safety -/

/-- In every reachable state a job that is Creating or Running has a current attempt and that attempt's row exists. -/
theorem current_attempt_exists {s : State} (hr : Reachable s) (x : Job) (hx : x ∈ s.jobs)
    (hst : x.state = .Creating ∨ x.state = .Running) :
    ∃ a, x.attempt = some a ∧ ∃ at' ∈ s.attempts, at'.batch = x.batch ∧ at'.job = x.id ∧ at'.id = a := by
  obtain ⟨a, ha, hk⟩ := (reachable_inv hr).2 x hx hst
  refine ⟨a, ha, ?_⟩
  unfold attKeys at hk
  rw [List.mem_map] at hk
  obtain ⟨at', hm, he⟩ := hk
  simp only [attKey, Prod.mk.injEq] at he
  exact ⟨at', hm, he.1, he.2.1, he.2.2⟩

/-- The literal statement: in every reachable state each job has at most one attempt row that is both un-ended and equal to
`jobs.attempt_id` (attempt ids are unique per job: `add_attempt` inserts with ON DUPLICATE KEY no-op). -/
theorem single_current_attempt {s : State} (hr : Reachable s) (x : Job) :
    (s.attempts.filter fun at' => decide (at'.batch = x.batch ∧ at'.job = x.id ∧ x.attempt = some at'.id) &&
      at'.row.end_time.isNone).length ≤ 1 := by
  cases hatt : x.attempt with
  | none =>
    have : (s.attempts.filter fun _ => false) = [] := List.filter_eq_nil_iff.mpr (by simp)
    simp [this]
  | some a =>
    refine attempts_same_key_le_one s (reachable_attUnique hr) (x.batch, x.id, a) _ ?_
    intro at' _ hp
    simp only [Bool.and_eq_true, decide_eq_true_eq, Option.some.injEq] at hp
    simp [attKey, hp.1.1, hp.1.2.1, hp.1.2.2]

/-- attempt rows are never deleted: a key present before a transaction is present after it -/
theorem attempts_persist (s : State) (op : Op) (b j a : Nat) (h : (findAttempt s b j a).isSome = true) :
    (findAttempt (step s op).1 b j a).isSome = true := by
  rw [findAttempt_isSome_iff] at h ⊢
  exact (attSub_step s op).1 h

/-- A completion report for an attempt other than the job's current one returns rc 2 — or, when the reported attempt is new
and names an unknown instance, fails on `add_attempt`'s foreign key with nothing written — and changes no job row, no group
row (tallies, state) and no batch row.  (With rc 2 it still records the reported attempt's times and may release its cores.) -/
theorem stale_complete_ignored (s : State) (b j a a' : Nat) (inst : Option Nat) (ns : JState) (st e : Option Int) (r : String)
    (d : Nat) (job : Job) (hj : findJob s b j = some job) (hcur : job.attempt = some a) (hne : a' ≠ a) :
    ((step s (.complete b j (some a') inst ns st e r d)).2 = .ok 2 ∨
      (step s (.complete b j (some a') inst ns st e r d)).2 = .err "no-job") ∧
    (attemptFkFails s b j (some a') inst = false → (step s (.complete b j (some a') inst ns st e r d)).2 = .ok 2) ∧
    (step s (.complete b j (some a') inst ns st e r d)).1.jobs = s.jobs ∧
    (step s (.complete b j (some a') inst ns st e r d)).1.groups = s.groups ∧
    (step s (.complete b j (some a') inst ns st e r d)).1.batches = s.batches :=
  complete_stale s b j a a' inst ns st e r d job hj hcur hne

/-- A Running job is not re-scheduled, re-started or re-created: repeated driver messages leave every job row alone
(`schedule_job` answers rc 1, or the foreign-key error for a new attempt on an unknown instance). -/
theorem no_double_run (s : State) (b j a i : Nat) (ts : Int) (d : Nat) (x : Job) (hj : findJob s b j = some x)
    (hst : x.state = .Running) :
    ((step s (.schedule b j a i)).2 = .ok 1 ∨ (step s (.schedule b j a i)).2 = .err "no-job") ∧
    (step s (.schedule b j a i)).1.jobs = s.jobs ∧
    (step s (.started b j a i ts d)).1.jobs = s.jobs ∧ (step s (.creating b j a i ts d)).1.jobs = s.jobs :=
  running_not_restarted s b j a i ts d x hj hst

/-- "a job that is not Creating / Running has no current attempt or is terminal" — full statement -/
def IdleHasNoAttemptAlways : Prop :=
  ∀ s, Reachable s → ∀ x ∈ s.jobs, ¬ (x.state = .Creating ∨ x.state = .Running) → x.attempt = none ∨ x.state.terminal = true

/-- the C41 witness continued: the prematurely Ready child J (job 3 of the uncommitted update 2) is scheduled and succeeds;
then update 2 is committed: `commit_batch_update` recomputes J to Ready and keeps its `attempt_id` -/
def rerun : List Op :=
  [.createBatch 1 1 100, .createUpdate 1 200 2 0 1,
   .insertJobs 1 1 1 [⟨1, [], [], some 0, 0, false, 1000, 0⟩, ⟨2, [], [], some 0, 0, false, 1000, 0⟩],
   .commitUpdate 1 1,
   .createUpdate 1 201 1 0 1,
   .insertJobs 1 2 1 [⟨1, [1], [], some 0, 0, false, 1000, 0⟩],
   .newInstance 7 4000 true, .activate 7, .schedule 1 1 11 7,
   .complete 1 1 (some 11) (some 7) .Success (some 0) (some 1) "" 0,
   .schedule 1 3 13 7, .complete 1 3 (some 13) (some 7) .Success (some 2) (some 3) "" 0,
   .commitUpdate 1 2]

theorem rerun_state : ((after init rerun).jobs.map fun x => (x.id, x.state, x.attempt)) =
    [(1, .Success, some 11), (2, .Ready, none), (3, .Ready, some 13)] := by decide

theorem idle_has_no_attempt_fails : ¬ IdleHasNoAttemptAlways := by
  intro h
  have hr : Reachable (after init rerun) := ⟨rerun, by decide, rfl⟩
  have := h _ hr ⟨1, 3, 2, 0, .Ready, false, 1000, 0, 0, false, some 13⟩ (by decide) (by decide)
  exact absurd this (by decide)

/-! ## progress actions -/

/-- A worker's completion report (any terminal outcome) for the CURRENT attempt of a Running job, children Pending:
rc 0, the job's row becomes terminal, no job row's rank goes up (children go Pending → Ready or stay), `rankSum` strictly
decreases. -/
theorem worker_complete_decreases {s : State} (hr : Reachable s) (x : Job) (hx : x ∈ s.jobs) (a : Nat) (inst : Option Nat)
    (ns : JState) (st e : Option Int) (r : String) (d : Nat) (hst : x.state = .Running) (hcur : x.attempt = some a)
    (hns : ns.terminal = true) (hch : ChildrenPending s x.batch x.id) :
    let s' := (step s (.complete x.batch x.id (some a) inst ns st e r d)).1
    (step s (.complete x.batch x.id (some a) inst ns st e r d)).2 = .ok 0 ∧
    findJob s' x.batch x.id = some { x with state := ns, attempt := some a } ∧
    (∀ y ∈ s.jobs, ∀ y', findJob s' y.batch y.id = some y' → rank y'.state ≤ rank y.state) ∧
    rankSum s' < rankSum s := by
  obtain ⟨hu, hI⟩ := reachable_inv hr
  obtain ⟨a', ha', hk⟩ := hI x hx (Or.inr hst)
  rw [hcur] at ha'; cases ha'
  exact complete_effective s hu x.batch x.id (some a) inst ns st e r d x (findJob_of_mem hu x hx) (Or.inr (Or.inr hst))
    (by rw [hcur]; simp) (attemptFkFails_of_exists ((findAttempt_isSome_iff s _ _ _).mpr hk)) hns hch

/-- The canceller's Ready loop: for a Ready, cancelled, non-always_run job in a running group the action is enabled, the
job's row becomes Cancelled and `rankSum` strictly decreases. -/
theorem canceller_makes_progress (s : State) (hu : JobsUnique s) (x : Job) (hx : x ∈ s.jobs) (date : Nat)
    (hst : x.state = .Ready) (hgr : groupRunning s x.batch x.group = true) (hc : jobCancelled s x = true)
    (hch : ChildrenPending s x.batch x.id) :
    let op := Op.complete x.batch x.id none none .Cancelled none none "cancelled" date
    ActorOp s op ∧ (step s op).2 = .ok 0 ∧
    findJob (step s op).1 x.batch x.id = some { x with state := .Cancelled, attempt := none } ∧
    rankSum (step s op).1 < rankSum s := by
  have hcr : cancellableReady s x = true := (cancellableReady_iff s x).mpr ⟨hst, hgr, hc⟩
  obtain ⟨h1, h2, _, h4⟩ := complete_effective s hu x.batch x.id none none .Cancelled none none "cancelled" date x
    (findJob_of_mem hu x hx) (Or.inl hst) (by simp) (attemptFkFails_none ..) rfl hch
  exact ⟨ActorOp.cancelReady x date hx hcr, h1, h2, h4⟩

/-- The scheduler: for a schedulable job and an active instance the action (with a fresh attempt id) moves the job to
Running with that attempt and `rankSum` strictly decreases. -/
theorem scheduler_makes_progress (s : State) (hu : JobsUnique s) (x : Job) (hx : x ∈ s.jobs) (hs : schedulable s x = true)
    (a inst : Nat) (hi : instState s (some inst) = some .active) :
    (step s (.schedule x.batch x.id a inst)).2 = .ok 0 ∧
    findJob (step s (.schedule x.batch x.id a inst)).1 x.batch x.id = some { x with state := .Running, attempt := some a } ∧
    rankSum (step s (.schedule x.batch x.id a inst)).1 < rankSum s := by
  obtain ⟨hst, _, hc⟩ := schedulable_not_cancelled hs
  obtain ⟨h1, _, h3⟩ := schedule_effective s hu x.batch x.id a inst x (findJob_of_mem hu x hx) (Or.inl hst) hc hi
  exact ⟨h1, h3, schedule_effective_rank s hu x.batch x.id a inst x (findJob_of_mem hu x hx) (Or.inl hst) hc hi⟩

/-- The canceller's Running loop: `unschedule_job` for the current attempt of a cancelled Running job is enabled and puts the
job back to Ready with no current attempt, where the Ready loop picks it (`canceller_makes_progress`).  The rank goes UP here
(1 → 3): this is one of the two regressions `ActorStepsTerminate` has to bound. -/
theorem canceller_running_then_ready (s : State) (hu : JobsUnique s) (x : Job) (hx : x ∈ s.jobs) (at' : Attempt)
    (hm : at' ∈ s.attempts) (hof : attemptOf x at') (hcur : x.attempt = some at'.id) (inst : Nat) (hinst : at'.inst = some inst)
    (ts : Int) (date : Nat) (hc : cancellableRunning s x = true) :
    let op := Op.unschedule x.batch x.id at'.id inst ts "cancelled" date
    ActorOp s op ∧ (step s op).2 = .ok 0 ∧
    findJob (step s op).1 x.batch x.id = some { x with state := .Ready, attempt := none } ∧
    cancellableReady (step s op).1 { x with state := .Ready, attempt := none } = true := by
  have hc' := hc
  unfold cancellableRunning at hc'
  simp only [Bool.and_eq_true, decide_eq_true_eq, Bool.not_eq_true'] at hc'
  obtain ⟨⟨⟨⟨hst, hgr⟩, hgc⟩, har⟩, _⟩ := hc'
  obtain ⟨h1, h2, h3, h4⟩ := unschedule_effective s hu x.batch x.id at'.id inst ts "cancelled" date x (findJob_of_mem hu x hx)
    (Or.inr hst) hcur
  refine ⟨ActorOp.cancelRunning x at' inst ts date hx hc hm hof hinst, h1, h2, ?_⟩
  show cancellableReady (unschedule s x.batch x.id at'.id inst ts "cancelled" date).1 _ = true
  unfold cancellableReady
  simp only [groupRunning_congr h3, groupCancelled_congr h3 h4, hgr, hgc, har]
  rfl

/-- Always-run jobs of a cancelled batch still run: an always_run Ready job in a running group is selected by the scheduler
whatever marks or cancelled ancestors it has, and `schedule_job` on an active instance moves it to Running (its guard
`NOT is_job_cancelled` holds because `is_job_cancelled` starts with `NOT always_run`). -/
theorem always_run_still_runs (s : State) (hu : JobsUnique s) (x : Job) (hx : x ∈ s.jobs) (har : x.alwaysRun = true)
    (hst : x.state = .Ready) (hgr : groupRunning s x.batch x.group = true) :
    schedulable s x = true ∧
    ∀ a inst, instState s (some inst) = some .active →
      (step s (.schedule x.batch x.id a inst)).2 = .ok 0 ∧
      findJob (step s (.schedule x.batch x.id a inst)).1 x.batch x.id = some { x with state := .Running, attempt := some a } := by
  have hs : schedulable s x = true := by unfold schedulable; simp [hst, hgr, har]
  refine ⟨hs, fun a inst hi => ?_⟩
  obtain ⟨h1, h2, _⟩ := scheduler_makes_progress s hu x hx hs a inst hi
  exact ⟨h1, h2⟩

/-! ## no deadlock -/

/-- C05 for the parents' side: the children of a job that is Ready / Creating / Running are Pending -/
def ChildGate (s : State) : Prop :=
  ∀ y ∈ s.jobs, (y.state = .Ready ∨ y.state = .Creating ∨ y.state = .Running) → ChildrenPending s y.batch y.id

/-- C06 (accounting): the group of a non-terminal job is `running` -/
def GroupsLive (s : State) : Prop := ∀ y ∈ s.jobs, y.state.terminal = false → groupRunning s y.batch y.group = true

instance (s : State) : Decidable (ChildGate s) := by unfold ChildGate; infer_instance
instance (s : State) : Decidable (GroupsLive s) := by unfold GroupsLive; infer_instance

/-- In a reachable state in which some job is not terminal, some actor has an enabled transaction that strictly decreases
`rankSum`: the scheduler or the canceller for a Ready job, a worker's completion report for the current attempt of a
Creating / Running job.  Hypotheses: `ParentsGate` (a Pending job has a non-terminal parent row with a smaller id: C05 + C08,
the latter NOT enforced by the code), `ChildGate` (C05), `GroupsLive` (C06), and an active instance with room for any job. -/
theorem no_deadlock_partial {s : State} (hr : Reachable s) (hg : ParentsGate s) (hcg : ChildGate s) (hgl : GroupsLive s)
    (i : Instance) (hi : findInstance s i.name = some i) (hact : i.state = .active) (hroom : ∀ y ∈ s.jobs, y.cores ≤ i.free)
    (x : Job) (hx : x ∈ s.jobs) (hnt : x.state.terminal = false) :
    ∃ op, ActorOp s op ∧ rankSum (step s op).1 < rankSum s := by
  obtain ⟨hu, hI⟩ := reachable_inv hr
  obtain ⟨y, hy, _, hys⟩ := exists_active_of_nonterminal s hg x.id x hx rfl hnt
  have hch := hcg y hy hys
  rcases hys with hrdy | hrun
  · -- Ready: scheduler or canceller
    have hgr := hgl y hy (by rw [hrdy]; rfl)
    rcases ready_dichotomy s y hrdy hgr with hs | hc
    · obtain ⟨a, ha⟩ := exists_fresh_attempt s y.batch y.id
      have him : i ∈ s.instances := by unfold findInstance at hi; exact List.mem_of_find?_eq_some hi
      have hst : instState s (some i.name) = some .active := by simp [instState, hi, hact]
      exact ⟨_, ActorOp.schedule y i a hy hs him hact (hroom y hy) ha, (scheduler_makes_progress s hu y hy hs a i.name hst).2.2⟩
    · obtain ⟨_, _, hjc⟩ := (cancellableReady_iff s y).mp hc
      obtain ⟨h1, _, _, h4⟩ := canceller_makes_progress s hu y hy 0 hrdy hgr hjc hch
      exact ⟨_, h1, h4⟩
  · -- Creating / Running: the worker reports the current attempt
    obtain ⟨a, ha, hk⟩ := hI y hy hrun
    unfold attKeys at hk
    rw [List.mem_map] at hk
    obtain ⟨at', hm, he⟩ := hk
    simp only [attKey, Prod.mk.injEq] at he
    have hop : ActorOp s (.complete y.batch y.id (some at'.id) at'.inst .Success none none "" 0) :=
      ActorOp.workerComplete y at' .Success none none "" 0 hy hm ⟨he.1, he.2.1⟩ rfl
    refine ⟨_, hop, ?_⟩
    rw [he.2.2]
    have hex : (y.batch, y.id, a) ∈ attKeys s := by
      unfold attKeys; rw [List.mem_map]; exact ⟨at', hm, by simp [attKey, he.1, he.2.1, he.2.2]⟩
    exact (complete_effective s hu y.batch y.id (some a) at'.inst .Success none none "" 0 y (findJob_of_mem hu y hy)
      (Or.inr hrun) (by rw [ha]; simp) (attemptFkFails_of_exists ((findAttempt_isSome_iff s _ _ _).mpr hex)) rfl hch).2.2.2

/-- **Stated, not proved.**  Every run of the actors alone (no client submissions) from a reachable state is finite: there is
a bound `N` such that no `ActorRun` chain of effective steps from `s` is longer than `N`.

What is proved towards it: the three progress actions strictly decrease `rankSum ≥ 0` (`worker_complete_decreases`,
`canceller_makes_progress`, `scheduler_makes_progress`) and `no_deadlock_partial` (progress is possible until every job is
terminal).  What is missing: (a) the two regressions Running / Creating → Ready (`unschedule_job` by the canceller's Running
loop, `deactivate_instance`) raise `rankSum`; they must be charged to the first component of `measure` (live instances +
un-ended attempts), which needs the invariant "the current attempt of a Creating / Running job is un-ended and sits on a live
instance" — FALSE as stated in the model, because `attempts_before_update` (067) keeps `end_time = NULL` when the row already
has a `reason` (an attempt can carry a reason with no end time), and because `schedule_job` accepts an attempt id whose row
already exists and has ended; (b) stale / repeated worker messages (`workerStarted`, stale `workerComplete`) and
`deactivate` of an already inactive instance change no job row: "effective" must exclude them, i.e. the bound is on effective
steps only; (c) `cancelCreating` goes through `mark_job_complete` (covered by `complete_effective`), but a cancelled job's
re-scheduling after `unschedule` is prevented only by `jobCancelled` being monotone (C07), which has to be threaded through. -/
def ActorStepsTerminate : Prop :=
  ∀ s, Reachable s → ∃ N : Nat, ∀ (chain : List State), chain.head? = some s →
    (∀ k, ∀ t u, chain[k]? = some t → chain[k+1]? = some u → ActorStep t u ∧ t.jobs ≠ u.jobs) → chain.length ≤ N

/-! ## non-vacuity: a cancelled batch with an always-run job runs to completion -/

/-- jobs 1 (plain), 2 (always_run), 3 (plain, child of 1) in one update; committed; an active instance; the batch cancelled -/
def cancelled : List Op :=
  [.createBatch 1 1 100, .createUpdate 1 200 3 0 1,
   .insertJobs 1 1 1 [⟨1, [], [], some 0, 0, false, 1000, 0⟩, ⟨2, [], [], some 0, 0, true, 1000, 0⟩,
     ⟨3, [], [1], some 0, 0, false, 1000, 0⟩],
   .commitUpdate 1 1, .newInstance 7 4000 true, .activate 7, .cancelGroup 1 0]

example : Reachable (after init cancelled) := ⟨cancelled, by decide, rfl⟩
-- the hypotheses of `no_deadlock_partial` hold in this state
example : ParentsGate (after init cancelled) ∧ ChildGate (after init cancelled) ∧ GroupsLive (after init cancelled) := by decide
-- (id, state, always_run, picked by the scheduler, picked by the canceller's Ready loop)
example : ((after init cancelled).jobs.map fun x =>
    (x.id, x.state, x.alwaysRun, schedulable (after init cancelled) x, cancellableReady (after init cancelled) x)) =
    [(1, .Ready, false, false, true), (2, .Ready, true, true, false), (3, .Pending, false, false, false)] := by decide

/-- the actors' transactions from there: schedule the always_run job, cancel job 1, then its child 3 (made Ready and marked
cancelled by the child UPDATE), the worker reports job 2 -/
def drain : List Op :=
  [.schedule 1 2 21 7, .complete 1 1 none none .Cancelled none none "cancelled" 0,
   .complete 1 3 none none .Cancelled none none "cancelled" 0,
   .complete 1 2 (some 21) (some 7) .Success (some 0) (some 1) "" 0]

-- every job terminal, the always_run job has run, the batch is complete; the measure went 10 → 0
example : ((after init (cancelled ++ drain)).jobs.map fun x => (x.id, x.state, x.attempt)) =
    [(1, .Cancelled, none), (2, .Success, some 21), (3, .Cancelled, none)] := by decide
example : (after init (cancelled ++ drain)).batches.map (·.state) = [.complete] := by decide
example : rankSum (after init cancelled) = 10 ∧ rankSum (after init (cancelled ++ drain)) = 0 := by decide
-- a stale report for the always_run job after it finished under attempt 21: rc 2
example : (step (after init (cancelled ++ drain)) (.complete 1 2 (some 99) (some 7) .Failed none none "" 0)).2 = .ok 2 := by decide

end HailVerif.C39

import HailVerif.Proofs.WSem
/-!
# C40 — Weighted transfer semaphore is safe and releases on cancellation

Subject: `HailVerif.WSem.step/run`, the model of `WeightedSemaphore` + `_AcquireManager`
(hail/python/hailtop/aiotools/weighted_semaphore.py) whose steps are the atomic blocks between awaits, including
the delivery of a `CancelledError` in each of the three phases of a task (waiting, granted-but-not-resumed, in the
body); tied to the real class by `harness/props/c40.py` (real class under the deterministic event loop with
cancel injection, including release and cancel in the same loop iteration).

The theorems quantify over ALL op lists (= all interleavings of acquire / normal exit / exit by exception /
cancellation / resumption); `run … = .ok s` says the list respects the protocol (every op addresses a task in the
phase it needs, weights `≤ max` as the code asserts).  Every prefix of an op list is an op list, so "for the final
state of every op list" is "after every step".  `held s` counts the tasks in the body and the tasks granted by a
release that have not resumed yet.
-/
namespace HailVerif.C40
open HailVerif.WSem

variable (m : Nat) (ops : List Op) (s : State)

/-- Safety: never more than the capacity is handed out — the free value is never negative and free value plus
everything handed out is exactly `max`, whatever mixture of exits, failures and cancellations happened. -/
theorem capacity_never_exceeded (h : run (init m) ops = .ok s) :
    0 ≤ s.value ∧ s.value + held s = m :=
  let i := run_inv m ops _ s (init_inv m) h
  ⟨i.nonneg, i.total⟩

/-- The uncontended path of `acquire` has no suspension point: in one atomic block the task takes its weight and is in
the body, so there is no moment at which it owns weight while being neither queued, nor woken, nor in the body (where a
cancellation could strand the weight).  A real run that shows an acquiring task suspended anywhere else disagrees with the
model (the harness cancels tasks at their j-th suspension, whatever it is, to find such a point). -/
theorem fast_path_enters_at_once (s : State) (i w : Nat) (ha : active s i = false) (hm : w ≤ s.max)
    (hv : s.value ≥ (w : Int)) :
    step s (.acquire i w) = .ok { s with value := s.value - w, holders := s.holders ++ [(w, i)] } := by
  have : ¬ s.max < w := by omega
  simp [step, ha, this, hv]

/-- One manager object may be entered any number of times: starting from the idle semaphore, any sequence of
enter / leave pairs of the SAME manager — each leave being a normal exit, an exit by exception or a cancellation —
brings the semaphore back to exactly its idle state (nothing handed out, full value).  (`_AcquireManager` has no state of
its own; with other tasks around, `capacity_never_exceeded` and `release_on_exit` say the same for every interleaving,
including two tasks inside the same manager at once: they are just two holders of weight `n`.) -/
theorem manager_reuse_restores (max : Nat) (mgr : Manager) (i : Nat) (hn : mgr.n ≤ max) (ks : List (Nat → Op))
    (hk : ∀ k ∈ ks, k = Op.release ∨ k = Op.fail ∨ k = Op.cancel) :
    run (init max) (ks.flatMap fun k => [mgr.enter i, k i]) = .ok (init max) := by
  induction ks with
  | nil => rfl
  | cons k ks ih =>
    have hpair : ∀ k', (k' = Op.release ∨ k' = Op.fail ∨ k' = Op.cancel) →
        run (init max) ([mgr.enter i, k' i] ++ (ks.flatMap fun k => [mgr.enter i, k i])) = .ok (init max) := by
      intro k' hk'
      have hlt : ¬ (max < mgr.n) := by omega
      have hfit : ((max : Int) ≥ (mgr.n : Int)) := by omega
      have hadd : ((max : Int) - (mgr.n : Int) + (mgr.n : Int)) = max := by omega
      have ih' := ih (fun k hk0 => hk k (List.mem_cons_of_mem _ hk0))
      rcases hk' with rfl | rfl | rfl <;>
        simp [run, step, exitBody, Manager.enter, init, active, ids, take, releaseW, drain, hlt, hfit, hadd] <;>
        simpa [init, Manager.enter] using ih'
    simpa [List.flatMap_cons] using hpair k (hk k (by simp))

/-- Every exit kind returns the weight: if task `i` is in the body with weight `w`, then leaving normally, by an
exception or by cancellation are the same step; afterwards `i` is no longer a holder and exactly `w` has gone back
to the free value or straight to waiters granted by this very release. -/
theorem release_on_exit (h : run (init m) ops = .ok s) (i w : Nat) (rest : List (Nat × Nat))
    (hi : take i s.holders = some (w, rest)) :
    ∃ s', step s (.release i) = .ok s' ∧ step s (.fail i) = .ok s' ∧ step s (.cancel i) = .ok s' ∧
      s'.holders = rest ∧ i ∉ ids s'.holders ∧
      s'.value + weights s'.granted = s.value + weights s.granted + w ∧ s'.value + held s' = m := by
  have inv := run_inv m ops _ s (init_inv m) h
  have hu := run_uniq ops _ s (init_uniq m) h
  refine ⟨releaseW { s with holders := rest } w, by simp [step, exitBody, hi], by simp [step, exitBody, hi],
    by simp [step, hi], ?_⟩
  have ht := releaseW_total { s with holders := rest } w inv.nonneg inv.sorted
  have hstep : step s (.release i) = .ok (releaseW { s with holders := rest } w) := by simp [step, exitBody, hi]
  have inv' := step_inv m s _ _ inv hstep
  refine ⟨ht.2.1, ?_, ht.1, inv'.total⟩
  rw [ht.2.1]
  -- ids are unique, so `i` does not occur in the remaining holders
  have hp := ids_perm (take_perm _ _ _ _ hi)
  have hnd : (ids s.holders).Nodup := by
    unfold Uniq all at hu
    simp only [ids, List.map_append] at hu
    exact (List.nodup_append.mp hu).2.1
  have := hp.nodup_iff.mp hnd
  simp only [ids, List.map_cons] at this
  exact (List.nodup_cons.mp this).1

/-- A waiter that is cancelled before being granted consumes nothing: its entry is removed, the free value and
everybody else's grants are untouched, and the task is gone from every phase (so no later release can grant it). -/
theorem cancelled_waiter_consumes_nothing (h : run (init m) ops = .ok s) (i w : Nat) (rest : List (Nat × Nat))
    (hw : take i s.waiters = some (w, rest)) :
    ∃ s', step s (.cancel i) = .ok s' ∧ s'.value = s.value ∧ s'.holders = s.holders ∧ s'.granted = s.granted ∧
      s'.waiters = rest ∧ active s' i = false := by
  have hu := run_uniq ops _ s (init_uniq m) h
  have hp := take_perm _ _ _ _ hw
  -- `i` is a waiter, so by uniqueness it is neither a holder nor granted
  have hall : (ids (all s)).Perm (i :: ids (all { s with waiters := rest })) := by
    have : (all s).Perm ((w, i) :: all { s with waiters := rest }) := by
      simp only [all]
      refine (List.Perm.append_right _ (List.Perm.append_left _ hp)).trans ?_
      rw [List.append_assoc, List.append_assoc]
      exact List.perm_middle
    exact ids_perm this
  have hnd := hall.nodup_iff.mp hu
  have hni := (List.nodup_cons.mp hnd).1
  have hni' : i ∉ ids s.granted ∧ i ∉ ids rest ∧ i ∉ ids s.holders := by
    simp only [all, ids, List.map_append, List.mem_append, not_or] at hni
    exact ⟨hni.1.1, hni.1.2, hni.2⟩
  have h1 : take i s.holders = none := (take_none_iff _ _).mpr hni'.2.2
  have h2 : take i s.granted = none := (take_none_iff _ _).mpr hni'.1
  refine ⟨{ s with waiters := rest }, by simp [step, h1, h2, hw], rfl, rfl, rfl, rfl, ?_⟩
  exact (not_active_iff _ i).mpr hni

/-- Granted, then cancelled before it could resume (release and cancellation in the same loop iteration): the weight is
handed back through `release`, nothing is lost. -/
theorem granted_then_cancelled_hands_back (h : run (init m) ops = .ok s) (i w : Nat) (rest : List (Nat × Nat))
    (hn : take i s.holders = none) (hg : take i s.granted = some (w, rest)) :
    ∃ s', step s (.cancel i) = .ok s' ∧ s'.holders = s.holders ∧
      s'.value + weights s'.granted = s.value + weights rest + w ∧ s'.value + held s' = m := by
  have inv := run_inv m ops _ s (init_inv m) h
  have hstep : step s (.cancel i) = .ok (releaseW { s with granted := rest } w) := by simp [step, hn, hg]
  have ht := releaseW_total { s with granted := rest } w inv.nonneg inv.sorted
  exact ⟨_, hstep, ht.2.1, ht.1, (step_inv m s _ _ inv hstep).total⟩

/-- Liveness: after every step no waiter fits in the free value — in particular not the head of `self.events`, which
is the smallest waiter because the list is sorted by weight. -/
theorem no_blocked_waiter (h : run (init m) ops = .ok s) :
    (∀ p ∈ s.waiters, s.value < (p.1 : Int)) ∧ s.waiters.Pairwise (fun a b => a.1 ≤ b.1) :=
  let i := run_inv m ops _ s (init_inv m) h
  ⟨i.blocked, i.sorted⟩

/-- Consequence (no deadlock, no leak): when nothing is handed out, the full capacity is free and nobody waits. -/
theorem idle_means_full_and_no_waiters (h : run (init m) ops = .ok s) (h1 : s.holders = []) (h2 : s.granted = []) :
    s.value = m ∧ s.waiters = [] := by
  have inv := run_inv m ops _ s (init_inv m) h
  have ht := inv.total
  simp [held, h1, h2, weights] at ht
  refine ⟨ht, ?_⟩
  cases hs : s.waiters with
  | nil => rfl
  | cons p q =>
    have a := inv.blocked p (by simp [hs])
    have b := inv.le_max p (by simp [hs])
    omega

/-! ### The repaired defect, for the record (behaviour before commit da51d1a88)

`stepOld` leaves a cancelled waiter's entry in `self.events`.  On the 4-op witness — capacity 2: `a` takes 2, `b` (1)
queues, `b` is cancelled, `a` releases — the release grants the dead entry: value 1, nobody holds, 1 unit is lost for
ever.  The repaired `step` keeps the invariant on the same ops. -/

def witness : List Op := [.acquire 0 2, .acquire 1 1, .cancel 1, .release 0]

example : ∃ o, runOld ⟨init 2, []⟩ witness = .ok o ∧ o.s.value = 1 ∧ heldOld o = 0 ∧ o.s.value + heldOld o ≠ 2 :=
  ⟨⟨⟨2, 1, [], [(1, 1)], []⟩, [1]⟩, by decide⟩

example : run (init 2) witness = .ok ⟨2, 2, [], [], []⟩ := by decide

/-! Non-vacuity: runs that respect the protocol exist and reach every phase and every cancel branch. -/

-- smallest weight first, ties in insertion order: waiters (3),(1),(1) are kept as 1,1,3 and a release of 2 grants the two 1s
example : run (init 4) [.acquire 0 4, .acquire 1 3, .acquire 2 1, .acquire 3 1, .release 0]
    = .ok ⟨4, 2, [(3, 1)], [(1, 2), (1, 3)], []⟩ := by decide
-- granted then cancelled before resuming: the weight comes back and goes to the next waiter
example : run (init 2) [.acquire 0 2, .acquire 1 1, .acquire 2 2, .release 0, .cancel 1, .resume 2]
    = .ok ⟨2, 0, [], [], [(2, 2)]⟩ := by decide
-- exit by exception and by cancellation of a holder
example : run (init 2) [.acquire 0 1, .acquire 1 1, .fail 0, .cancel 1] = .ok (init 2) := by decide
-- one manager object of weight 2 entered three times in a row (left normally, by an exception, by cancellation) and then by two
-- tasks at once (the second has to wait for the first): afterwards everything is free again
example : run (init 2) [(Manager.mk 2).enter 0, .release 0, (Manager.mk 2).enter 0, .fail 0, (Manager.mk 2).enter 0, .cancel 0,
      (Manager.mk 2).enter 1, (Manager.mk 2).enter 2, .release 1, .resume 2, .release 2] = .ok (init 2) := by decide
-- the assertion `n <= self.max`
example : step (init 2) (.acquire 0 3) = .error .assertion := by decide

end HailVerif.C40

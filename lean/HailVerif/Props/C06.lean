import HailVerif.Proofs.BatchDBSubmission
import HailVerif.Props.C07
/-!
# C06 — Batch and job-group completion reflect their jobs

Subject: the BatchDB model (`HailVerif.BatchDB`); `commitUpdate` = procedure `commit_batch_update`, `complete` =
`mark_job_complete` + `mark_job_group_complete` (sql/116), `insertJobs` = `_create_jobs` (which writes the
`job_groups_inst_coll_staging` rows — key `sJobs b u g ic` of the counter log — for EVERY ancestor of each job's group).

Vocabulary (`Proofs/BatchDBSubmission.lean`): `under s b g j` — job `j` of batch `b` lies under group `g` (its group has
`g` among its ancestors-or-self); `gsum s b u g` — `SUM(n_jobs)` of the staging rows of (batch, update, group);
`stagedCount s b u g` — number of job rows of update `u` under `g`; `committedCount s b g` / `terminalCount s b g` — number
of (terminal) job rows of COMMITTED updates under `g`.

Results: `commit_reopens` (+ `commit_reopens_jobs`), the staging invariant `staging_exact` (unconditional, every reachable
state), `njobs_exact` (whole histories; steps `njobs_exact_commit` / `njobs_exact_insertJobs`; the batch-level statement
`BatchCountsInvariant` is stated only), `flag_step` / `flag_history` /
`complete_iff_all_terminal_partial` (the completion flag), and the corner cases the model exhibits.
-/
namespace HailVerif.C06
open HailVerif.BatchDB HailVerif.BatchDB.Submission
open HailVerif.C07 (after Reachable)

theorem reachable_step {s : State} (h : Reachable s) (op : Op) : Reachable (step s op).1 := by
  obtain ⟨pre, rfl⟩ := h
  exact ⟨pre ++ [op], by rw [HailVerif.C07.after_snoc]⟩

/-! ## (1) the staging table counts the inserted jobs, per ancestor -/

/-- **Staging invariant.**  In every reachable state, for every update that is not committed yet and every group `g`:
the staged `n_jobs` of (batch, update, g), summed over inst_colls, equals the number of job rows of that update whose
group has `g` among its ancestors.  Unconditional: `cleanupStaging` only deletes rows of committed updates, compaction
preserves sums, no other transaction touches these cells. -/
theorem staging_exact {s : State} (h : Reachable s) (b u g : Nat) (hc : updCommitted s b u = false) :
    gsum s b u g = stagedCount s b u g := by
  obtain ⟨ops, rfl⟩ := h
  exact (foldl_inv StagingInv stagingInv_step ops init stagingInv_init).1 b u g hc

/-- the two structural facts behind it: every job's group row exists; ancestor lists have no duplicates -/
theorem jobs_have_groups {s : State} (h : Reachable s) : JobsGroupOK s ∧ AncOK s := by
  obtain ⟨ops, rfl⟩ := h
  exact (foldl_inv StagingInv stagingInv_step ops init stagingInv_init).2

/-! ## (2) committing an update with jobs reopens the batch and every group the jobs lie under -/

/-- **`commit_reopens`.**  A commit that is accepted (`rc 0`) for an uncommitted update declaring `n_jobs ≠ 0`:
* marks the update committed;
* sets the batch `running` and adds `n_jobs` to `batches.n_jobs`;
* for every group row of the batch with a staging row of this update: adds the staged count `gsum` to its `n_jobs`, and
  sets it `running` when that count is positive (all other group rows are untouched);
* the staged count at the root equals the declared `n_jobs` (the only check the procedure makes). -/
theorem commit_reopens (s : State) (b upd : Nat) (u : Update) (hu : findUpdate s b upd = some u)
    (hc : u.committed = false) (hn : u.nJobs ≠ 0) (hok : (step s (.commitUpdate b upd)).2 = .ok 0) :
    (step s (.commitUpdate b upd)).1.updates = s.updates.map (markCommitted b upd) ∧
    (step s (.commitUpdate b upd)).1.batches = s.batches.map (commitBatch b u.nJobs) ∧
    (step s (.commitUpdate b upd)).1.groups = s.groups.map (commitGroup s b upd) ∧
    stagedRoot s b upd = u.nJobs := by
  obtain ⟨h1, h2⟩ := commitUpdate_effect s b upd u hu hc
  have hst : stagedRoot s b upd = u.nJobs := by
    by_cases hq : stagedRoot s b upd = u.nJobs
    · exact hq
    · have : (commitUpdate s b upd).2 = .ok 0 := hok
      rw [h1 hq] at this; cases this
  obtain ⟨-, e1, -, e2⟩ := h2 hst
  exact ⟨e1, (e2 hn).2.1, (e2 hn).1, hst⟩

/-- what `commitBatch` / `commitGroup` do to a row, spelled out -/
theorem commitBatch_row (b n : Nat) (x : Batch) (hx : x.id = b) :
    (commitBatch b n x).state = .running ∧ (commitBatch b n x).nJobs = x.nJobs + n := by
  simp [commitBatch, hx]

theorem commitGroup_row (s : State) (b upd : Nat) (x : Group) (hb : x.batch = b) (hpos : gsum s b upd x.id > 0) :
    (commitGroup s b upd x).state = .running ∧ (commitGroup s b upd x).nJobs = x.nJobs + gsum s b upd x.id := by
  have hr : hasRow s b upd x.id = true := hasRow_of_gsum_ne (by omega)
  simp [commitGroup, hb, hr, hpos]

/-- **In terms of the inserted jobs** (reachable states): after the accepted commit, for every job row `j` of the
committed update and EVERY ancestor `a` of `j`'s group, the group row `(b, a)` is `running` and its `n_jobs` grew by the
number of jobs of the update under `a` (≥ 1) — i.e. the job's group and all its ancestors are reopened. -/
theorem commit_reopens_jobs {s : State} (hr : Reachable s) (b upd : Nat) (u : Update) (hu : findUpdate s b upd = some u)
    (hc : u.committed = false) (hn : u.nJobs ≠ 0) (hok : (step s (.commitUpdate b upd)).2 = .ok 0)
    (j : Job) (hj : j ∈ s.jobs) (hjb : j.batch = b) (hju : j.update = upd) (a : Nat) (ha : a ∈ ancestorsOf s b j.group)
    (x : Group) (hx : x ∈ s.groups) (hxb : x.batch = b) (hxa : x.id = a) :
    commitGroup s b upd x ∈ (step s (.commitUpdate b upd)).1.groups ∧
    (commitGroup s b upd x).state = .running ∧
    (commitGroup s b upd x).nJobs = x.nJobs + stagedCount s b upd a ∧ 1 ≤ stagedCount s b upd a := by
  have hnc : updCommitted s b upd = false := by unfold updCommitted; rw [hu]; exact hc
  have hge : 1 ≤ stagedCount s b upd a := by
    unfold stagedCount
    have : j ∈ s.jobs.filter fun j => under s b a j && decide (j.update = upd) := by
      rw [List.mem_filter]; exact ⟨hj, by simp [under, hjb, hju, ha]⟩
    have := List.length_pos_of_mem this
    omega
  have hgs := staging_exact hr b upd a hnc
  obtain ⟨-, -, eg, -⟩ := commit_reopens s b upd u hu hc hn hok
  have hrow := commitGroup_row s b upd x hxb (by rw [hxa, hgs]; omega)
  refine ⟨by rw [eg]; exact List.mem_map.mpr ⟨x, hx, rfl⟩, hrow.1, ?_, hge⟩
  rw [hrow.2, hxa, hgs]

/-! ## (3) `n_jobs` is the number of committed jobs under the group -/

/-- the commit step keeps `n_jobs` exact: the count of committed jobs under each group grows by exactly the staged count
that the procedure adds.  `hz` covers the procedure's early exit `IF expected_n_jobs > 0`: an update declared with zero
jobs must have no job rows (true when job ids lie in the update's range — C08's `SpecsWF`). -/
theorem njobs_exact_commit {s : State} (hr : Reachable s) (b upd : Nat) (h : NJobsExact s)
    (hz : ∀ u, findUpdate s b upd = some u → u.nJobs = 0 → ∀ g, stagedCount s b upd g = 0) :
    NJobsExact (step s (.commitUpdate b upd)).1 :=
  njobsExact_commit s b upd h (fun b u g hc => staging_exact hr b u g hc) (jobs_have_groups hr).1 hz

/-- an accepted job bunch belongs to an uncommitted update, so it changes no committed count: `n_jobs` stays exact -/
theorem njobs_exact_insertJobs (s : State) (b upd user : Nat) (specs : List JobSpec) (h : NJobsExact s) :
    NJobsExact (step s (.insertJobs b upd user specs)).1 :=
  njobsExact_insertJobs s b upd user specs h

/-- **`njobs_exact`.**  For every history in which a commit of an update declared with ZERO jobs finds no job rows of
that update (`HistCommitOK`, decidable; the procedure skips its group bookkeeping when `expected_n_jobs = 0`, and job
ids outside the reserved range — the C08 defect — are the only way to violate this): every group row's `n_jobs` is the
number of job rows of COMMITTED updates whose group has that group among its ancestors-or-self.  No hypothesis about
staging clean-up is needed: `cleanupStaging` only deletes rows of committed updates. -/
theorem njobs_exact (ops : List Op) (h : HistCommitOK init ops) (g : Group) (hg : g ∈ (after init ops).groups) :
    g.nJobs = committedCount (after init ops) g.batch g.id :=
  (countInv_run ops init h countInv_init).njobs g hg

/-- the structural invariants proved along the way (same hypothesis): ancestor lists only name existing groups of the
batch; batch ids are below `nextBatch` and every group row belongs to an existing batch -/
theorem structure_invariants (ops : List Op) (h : HistCommitOK init ops) :
    AncClosed (after init ops) ∧ BatchFresh (after init ops) :=
  ⟨(countInv_run ops init h countInv_init).closed, (countInv_run ops init h countInv_init).fresh⟩

/-- **Batch level, STATED ONLY.**  `batches.n_jobs` is the number of job rows of committed updates of the batch, and
`batches.state = 'complete'` iff the root group's `n_completed` equals it.  The commit step is `commit_reopens`
(`commitBatch` adds the declared `n_jobs`, which the procedure checked to equal the staged count at the root, i.e. by
`staging_exact` the number of job rows of the update under the root).  Missing: (i) "every group has the root among its
ancestors" — false in the model for a group created under a parent id that does not exist (`insertGroup` then copies no
ancestor rows), so it needs a well-formedness hypothesis on group bunches; (ii) the per-transaction frame lemma for
`batches.state` / `batches.n_jobs` (only `commitUpdate` and `completeBatchIfDone` write them). -/
def BatchCountsInvariant : Prop :=
  ∀ ops : List Op, HistCommitOK init ops →
    (∀ g ∈ (after init ops).groups, 0 ∈ g.ancestors) →
    ∀ bt ∈ (after init ops).batches,
      bt.nJobs = committedCount (after init ops) bt.id 0 ∧
      (bt.nJobs > 0 → (bt.state = .complete ↔ rootCompleted (after init ops) bt.id = bt.nJobs))

/-! ## (4) the completion flag -/

/-- `n_completed` is the number of terminal jobs of committed updates under the group (`tallies_exact` of C04) -/
def TalliesExact (s : State) : Prop := ∀ g ∈ s.groups, g.nCompleted = terminalCount s g.batch g.id

theorem talliesBounded_of_exact {s : State} (ht : TalliesExact s) (hn : NJobsExact s) : TalliesBounded s := by
  intro g hg
  rw [ht g hg, hn g hg]
  exact terminalCount_le s g.batch g.id

/-- **One transaction.**  If "`state = complete` ⇔ `n_completed = n_jobs`" holds for every group that has jobs, it still
holds after any transaction, provided no group has counted more completions than it has jobs before and after
(`TalliesBounded`; it follows from `TalliesExact` + `NJobsExact`).  The two transactions that matter:
`mark_job_complete` tallies the job's group and its ancestors and then marks exactly those of them with
`n_completed = n_jobs` complete; `commit_batch_update` reopens exactly the groups whose `n_jobs` grows. -/
theorem flag_step {s : State} (hr : Reachable s) (op : Op) (h : FlagOK s) (hb : TalliesBounded s)
    (hb' : TalliesBounded (step s op).1) : FlagOK (step s op).1 := by
  refine flagOK_step s op h hb hb' ?_
  intro b upd g _ hc
  rw [staging_exact hr b upd g hc]; exact stagedCount_nonneg s b upd g

/-- **Every history** along which the tallies stay bounded: the flag says `n_completed = n_jobs`. -/
theorem flag_history (ops : List Op) (hb : ∀ k, TalliesBounded (after init (ops.take k))) : FlagOK (after init ops) := by
  suffices H : ∀ (ops : List Op) (s : State), Reachable s → FlagOK s →
      (∀ k, TalliesBounded (after s (ops.take k))) → FlagOK (after s ops) from
    H ops init ⟨[], rfl⟩ flagOK_init hb
  intro ops
  induction ops with
  | nil => intro s _ h _; exact h
  | cons op rest ih =>
    intro s hr h hb
    have h0 : TalliesBounded s := hb 0
    have h1 : TalliesBounded (step s op).1 := hb 1
    exact ih (step s op).1 (reachable_step hr op) (flag_step hr op h h0 h1) (fun k => hb (k + 1))

/-- **`complete_iff_all_terminal_partial`.**  In a state where the flag invariant, `NJobsExact` and `TalliesExact`
(C04) hold, a group with at least one committed job is reported `complete` exactly when every job row of a committed
update under it — jobs of descendant groups included — is in a terminal state; and its `n_jobs` / `n_completed` are the
counts over those jobs. -/
theorem complete_iff_all_terminal_partial {s : State} (hf : FlagOK s) (hn : NJobsExact s) (ht : TalliesExact s)
    (g : Group) (hg : g ∈ s.groups) (hpos : committedCount s g.batch g.id > 0) :
    (g.state = .complete ↔
      ∀ j ∈ s.jobs, (under s g.batch g.id j && updCommitted s g.batch j.update) = true → j.state.terminal = true) ∧
    g.nJobs = committedCount s g.batch g.id ∧ g.nCompleted = terminalCount s g.batch g.id := by
  refine ⟨?_, hn g hg, ht g hg⟩
  rw [hf g hg (by rw [hn g hg]; exact hpos), ht g hg, hn g hg]
  exact terminalCount_eq_iff s g.batch g.id

/-! ## corner cases the model exhibits (all faithful to the SQL) -/

/-- history: a batch with sub-group 1 (under root) and sub-group 2 (under root), two jobs in group 1, committed -/
def demo : List Op :=
  [.createBatch 1 1 100, .createUpdate 1 200 2 2 1, .insertGroups 1 1 1 [⟨1, some 0, 0⟩, ⟨2, some 0, 0⟩],
   .insertJobs 1 1 1 [⟨1, [], [], none, 1, false, 1000, 0⟩, ⟨2, [], [], none, 1, false, 1000, 0⟩], .commitUpdate 1 1]

/-- the driver runs and completes both jobs -/
def finish : List Op :=
  [.newInstance 7 4000 true, .activate 7, .schedule 1 1 1 7, .schedule 1 2 1 7,
   .complete 1 1 (some 1) (some 7) .Success (some 1) (some 2) "completed" 0,
   .complete 1 2 (some 1) (some 7) .Failed (some 1) (some 2) "completed" 0]

-- before the commit: everything `complete` with n_jobs 0 (a batch / group without jobs is created complete)
example : ((after init (demo.take 4)).groups.map fun g => (g.id, g.state, g.nJobs)) =
    [(0, .complete, 0), (1, .complete, 0), (2, .complete, 0)] := by decide
-- the commit reopens the root and group 1; group 2 has no job and STAYS `complete` with n_jobs 0
example : ((after init demo).groups.map fun g => (g.id, g.state, g.nJobs, g.nCompleted)) =
    [(0, .running, 2, 0), (1, .running, 2, 0), (2, .complete, 0, 0)] ∧
    ((after init demo).batches.map fun b => (b.state, b.nJobs)) = [(.running, 2)] := by decide
-- after the first completion nothing is complete; after the second, group 1, the root and the batch are
example : ((after init (demo ++ finish.take 5)).groups.map fun g => (g.id, g.state, g.nJobs, g.nCompleted)) =
    [(0, .running, 2, 1), (1, .running, 2, 1), (2, .complete, 0, 0)] := by decide
example : ((after init (demo ++ finish)).groups.map fun g => (g.id, g.state, g.nJobs, g.nCompleted, g.nSucceeded, g.nFailed)) =
    [(0, .complete, 2, 2, 1, 1), (1, .complete, 2, 2, 1, 1), (2, .complete, 0, 0, 0, 0)] ∧
    ((after init (demo ++ finish)).batches.map fun b => (b.state, b.nJobs)) = [(.complete, 2)] := by decide
-- adding an update with a job reopens the batch, the root and the job's group (2), not group 1
example : ((after init (demo ++ finish ++ [.createUpdate 1 201 1 0 1,
      .insertJobs 1 2 1 [⟨1, [], [], some 2, 0, false, 1000, 0⟩], .commitUpdate 1 2])).groups.map
        fun g => (g.id, g.state, g.nJobs, g.nCompleted)) =
    [(0, .running, 3, 2), (1, .complete, 2, 2), (2, .running, 1, 0)] := by decide
-- the hypotheses of the theorems hold along this history
example : HistCommitOK init (demo ++ finish) := by decide
example : ∀ k ≤ (demo ++ finish).length, TalliesBounded (after init ((demo ++ finish).take k)) := by
  unfold TalliesBounded; decide

/- The hypothesis `HistCommitOK` of `njobs_exact` (a commit of an update declared with ZERO jobs finds no job row of that
update) used to be violable: the former witness `wZero` sent a job into an update declared with 0 jobs, which `_create_jobs`
accepted.  Since the C08 repair `_create_jobs` rejects a job id outside `[1, n_jobs]` of its update (`specIdsOk` in the model),
so such a bunch is answered 400 and writes nothing; every job row lies in the reserved range of its own update
(`C08.accepted_ids_ok`), hence an update with `n_jobs = 0` has no job rows.  The hypothesis is kept in the statement because the
lemmas are proved for arbitrary start states. -/

instance (s : State) : Decidable (NJobsExact s) := by unfold NJobsExact; infer_instance

example : NJobsExact (after init (demo ++ finish)) := by decide

end HailVerif.C06

import HailVerif.Props.C07
import HailVerif.Proofs.BatchDBLifecycle
/-!
# C04 — Jobs follow the lifecycle and complete at most once

Subject: the BatchDB model (`HailVerif.BatchDB`, one `step` per transaction of the service).

`allowed a b` is the lifecycle relation on `jobs.state`: Pending → Ready → Creating → Running → terminal, where a
Ready / Creating / Running job may jump straight to a terminal state and a Creating / Running job may fall back to
Ready; reflexive; terminal states only relate to themselves.

Histories are lists of transactions (`Op`).  Three hypotheses on a history are kept explicit (all Boolean, checked on
the state in which the transaction runs):
* `wfB op`         — a completion report carries a terminal state (`Op.WF`);
* `specsOK s op`   — a submitted bunch is well-formed: job ids in the update's reserved range, every parent id names a
                     job that exists already or belongs to the same bunch (property C08; NOT enforced by `_create_jobs`);
* `noEarlyChild s op` — the excluded defect: `mark_job_complete` is not run on a job that has a child in an
                     uncommitted update other than update 1 (its child UPDATE has no `committed` check).
-/
namespace HailVerif.C04
open HailVerif.BatchDB
open HailVerif.C07 (after Reachable after_snoc reachable_inv)

/-- every transaction of the history satisfies `P` in the state it runs in -/
def okHist (P : State → Op → Bool) : State → List Op → Bool
  | _, [] => true
  | s, op :: rest => P s op && okHist P (step s op).1 rest

/-- well-formed messages and well-formed submissions -/
def wellFormed (s : State) (op : Op) : Bool := wfB op && specsOK s op

/-- … and no completion of a job that has a child in an uncommitted later update -/
def good (s : State) (op : Op) : Bool := wfB op && specsOK s op && noEarlyChild s op

theorem okHist_snoc (P : State → Op → Bool) (ops : List Op) (op : Op) : ∀ s : State,
    okHist P s (ops ++ [op]) = (okHist P s ops && P (after s ops) op) := by
  induction ops with
  | nil => intro s; simp [okHist, after]
  | cons o rest ih => intro s; simp only [List.cons_append, okHist, ih, Bool.and_assoc]; rfl

/-- the lifecycle invariant holds after every good history -/
theorem linv_of_good (ops : List Op) : ∀ s, LInv (· ≤ ·) s → okHist good s ops = true → LInv (· ≤ ·) (after s ops) := by
  induction ops with
  | nil => intro s hi _; exact hi
  | cons op rest ih =>
    intro s hi h
    simp only [okHist, good, Bool.and_eq_true] at h
    exact ih _ (linv_step s hi op (wf_of_wfB h.1.1.1) h.1.1.2 h.1.2) h.2

/-! ## the lifecycle relation, every step -/

/-- the property at full strength, for histories satisfying `P`: every transaction moves every job row along `allowed` -/
def StateStepAllowed (P : State → Op → Bool) : Prop :=
  ∀ (ops : List Op) (op : Op), okHist P init (ops ++ [op]) = true →
    ∀ x ∈ (after init ops).jobs, ∀ x', findJob (step (after init ops) op).1 x.batch x.id = some x' →
      allowed x.state x'.state = true

/-- terminal states are absorbing -/
def TerminalAbsorbing (P : State → Op → Bool) : Prop :=
  ∀ (ops : List Op) (op : Op), okHist P init (ops ++ [op]) = true →
    ∀ x ∈ (after init ops).jobs, x.state.terminal = true →
      ∀ x', findJob (step (after init ops) op).1 x.batch x.id = some x' → x'.state = x.state

/-- **state_step_allowed (partial).**  Outside the excluded defect every transaction of every history moves every job
along the lifecycle relation. -/
theorem state_step_allowed_partial : StateStepAllowed good := by
  intro ops op h x hx x' hx'
  rw [okHist_snoc, Bool.and_eq_true] at h
  have hi := linv_of_good ops init linv_init h.1
  simp only [good, Bool.and_eq_true] at h
  exact allowed_step (stepDesc _ hi.uniq hi.upd op) (wf_of_wfB h.2.1.1) hi x hx x' hx'

/-- **terminal_absorbing (partial).** -/
theorem terminal_absorbing_partial : TerminalAbsorbing good := by
  intro ops op h x hx ht x' hx'
  exact allowed_terminal ht (state_step_allowed_partial ops op h x hx x' hx')

/-- one step, stated on the invariant: useful when the history is not at hand -/
theorem state_step_allowed_of_inv {R : Int → Int → Prop} (s : State) (hi : LInv R s) (op : Op) (hwf : op.WF) (x : Job) (hx : x ∈ s.jobs) (x' : Job)
    (hx' : findJob (step s op).1 x.batch x.id = some x') : allowed x.state x'.state = true :=
  allowed_step (stepDesc s hi.uniq hi.upd op) hwf hi x hx x' hx'

/-! ## the defect: with well-formed messages and submissions only, the property is FALSE -/

/-- update 1 with job 1 committed; update 2 with job 2 ← job 1 inserted but not committed; job 1 runs and succeeds:
its child in the uncommitted update becomes Ready, is scheduled and succeeds; then update 2 is committed -/
def witness : List Op :=
  [.createBatch 1 1 100,
   .createUpdate 1 200 1 0 1,
   .insertJobs 1 1 1 [⟨1, [], [], some 0, 0, false, 1000, 0⟩],
   .commitUpdate 1 1,
   .createUpdate 1 201 1 0 1,
   .insertJobs 1 2 1 [⟨1, [1], [], some 0, 0, false, 1000, 0⟩],
   .newInstance 7 4000 true, .activate 7,
   .schedule 1 1 11 7,
   .complete 1 1 (some 11) (some 7) .Success (some 5) (some 9) "completed" 0,
   .schedule 1 2 12 7,
   .complete 1 2 (some 12) (some 7) .Success (some 10) (some 12) "completed" 0]

def lateCommit : Op := .commitUpdate 1 2

set_option maxRecDepth 8192 in
theorem witness_wellFormed : okHist wellFormed init (witness ++ [lateCommit]) = true := by decide

set_option maxRecDepth 8192 in
/-- job 2 has succeeded before the late commit … -/
theorem witness_before : findJob (after init witness) 1 2 =
    some ⟨1, 2, 2, 0, .Success, false, 1000, 0, 0, false, some 12⟩ := by decide

set_option maxRecDepth 8192 in
/-- … and the commit of its update resets it to Ready -/
theorem witness_after : (findJob (step (after init witness) lateCommit).1 1 2).map (·.state) = some .Ready := by decide

/-- **state_step_allowed fails** for histories that are merely well-formed: `commit_batch_update` moves a job from
Success back to Ready -/
theorem state_step_allowed_fails : ¬ StateStepAllowed wellFormed := by
  intro h
  have hm := mem_of_findJob witness_before
  have hw := witness_after
  cases hf : findJob (step (after init witness) lateCommit).1 1 2 with
  | none => rw [hf] at hw; simp at hw
  | some x' =>
    rw [hf] at hw
    simp only [Option.map_some, Option.some.injEq] at hw
    have := h witness lateCommit witness_wellFormed _ hm.1 x' hf
    rw [hw] at this
    exact absurd this (by decide)

theorem terminal_absorbing_fails : ¬ TerminalAbsorbing wellFormed := by
  intro h
  have hm := mem_of_findJob witness_before
  have hw := witness_after
  cases hf : findJob (step (after init witness) lateCommit).1 1 2 with
  | none => rw [hf] at hw; simp at hw
  | some x' =>
    rw [hf] at hw
    simp only [Option.map_some, Option.some.injEq] at hw
    have := h witness lateCommit witness_wellFormed _ hm.1 rfl x' hf
    rw [hw] at this
    exact absurd this (by decide)

set_option maxRecDepth 8192 in
/-- the excluded step is exactly the completion of job 1: every earlier transaction of the witness is good -/
example : okHist good init (witness.take 9) = true ∧
    noEarlyChild (after init (witness.take 9)) (.complete 1 1 (some 11) (some 7) .Success (some 5) (some 9) "completed" 0) = false := by
  decide

/-! ## a Pending job never starts or completes — no hypothesis on the history at all -/

theorem reachable_updOrdered {s : State} (h : Reachable s) : UpdOrdered s := by
  obtain ⟨ops, rfl⟩ := h
  suffices ∀ (ops : List Op) (s : State), JobsUnique s → UpdOrdered s → UpdOrdered (after s ops) from
    this ops init (by simp [JobsUnique, init]) updOrdered_init
  intro ops
  induction ops with
  | nil => intro s _ ho; exact ho
  | cons op rest ih =>
    intro s hu ho
    exact ih _ ((shape_step s op).unique hu) (updOrdered_step s hu ho op)

/-- **pending_never_runs.**  In every reachable state (any history, malformed submissions and the defect included), no
transaction moves a Pending job anywhere but to Ready: it is never started, never completed. -/
theorem pending_never_runs (s : State) (hr : Reachable s) (op : Op) (x : Job) (hx : x ∈ s.jobs)
    (hp : x.state = .Pending) (x' : Job) (hx' : findJob (step s op).1 x.batch x.id = some x') :
    x'.state = .Pending ∨ x'.state = .Ready :=
  pending_step (stepDesc s (reachable_inv hr).1 (reachable_updOrdered hr) op) (reachable_inv hr).1 x hx hp x' hx'

/-! ## each job is counted once in the tallies, however often or late completion is reported -/

/-- **complete_counts_once.**  `mark_job_complete` on an existing job: if the job was Ready / Creating / Running and the
procedure answers rc 0, then `n_completed` of the job's group and of each of its ancestors grows by exactly one
(`tallyInc`: and exactly one of n_succeeded / n_failed / n_cancelled with it) and no other group row's tallies change;
on an already terminal job (rc 0, "already complete"), with a stale attempt id (rc 2) or on a Pending job (rc 1) no
group row changes at all. -/
theorem complete_counts_once (s : State) (b j : Nat) (att inst : Option Nat) (ns : JState) (st e : Option Int) (r : String)
    (d : Nat) (job : Job) (hj : findJob s b j = some job) :
    (job.state.active = true → (complete s b j att inst ns st e r d).2 = .ok 0 →
      (complete s b j att inst ns st e r d).1.groups.map tallyKey = s.groups.map (fun g => (g.batch, g.id,
        if g.batch = b ∧ g.id ∈ ancestorsOf s b job.group then tallyAdd (tallyOf g) (tallyInc ns) else tallyOf g))) ∧
    ((job.state.active = false ∨ (complete s b j att inst ns st e r d).2 ≠ .ok 0) →
      (complete s b j att inst ns st e r d).1.groups = s.groups) :=
  complete_tallies s b j att inst ns st e r d job hj

/-- a terminal job stays in its state along every good continuation -/
theorem terminal_stays (ops : List Op) : ∀ (s : State), LInv (· ≤ ·) s → okHist good s ops = true → ∀ x ∈ s.jobs,
    x.state.terminal = true → ∃ x', findJob (after s ops) x.batch x.id = some x' ∧ x'.state = x.state := by
  induction ops with
  | nil => intro s hi _ x hx _; exact ⟨x, findJob_of_mem hi.uniq x hx, rfl⟩
  | cons op rest ih =>
    intro s hi h x hx ht
    simp only [okHist, good, Bool.and_eq_true] at h
    have hwf := wf_of_wfB h.1.1.1
    have hi' := linv_step s hi op hwf h.1.1.2 h.1.2
    obtain ⟨y, hy, -⟩ := findJob_shape (shape_step s op) x.batch x.id x (findJob_of_mem hi.uniq x hx)
    have hst : y.state = x.state :=
      allowed_terminal ht (allowed_step (stepDesc s hi.uniq hi.upd op) hwf hi x hx y hy)
    obtain ⟨hym, hyb, hyid⟩ := mem_of_findJob hy
    obtain ⟨x', hx', hs'⟩ := ih _ hi' (by simpa [good] using h.2) y hym (by rw [hst]; exact ht)
    exact ⟨x', by rw [← hyb, ← hyid]; exact hx', hs'.trans hst⟩

/-- **late or repeated completion reports change no tally**: once a job is terminal in a state reached by a good history,
after any good continuation every further `mark_job_complete` for it (any attempt, any reported state) leaves every group
row as it is. -/
theorem late_completion_no_tally (ops1 ops2 : List Op) (h : okHist good init (ops1 ++ ops2) = true) (x : Job)
    (hx : x ∈ (after init ops1).jobs) (ht : x.state.terminal = true) (att inst : Option Nat) (ns : JState)
    (st e : Option Int) (r : String) (d : Nat) :
    (complete (after init (ops1 ++ ops2)) x.batch x.id att inst ns st e r d).1.groups = (after init (ops1 ++ ops2)).groups := by
  have hsplit : ∀ (l1 l2 : List Op) (s : State), okHist good s (l1 ++ l2) = true →
      okHist good s l1 = true ∧ okHist good (after s l1) l2 = true := by
    intro l1
    induction l1 with
    | nil => intro l2 s h; exact ⟨rfl, h⟩
    | cons o l1 ih =>
      intro l2 s h
      simp only [List.cons_append, okHist, Bool.and_eq_true] at h ⊢
      obtain ⟨k1, k2⟩ := ih l2 _ h.2
      exact ⟨⟨h.1, k1⟩, k2⟩
  obtain ⟨h1, h2⟩ := hsplit ops1 ops2 init h
  have hi := linv_of_good ops1 init linv_init h1
  obtain ⟨x', hx', hs'⟩ := terminal_stays ops2 _ hi h2 x hx ht
  have hafter : after init (ops1 ++ ops2) = after (after init ops1) ops2 := by simp [after, List.foldl_append]
  rw [hafter]
  refine (complete_tallies _ x.batch x.id att inst ns st e r d x' hx').2 (Or.inl ?_)
  rw [hs']
  cases hst : x.state <;> simp_all [JState.terminal, JState.active]

/-! ## the tallies are exact -/

/-- the jobs in group `g` or in a group below it (`g.id` is among the ancestors-or-self of the job's group) -/
def jobsUnder (s : State) (g : Group) : List Job := s.jobs.filter (fun x => under s g.batch g.id x)

/-- the full statement, for histories satisfying `P`: every group row's four tallies are the numbers of jobs in the group
or below it that are terminal / succeeded / failed or errored / cancelled -/
def TalliesExact (P : State → Op → Bool) : Prop :=
  ∀ (ops : List Op), okHist P init ops = true → ∀ g ∈ (after init ops).groups,
    g.nCompleted = (((jobsUnder (after init ops) g).filter fun x => x.state.terminal).length : Int) ∧
    g.nSucceeded = (((jobsUnder (after init ops) g).filter fun x => decide (x.state = .Success)).length : Int) ∧
    g.nFailed = (((jobsUnder (after init ops) g).filter fun x => decide (x.state = .Failed ∨ x.state = .Error)).length : Int) ∧
    g.nCancelled = (((jobsUnder (after init ops) g).filter fun x => decide (x.state = .Cancelled)).length : Int)

theorem tinv_of_good (ops : List Op) : ∀ s, LInv (· ≤ ·) s → TInv s → okHist good s ops = true → TInv (after s ops) := by
  induction ops with
  | nil => intro s _ ht _; exact ht
  | cons op rest ih =>
    intro s hi ht h
    simp only [okHist, good, Bool.and_eq_true] at h
    have hwf := wf_of_wfB h.1.1.1
    exact ih _ (linv_step s hi op hwf h.1.1.2 h.1.2) (tinv_step s hi ht op hwf) (by simpa [good] using h.2)

theorem sumBy_indicator {α : Type} (p : α → Bool) (l : List α) :
    sumBy (fun x => if p x then (1 : Int) else 0) l = ((l.filter p).length : Int) := by
  induction l with
  | nil => rfl
  | cons x l ih =>
    rw [sumBy_cons, ih]
    by_cases h : p x = true
    · simp [h]; omega
    · simp [h]

theorem recount_eq_count (i : Fin 4) (q : JState → Bool) (hq : ∀ st, comp i (contrib st) = if q st then 1 else 0)
    (s : State) (g : Group) :
    recount i s g.batch g.id = (((jobsUnder s g).filter fun x => q x.state).length : Int) := by
  unfold recount jobsUnder
  rw [List.filter_filter, ← sumBy_indicator]
  apply sumBy_congr
  intro x _
  rw [hq]
  cases under s g.batch g.id x <;> cases q x.state <;> rfl

/-- **tallies_exact (partial).**  After every good history, every group row counts each job in it or below it exactly once
in `n_completed` and in exactly one of `n_succeeded` / `n_failed` / `n_cancelled`, according to its terminal state. -/
theorem tallies_exact_partial : TalliesExact good := by
  intro ops h g hg
  have hi := linv_of_good ops init linv_init h
  have ht := tinv_of_good ops init linv_init tinv_init h
  refine ⟨?_, ?_, ?_, ?_⟩
  · rw [← recount_eq_count 0 (fun st => st.terminal) (by intro st; cases st <;> rfl)]
    exact ht.exact g hg 0
  · rw [← recount_eq_count 1 (fun st => decide (st = .Success)) (by intro st; cases st <;> rfl)]
    exact ht.exact g hg 1
  · rw [← recount_eq_count 2 (fun st => decide (st = .Failed ∨ st = .Error)) (by intro st; cases st <;> rfl)]
    exact ht.exact g hg 2
  · rw [← recount_eq_count 3 (fun st => decide (st = .Cancelled)) (by intro st; cases st <;> rfl)]
    exact ht.exact g hg 3

set_option maxRecDepth 8192 in
/-- on the defect's witness the tallies are NOT exact: after the late commit job 2 is Ready again but is still counted as
completed and succeeded in the root group (2 completed, 1 terminal job) -/
theorem tallies_exact_fails : ¬ TalliesExact wellFormed := by
  intro h
  have := h (witness ++ [lateCommit]) witness_wellFormed ⟨1, 0, [0], none, .running, 2, 2, 2, 0, 0⟩ (by decide)
  revert this
  decide

/-! ## non-vacuity of the hypotheses -/

/-- a two-update DAG run to completion in the intended order (commit before the parents finish) is a good history -/
def goodDemo : List Op :=
  [.createBatch 1 1 100,
   .createUpdate 1 200 2 0 1,
   .insertJobs 1 1 1 [⟨1, [], [], some 0, 0, false, 1000, 0⟩, ⟨2, [], [1], some 0, 0, false, 1000, 0⟩],
   .commitUpdate 1 1,
   .createUpdate 1 201 1 0 1,
   .insertJobs 1 2 1 [⟨1, [2], [], some 0, 0, true, 1000, 0⟩],
   .commitUpdate 1 2,
   .newInstance 7 4000 true, .activate 7,
   .schedule 1 1 11 7,
   .complete 1 1 (some 11) (some 7) .Failed (some 5) (some 9) "completed" 0,
   .complete 1 1 (some 11) (some 7) .Failed (some 5) (some 9) "completed" 0,
   .complete 1 2 none none .Cancelled none none "cancelled" 0,
   .schedule 1 3 13 7,
   .complete 1 3 (some 13) (some 7) .Success (some 10) (some 12) "completed" 0]

set_option maxRecDepth 8192 in
example : okHist good init goodDemo = true := by decide

set_option maxRecDepth 8192 in
example : (after init goodDemo).jobs.map (fun j => (j.id, j.state, j.cancelled)) =
    [(1, .Failed, false), (2, .Cancelled, true), (3, .Success, true)] := by decide

end HailVerif.C04

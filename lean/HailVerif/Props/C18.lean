import HailVerif.Proofs.BatchDsl
/-!
# C18 — Batch DSL resource plumbing is consistent

Subject: `HailVerif.BatchDsl`, the model of the resource plumbing of `hailtop.batch` (`resource.py`, `job.py`, `batch.py`,
`backend.py: ServiceBackend._async_run`), tied to the code by the correspondence check `harness/props/c18.py`.

Three clauses of the property do **not** hold on the unchanged tree; for each the full statement is kept, its negation is proved
on the minimal witness, and the strongest partial theorem is proved with the excluding hypothesis explicit:

* `interpolate_only_refs`  — refuted: a reference immediately followed by a digit (`f"{r}2"`) is read as another uid;
                             partial: `Separated` pieces (no reference is immediately followed by a digit; texts contain no `__`).
* `path_injective`         — refuted: two files of one `read_input_group` with the same basename share a path;
                             partial: equal paths force equal (directory, value) — distinct (directory, value) ⇒ distinct paths.
* `command_paths_current`  — refuted: `add_extension` after the resource was used in a command;
                             partial: the handler substitutes the path the resource has at that moment, and the path of a
                             resource only depends on the resource table and the job directories (`SameRes`).

`upload_eq_download` and `consumer_child_of_producer` are proved for the handler step and the submitted plan
(`…_partial`: that these links persist over the *rest of the program* is proved for the rest of the command
(`links_persist_within_command`), not for later statements — they only apply `insertNew`/`unionNew` to these sets).
-/
namespace HailVerif.C18
open HailVerif.BatchDsl

/-! ## Paths -/

/-- **path_injective, partial**: under one directory, two file resources with the same path have the same sub-directory
(`inputs` or the source job's directory, which never contain `/`) and the same file name.  So resources that differ in
(directory, name) never share a path.  Missing for the full statement: see `path_injective_refuted`. -/
theorem path_injective_partial (st : St) (dir : Str) (n₁ n₂ : Nat) (f₁ f₂ : FileRes)
    (h₁ : st.file? n₁ = some f₁) (h₂ : st.file? n₂ = some f₂)
    (hs₁ : '/' ∉ st.subdir f₁.source) (hs₂ : '/' ∉ st.subdir f₂.source)
    (h : st.path dir (.file n₁) = st.path dir (.file n₂)) :
    st.subdir f₁.source = st.subdir f₂.source ∧ f₁.value = f₂.value := by
  simp only [St.path, h₁, h₂, List.append_assoc] at h
  have h' := List.append_cancel_left h
  simp only [List.singleton_append, List.cons.injEq, true_and] at h'
  exact split_at_slash _ _ _ _ hs₁ hs₂ h'

/-- what `Job.__init__` guarantees about scratch directories: the unique token is appended *after* the name was truncated, so it
can always be read back — two jobs whose (alphanumeric) tokens differ have different directories, however long or equal their
names are -/
theorem job_dirs_distinct (name₁ name₂ : Option Str) (tok₁ tok₂ : Str) (h₁ : '-' ∉ tok₁) (h₂ : '-' ∉ tok₂) (hne : tok₁ ≠ tok₂) :
    jobDirname name₁ tok₁ ≠ jobDirname name₂ tok₂ :=
  fun h => hne (jobDirname_token name₁ name₂ tok₁ tok₂ h₁ h₂ h)

/-- a job directory is one path component: `safe_str` rewrites `/`, tokens are alphanumeric -/
theorem job_dir_is_one_component (name : Option Str) (tok : Str) (h : '/' ∉ tok) : '/' ∉ jobDirname name tok :=
  jobDirname_no_slash name tok h

/-- **renaming a job later does not move its files**: `j.name = …` after the job was created changes neither the resource table
nor any job directory, so every path already baked into a command, and every upload / download location, stays what it was -/
theorem rename_keeps_paths (st st' : St) (j : Nat) (name : Option Str) (h : step st (.rename j name) = .ok st') :
    st' = st ∧ SameRes st st' := by
  simp only [step] at h
  split at h
  · cases h; exact ⟨rfl, SameRes.refl _⟩
  · cases h

/-- the directory name stays within 251 characters: only the name part is cut -/
theorem job_dir_length (name tok : Str) :
    (jobDirname (some name) tok).length = min (250 - tok.length) name.length + 1 + tok.length := by
  simp [jobDirname, safeStr, List.length_take]; omega

/-- **path_injective, partial — files of different jobs**: two job resource files whose source jobs were created by
`Job.__init__` with different tokens never share a path, whatever the job names (equal, 250 characters long, …) and whatever
the file names.  The hypotheses are exactly what the code guarantees: `_unique_job_token` hands out distinct alphanumeric tokens
and `_dirname` is `jobDirname name token`. -/
theorem path_injective_different_jobs_partial (st : St) (dir : Str) (n₁ n₂ j₁ j₂ : Nat) (v₁ v₂ : Str) (g₁ g₂ : Option Nat)
    (e₁ e₂ : Bool) (name₁ name₂ : Option Str) (tok₁ tok₂ : Str)
    (h₁ : st.file? n₁ = some (.jobFile j₁ v₁ g₁ e₁)) (h₂ : st.file? n₂ = some (.jobFile j₂ v₂ g₂ e₂))
    (hd₁ : (st.job j₁).dirname = jobDirname name₁ tok₁) (hd₂ : (st.job j₂).dirname = jobDirname name₂ tok₂)
    (ha₁ : '-' ∉ tok₁ ∧ '/' ∉ tok₁) (ha₂ : '-' ∉ tok₂ ∧ '/' ∉ tok₂) (hne : tok₁ ≠ tok₂) :
    st.path dir (.file n₁) ≠ st.path dir (.file n₂) := by
  intro h
  have := (path_injective_partial st dir n₁ n₂ _ _ h₁ h₂
    (by simp only [FileRes.source, St.subdir, hd₁]; exact jobDirname_no_slash _ _ ha₁.2)
    (by simp only [FileRes.source, St.subdir, hd₂]; exact jobDirname_no_slash _ _ ha₂.2) h).1
  simp only [FileRes.source, St.subdir, hd₁, hd₂] at this
  exact job_dirs_distinct name₁ name₂ tok₁ tok₂ ha₁.1 ha₂.1 hne this

/-- **path_injective over converted PythonResults**: `result.as_json()`, `.as_str()`, `.as_repr()` of the calls of a PythonJob get
pairwise different file names — the name determines the call and the conversion (`result1-str.txt` ≠ `result1-repr.txt`) -/
theorem converted_names_injective (k₁ k₂ : Nat) (c₁ c₂ : Conv) (h : convValue k₁ c₁ = convValue k₂ c₂) : k₁ = k₂ ∧ c₁ = c₂ :=
  convValue_inj k₁ k₂ c₁ c₂ h

/-- … hence two converted files of the *same* job never share a path unless they are the same conversion of the same result
(for different jobs: `path_injective_different_jobs_partial`) -/
theorem converted_paths_injective (st : St) (dir : Str) (n₁ n₂ j k₁ k₂ : Nat) (c₁ c₂ : Conv)
    (h₁ : st.file? n₁ = some (.jobFile j (convValue k₁ c₁) none true))
    (h₂ : st.file? n₂ = some (.jobFile j (convValue k₂ c₂) none true))
    (hd : '/' ∉ (st.job j).dirname) (h : st.path dir (.file n₁) = st.path dir (.file n₂)) : k₁ = k₂ ∧ c₁ = c₂ := by
  have := (path_injective_partial st dir n₁ n₂ _ _ h₁ h₂ (by simpa [FileRes.source, St.subdir] using hd)
    (by simpa [FileRes.source, St.subdir] using hd) h).2
  exact convValue_inj k₁ k₂ c₁ c₂ (by simpa [FileRes.value] using this)

/-- `str(n)` is injective (uids and result names are numbered) -/
theorem decimal_injective (n m : Nat) (h : Nat.toDigits 10 n = Nat.toDigits 10 m) : n = m := toDigits_inj n m h

/-- `Job._get_resource(item)`: a new job resource file gets the identifier **itself** as its file name — for every string
(`j['chr1:100']`, `j['out 1']`, `j['a/b']`, non-ASCII, … ; nothing is rejected, nothing is rewritten) -/
theorem job_resource_is_named_by_its_identifier (st : St) (j : Nat) (ident : Str)
    (hnew : (st.job j).resources.lookup ident = none) (hfresh : st.files.lookup st.rfCount = none) :
    (getJobResource st j ident).2 = .file st.rfCount ∧
      (getJobResource st j ident).1.file? st.rfCount = some (.jobFile j ident none false) := by
  simp only [getJobResource, hnew]
  refine ⟨by simp, ?_⟩
  simp only [St.file?, St.updJob]
  rw [List.lookup_append, hfresh]
  simp

/-- **path_injective over ALL identifiers**: two resource files of one job whose file names are their identifiers have the same
path only if the identifiers are the same string — whatever characters they contain (colon, space, slash, case, length, …) -/
theorem job_resource_path_injective_in_identifier (st : St) (dir : Str) (j n₁ n₂ : Nat) (i₁ i₂ : Str) (g₁ g₂ : Option Nat)
    (e₁ e₂ : Bool) (h₁ : st.file? n₁ = some (.jobFile j i₁ g₁ e₁)) (h₂ : st.file? n₂ = some (.jobFile j i₂ g₂ e₂))
    (hd : '/' ∉ (st.job j).dirname) (h : st.path dir (.file n₁) = st.path dir (.file n₂)) : i₁ = i₂ := by
  have := (path_injective_partial st dir n₁ n₂ _ _ h₁ h₂ (by simpa [FileRes.source, St.subdir] using hd)
    (by simpa [FileRes.source, St.subdir] using hd) h).2
  simpa [FileRes.value] using this

/-- the local path of a job resource file as a function of the identifier is injective outright (fixed directory and job) -/
theorem job_file_path_injective (dir dirname i₁ i₂ : Str) (h : dir ++ ['/'] ++ dirname ++ ['/'] ++ i₁ = dir ++ ['/'] ++ dirname ++ ['/'] ++ i₂) :
    i₁ = i₂ := List.append_cancel_left h

/-- full statement of `path_injective`: in every state a program can reach, distinct file resources have distinct paths -/
def PathInjective : Prop :=
  ∀ (prog : List Stmt) (st : St), run prog = .ok st → ∀ n₁ n₂ f₁ f₂, st.file? n₁ = some f₁ → st.file? n₂ = some f₂ → n₁ ≠ n₂ →
    st.path [] (.file n₁) ≠ st.path [] (.file n₂)

/-- `b.read_input_group(a='gs://in/x/f.txt', b='gs://in/y/f.txt')` -/
def witnessBasename : List Stmt :=
  [.igroup [(['a'], ['g', 's', ':', '/', '/', 'i', 'n', '/', 'x', '/', 'f', '.', 't', 'x', 't']),
            (['b'], ['g', 's', ':', '/', '/', 'i', 'n', '/', 'y', '/', 'f', '.', 't', 'x', 't'])]]

private def probeFiles (prog : List Stmt) : Option (Option FileRes × Option FileRes × Str × Str) :=
  match run prog with
  | .ok st => some (st.file? 0, st.file? 1, st.path [] (.file 0), st.path [] (.file 1))
  | .error _ => none

/-- **Finding** — both files of the group are localised to `inputs/tk1/f.txt`. -/
theorem path_injective_refuted : ¬ PathInjective := by
  intro h
  have hp : probeFiles witnessBasename =
      some (some (.input ['t', 'k', '1', '/', 'f', '.', 't', 'x', 't'] ['g', 's', ':', '/', '/', 'i', 'n', '/', 'x', '/', 'f', '.', 't', 'x', 't'] (some 0)),
            some (.input ['t', 'k', '1', '/', 'f', '.', 't', 'x', 't'] ['g', 's', ':', '/', '/', 'i', 'n', '/', 'y', '/', 'f', '.', 't', 'x', 't'] (some 0)),
            ['/', 'i', 'n', 'p', 'u', 't', 's', '/', 't', 'k', '1', '/', 'f', '.', 't', 'x', 't'],
            ['/', 'i', 'n', 'p', 'u', 't', 's', '/', 't', 'k', '1', '/', 'f', '.', 't', 'x', 't']) := by decide
  unfold probeFiles at hp
  cases hr : run witnessBasename with
  | error e => rw [hr] at hp; cases hp
  | ok st =>
    rw [hr] at hp
    simp only [Option.some.injEq, Prod.mk.injEq] at hp
    obtain ⟨h0, h1, p0, p1⟩ := hp
    exact h witnessBasename st hr 0 1 _ _ h0 h1 (by decide) (by rw [p0, p1])

/-! ## Command interpolation -/

/-- full statement of `interpolate_only_refs` at the level of the tokenizer: the regular expression reads every command the way
the user built it from texts and references -/
def TokenizesAsMeant : Prop :=
  ∀ ps : List UPiece, (∀ p ∈ ps, ∀ k n, p = .ref k n → k = .rf ∨ k = .rg) → tokenize (renderU ps) 0 = expectedToks ps

/-- **Finding** — `f"{r}2"` with `r = __RESOURCE_FILE__0` is read as the single uid `__RESOURCE_FILE__02`. -/
theorem interpolate_only_refs_refuted : ¬ TokenizesAsMeant := by
  intro h
  have := h [.ref .rf 0, .text ['2']] (by
    intro p hp k n hk
    simp only [List.mem_cons, List.not_mem_nil, or_false] at hp
    rcases hp with rfl | rfl
    · cases hk; exact Or.inl rfl
    · cases hk)
  revert this
  decide

/-- … and the real pipeline `j = b.new_job(); j.command(f'echo {j.ofile}2')` is rejected with a BatchException
("undefined resource '__RESOURCE_FILE__02'"). -/
theorem digit_after_reference_raises :
    (match run [.job none, .cmd 0 [.text ['e', 'c', 'h', 'o', ' '], .ref (.jobAttr 0 ['o', 'f', 'i', 'l', 'e']), .text ['2']]] with
      | .error e => some e
      | .ok _ => none) = some Err.batchException := by decide

/-- **interpolate_only_refs, partial** (maximal-munch reading): if no reference is immediately followed by a digit and the texts
contain no `__` (and do not end in `_`), then whenever `_interpolate_command` succeeds its result is the command with every
reference replaced by `${BATCH_TMPDIR}` ++ `shlex.quote(path)` of the resource its uid denotes and every other character
unchanged. -/
theorem interpolate_only_refs_partial (st st' : St) (c : Nat) (ps : List UPiece) (hsep : Separated ps) (out : Str)
    (h : interpolate st c (renderU ps) = .ok (st', out)) : out = specOut st ps := by
  unfold interpolate at h
  rw [tokenize_separated ps hsep] at h
  simpa using (interpolateToks_spec ps st st' c [] out h).1

/-- under the same hypothesis the regular expression finds exactly the references the user wrote -/
theorem tokenize_separated_pieces (ps : List UPiece) (hsep : Separated ps) : tokenize (renderU ps) 0 = expectedToks ps :=
  tokenize_separated ps hsep

/-- the replacement the handler computes is `${BATCH_TMPDIR}` ++ quote(path) of the looked-up resource at that moment; the
handler itself changes neither the resource table nor any job directory -/
theorem handler_substitutes_current_path (st st' : St) (c : Nat) (k : UKind) (ds s : Str) (h : handleRef st c k ds = .ok (st', s)) :
    ∃ r, lookupUid st k ds = some r ∧ s = replacement st r ∧ replacement st' r = replacement st r := by
  obtain ⟨_, r, hl, _, hs, hsame⟩ := handleRef_spec st st' c k ds s h
  exact ⟨r, hl, hs, by simp [replacement, hsame.path]⟩

/-- `x` occurs in `s` as a contiguous substring -/
def occursIn (x : Str) : Str → Bool
  | [] => x.isPrefixOf []
  | c :: s => x.isPrefixOf (c :: s) || occursIn x s

/-- full statement of `command_paths_current`: when the batch is submitted, every resource a job mentioned occurs in one of the
job's commands under the path it has *now* (`${BATCH_TMPDIR}` ++ quote(path)) -/
def CommandPathsCurrent : Prop :=
  ∀ (prog : List Stmt) (st : St), run prog = .ok st → ∀ j, j < st.nJobs → ∀ r ∈ (st.job j).mentioned,
    ∃ cmd ∈ (st.job j).commands, occursIn (replacement st r) cmd = true

/-- the docstring example of `add_extension`: `j.command(f'echo hello > {j.ofile}'); j.ofile.add_extension('.txt')` -/
def witnessExt : List Stmt :=
  [.job none,
   .cmd 0 [.text ['e', 'c', 'h', 'o', ' ', 'h', 'e', 'l', 'l', 'o', ' ', '>', ' '], .ref (.jobAttr 0 ['o', 'f', 'i', 'l', 'e'])],
   .ext 0 ['o', 'f', 'i', 'l', 'e'] ['.', 't', 'x', 't']]

private def probeExt (prog : List Stmt) : Option (Nat × List Rid × List Str × Str) :=
  match run prog with
  | .ok st => some (st.nJobs, (st.job 0).mentioned, (st.job 0).commands, replacement st (.file 0))
  | .error _ => none

/-- **Finding** — the submitted command still names `…/ofile`, while the resource (and `output_files`) is now `…/ofile.txt`. -/
theorem command_paths_current_refuted : ¬ CommandPathsCurrent := by
  intro h
  have hp : probeExt witnessExt =
      some (1, [.file 0],
            [['e', 'c', 'h', 'o', ' ', 'h', 'e', 'l', 'l', 'o', ' ', '>', ' ', '$', '{', 'B', 'A', 'T', 'C', 'H', '_', 'T', 'M', 'P', 'D', 'I', 'R', '}',
              '/', 't', 'k', '1', '/', 'o', 'f', 'i', 'l', 'e']],
            ['$', '{', 'B', 'A', 'T', 'C', 'H', '_', 'T', 'M', 'P', 'D', 'I', 'R', '}', '/', 't', 'k', '1', '/', 'o', 'f', 'i', 'l', 'e', '.', 't', 'x', 't']) := by
    decide
  unfold probeExt at hp
  cases hr : run witnessExt with
  | error e => rw [hr] at hp; cases hp
  | ok st =>
    rw [hr] at hp
    simp only [Option.some.injEq, Prod.mk.injEq] at hp
    obtain ⟨hn, hm, hc, hrep⟩ := hp
    obtain ⟨cmd, hmem, hocc⟩ := h witnessExt st hr 0 (by omega) (.file 0) (by rw [hm]; simp)
    rw [hc] at hmem
    simp only [List.mem_singleton] at hmem
    rw [hmem, hrep] at hocc
    revert hocc
    decide

/-- **command_paths_current, partial**: as long as the resource table and the job directories stay as they were when the command
was interpolated (`SameRes` — in particular no later `add_extension`), the substituted text is still the current one. -/
theorem command_paths_current_partial (st st' later : St) (c : Nat) (k : UKind) (ds s : Str)
    (h : handleRef st c k ds = .ok (st', s)) (hlater : SameRes st' later) :
    ∃ r, lookupUid st k ds = some r ∧ s = replacement later r := by
  obtain ⟨_, r, hl, _, hs, hsame⟩ := handleRef_spec st st' c k ds s h
  exact ⟨r, hl, by rw [hs]; simp [replacement, (hsame.trans hlater).path]⟩

/-! ## Producer / consumer -/

/-- what a job that consumes file `n` downloads, and what a job that produces it uploads, as submitted -/
theorem plan_upload_eq_download (st : St) (remote loc : Str) (n j : Nat) (v : Str) (g : Option Nat) (e : Bool)
    (hf : st.file? n = some (.jobFile j v g e)) :
    copyInput st remote loc n = [(st.path remote (.file n), st.path loc (.file n))] ∧
      copyInternalOutput st remote loc n = [(st.path loc (.file n), st.path remote (.file n))] := by
  simp [copyInput, copyInternalOutput, hf]

/-- **input files**: whatever the kind of input (URL or local file), a job downloads an input resource to that resource's *own*
local path — the path its commands were given — and a local input is downloaded from exactly where it was uploaded for that job.
Two resources read from the same local path are still two downloads to two places. -/
theorem input_download_destination (st : St) (remote loc : Str) (n : Nat) (v ip : Str) (g : Option Nat)
    (hf : st.file? n = some (.input v ip g)) :
    ∃ src, copyInput st remote loc n = [(src, st.path loc (.file n))] ∧
      (isLocalInput ip = true → src = uploadDest st remote n) ∧ (isLocalInput ip = false → src = ip) := by
  by_cases hl : isLocalInput ip = true
  · exact ⟨uploadDest st remote n, by simp [copyInput, hf, hl], ⟨fun _ => rfl, fun h => by rw [hl] at h; cases h⟩⟩
  · have hl' : isLocalInput ip = false := by simpa using hl
    exact ⟨ip, by simp [copyInput, hf, hl'], ⟨(fun h => by rw [hl'] at h; cases h), fun _ => rfl⟩⟩

/-- every local input among a job's inputs is in the list handed to `copy_from_dict`, with the upload location the job downloads from -/
theorem local_input_is_uploaded (st : St) (remote : Str) (c n : Nat) (v ip : Str) (g : Option Nat) (hc : c < st.nJobs)
    (hin : n ∈ (st.job c).inputs) (hf : st.file? n = some (.input v ip g)) (hl : isLocalInput ip = true) :
    (ip, uploadDest st remote n) ∈ localUploads st remote := by
  simp only [localUploads, List.mem_flatten, List.mem_map, List.mem_range]
  refine ⟨_, ⟨c, hc, rfl⟩, ?_⟩
  rw [List.mem_filterMap]
  exact ⟨n, hin, by simp [hf, hl]⟩

/-- **upload_eq_download, partial** — at the moment job `c` mentions a resource `r` produced by another job `p`: every file `n`
that travels with `r` (`r` itself and the files of its resource group) is, in the submitted plan, downloaded by `c` from exactly
the location `p` uploads it to.  Missing for the full statement: persistence of the two set memberships over *later statements*
(within the command: `links_persist_within_command`). -/
theorem upload_eq_download_partial (st st2 : St) (c p : Nat) (r : Rid) (remote loc : Str)
    (h : applyRef st c r = .ok st2) (hs : st.source r = some p) (hpc : p ≠ c)
    (n j : Nat) (v : Str) (g : Option Nat) (e : Bool) (hn : n ∈ st.expandFiles r) (hf : st2.file? n = some (.jobFile j v g e)) :
    ∃ x, (x, st2.path loc (.file n)) ∈ (jobPlan st2 remote loc c).inputs ∧ (st2.path loc (.file n), x) ∈ (jobPlan st2 remote loc p).outputs := by
  obtain ⟨_, hlinks⟩ := applyRef_links st st2 c r h
  obtain ⟨_, _, hfiles⟩ := hlinks p hs hpc
  obtain ⟨hin, hout⟩ := hfiles n hn
  obtain ⟨hci, hco⟩ := plan_upload_eq_download st2 remote loc n j v g e hf
  refine ⟨st2.path remote (.file n), ?_, ?_⟩
  · simp only [jobPlan, List.mem_flatten, List.mem_map]
    exact ⟨_, ⟨n, hin, rfl⟩, by rw [hci]; simp⟩
  · simp only [jobPlan, List.mem_append, List.mem_flatten, List.mem_map]
    exact Or.inl ⟨_, ⟨n, hout, rfl⟩, by rw [hco]; simp⟩

/-- **consumer_child_of_producer, partial** — at the moment job `c` mentions a resource produced by another job `p`, `p` is among
the parents `c` is submitted with (and the resource was declared by `p`). -/
theorem consumer_child_of_producer_partial (st st2 : St) (c p : Nat) (r : Rid) (remote loc : Str)
    (h : applyRef st c r = .ok st2) (hs : st.source r = some p) (hpc : p ≠ c) :
    p ∈ (jobPlan st2 remote loc c).parents ∧ r ∈ (st.job p).valid := by
  obtain ⟨_, hlinks⟩ := applyRef_links st st2 c r h
  obtain ⟨hv, hd, _⟩ := hlinks p hs hpc
  exact ⟨hd, hv⟩

/-- **PythonJob.call, partial** — the same for every resource argument of `j.call(f, a₁, …, aₙ)`: when the call returns, each
argument `r` produced by another job `p` has `p` among the parents, and every file that travels with `r` — `r` itself **and all
members of its resource group, also when only one member was passed** — is both among the consumer's inputs and among the
producer's internal outputs (so `upload_eq_download_partial`'s pairs are in the submitted plan). -/
theorem pycall_links_partial (st st' : St) (c : Nat) (rs : List Rid) (h : applyRefs st c rs = .ok st')
    (r : Rid) (hr : r ∈ rs) (p : Nat) (hs : st.source r = some p) (hpc : p ≠ c) :
    p ∈ (st'.job c).deps ∧ ∀ n ∈ st.expandFiles r, n ∈ (st'.job c).inputs ∧ n ∈ (st'.job p).internalOut :=
  (applyRefs_spec c rs st st' h).2.2 r hr p hs hpc

/-- a single member of a resource group travels with its whole group: both the consumer's inputs and the producer's internal
outputs receive every member -/
theorem member_travels_with_group (st : St) (n g : Nat) (f : FileRes) (gr : GroupRes) (hf : st.file? n = some f)
    (hg : f.group = some g) (hgr : st.group? g = some gr) :
    st.expandFiles (.file n) = n :: gr.members.map (·.2) := by
  simp [St.expandFiles, hf, hg, hgr]

/-! ### what a PythonJob's function is handed -/

/-- a file argument is handed as the resource's own local path -/
theorem python_file_argument_path (st : St) (loc : Str) (n : Nat) : prepare1 st loc (.file n) = .path (st.path loc (.file n)) := rfl

/-- a resource-group argument is handed as a dict over the group's identifiers whose values are the members' **own** local paths
(not `<group root>.<identifier>`: the two differ as soon as a file suffix is not the identifier) -/
theorem python_group_argument_paths (st : St) (loc : Str) (g : Nat) (gr : GroupRes) (hg : st.group? g = some gr) :
    prepare1 st loc (.group g) = .dictPath (gr.members.map fun m => (m.1, st.path loc (.file m.2))) := by
  simp [prepare1, hg]

/-- every file among a job's inputs is downloaded to exactly the path `prepare1` hands out for it -/
theorem handed_path_is_download_destination (st : St) (remote loc : Str) (c n : Nat) (f : FileRes) (hf : st.file? n = some f)
    (hin : n ∈ (st.job c).inputs) : ∃ x, (x, st.path loc (.file n)) ∈ (jobPlan st remote loc c).inputs := by
  cases f with
  | input v ip g =>
    refine ⟨if isLocalInput ip then uploadDest st remote n else ip, ?_⟩
    simp only [jobPlan, List.mem_flatten, List.mem_map]
    exact ⟨_, ⟨n, hin, rfl⟩, by simp only [copyInput, hf]; split <;> simp⟩
  | jobFile j v g e =>
    refine ⟨st.path remote (.file n), ?_⟩
    simp only [jobPlan, List.mem_flatten, List.mem_map]
    exact ⟨_, ⟨n, hin, rfl⟩, by simp [copyInput, hf]⟩

/-- **python-call arguments are local paths** — a whole group passed to `j.call`: every path in the dict the function receives is
a destination of the job's own `input_files` (the members are among the job's inputs by `pycall_links_partial`) -/
theorem python_group_argument_is_downloaded (st : St) (remote loc : Str) (c g : Nat) (gr : GroupRes) (hg : st.group? g = some gr)
    (hin : ∀ m ∈ gr.members, m.2 ∈ (st.job c).inputs) (hex : ∀ m ∈ gr.members, ∃ f, st.file? m.2 = some f) :
    ∃ kvs, prepare1 st loc (.group g) = .dictPath kvs ∧ kvs.map (·.1) = gr.members.map (·.1) ∧
      ∀ kv ∈ kvs, ∃ x, (x, kv.2) ∈ (jobPlan st remote loc c).inputs := by
  refine ⟨_, python_group_argument_paths st loc g gr hg, by simp [Function.comp_def], ?_⟩
  intro kv hkv
  obtain ⟨m, hm, rfl⟩ := List.mem_map.mp hkv
  obtain ⟨f, hf⟩ := hex m hm
  exact handed_path_is_download_destination st remote loc c m.2 f hf (hin m hm)

/-- **every job links its own input groups**: the `ln -sf <member> <root>.<identifier>` pairs of a job are computed from THAT
job's `_mentioned` set alone — a whole input resource group a job mentioned gets all its links in that job's command prefix, however
many other jobs of the run mention the same group -/
theorem input_group_links_per_job (st : St) (remote loc : Str) (j g : Nat) (gr : GroupRes) (hg : st.group? g = some gr)
    (hin : gr.job = none) (hm : Rid.group g ∈ (st.job j).mentioned) (m : Str × Nat) (hmem : m ∈ gr.members) :
    (st.path loc (.file m.2), st.path loc (.group g) ++ ['.'] ++ m.1) ∈ (jobPlan st remote loc j).symlinks := by
  simp only [jobPlan, List.mem_flatten, List.mem_map]
  refine ⟨_, ⟨Rid.group g, hm, rfl⟩, ?_⟩
  simp only [symlinksOf, hg, hin, if_true, List.mem_map]
  exact ⟨m, hmem, rfl⟩

/-- the links are never removed while the rest of the command is interpolated -/
theorem links_persist_within_command (st st' : St) (c : Nat) (ts : List Tok) (acc out : Str)
    (h : interpolateToks st c ts acc = .ok (st', out)) (j : Nat) :
    (∀ n ∈ (st.job j).inputs, n ∈ (st'.job j).inputs) ∧ (∀ n ∈ (st.job j).internalOut, n ∈ (st'.job j).internalOut) ∧
      (∀ p ∈ (st.job j).deps, p ∈ (st'.job j).deps) :=
  interpolateToks_grows ts st st' c acc out h j

/-! ## Non-vacuity -/

-- a separated command: `cat <r0> > <r1>.bam`
example : Separated [.text ['c', 'a', 't', ' '], .ref .rf 0, .text [' ', '>', ' '], .ref .rf 1, .text ['.', 'b', 'a', 'm']] := by
  simp [Separated, TextOk]
-- equal names longer than the limit: the name is cut, the tokens survive
example : jobDirname (some (List.replicate 300 'n')) ['t', 'k', '1'] ≠ jobDirname (some (List.replicate 300 'n')) ['t', 'k', '2'] :=
  job_dirs_distinct _ _ _ _ (by decide) (by decide) (by decide)
example : jobDirname (some ['m', 'y', ' ', 'j', '/', 'b']) ['t', 'k', '7'] = ['m', 'y', '_', 'j', '_', 'b', '-', 't', 'k', '7'] := by decide
-- identifiers that are not the file suffixes: the function gets out.vcf.gz / out.vcf.gz.tbi
example : (match run [.job none,
      .rgroup 0 ['o'] [(['v'], ['{', 'r', 'o', 'o', 't', '}', '.', 'g', 'z']), (['i'], ['{', 'r', 'o', 'o', 't', '}', '.', 't', 'b', 'i'])],
      .cmd 0 [.text ['x', ' '], .ref (.jobAttr 0 ['o'])], .pyjob none, .pycall 1 [.res (.jobAttr 0 ['o'])]] with
    | .ok st => some (preparedCalls st ['L'] 1)
    | .error _ => none) =
    some [[.one (.dictPath [(['v'], ['L', '/', 't', 'k', '1', '/', 'o', '.', 'g', 'z']), (['i'], ['L', '/', 't', 'k', '1', '/', 'o', '.', 't', 'b', 'i'])])]] := by
  decide
-- the converted files of the first call
example : convValue 0 .str = ['r', 'e', 's', 'u', 'l', 't', '1', '-', 's', 't', 'r', '.', 't', 'x', 't'] := by decide
example : convValue 0 .repr = ['r', 'e', 's', 'u', 'l', 't', '1', '-', 'r', 'e', 'p', 'r', '.', 't', 'x', 't'] := by decide
example : convValue 0 .json = ['r', 'e', 's', 'u', 'l', 't', '1', '-', 'j', 's', 'o', 'n', '.', 'j', 's', 'o', 'n'] := by decide
-- local vs cloud inputs
example : isLocalInput ['/', 'd', '/', 'r', '.', 'f', 'a'] = true := by decide
example : isLocalInput ['f', 'i', 'l', 'e', ':', '/', '/', '/', 'd'] = true := by decide
example : isLocalInput ['g', 's', ':', '/', '/', 'b', '/', 'o'] = false := by decide
-- identifiers that a "clean-up" of the file name would merge stay apart
example : (match run [.job none, .cmd 0 [.text ['x', ' '], .ref (.jobAttr 0 ['c', ':', '1']), .text [' '], .ref (.jobAttr 0 ['c', '_', '1'])]] with
    | .ok st => some (st.path [] (.file 0), st.path [] (.file 1))
    | .error _ => none) = some (['/', 't', 'k', '1', '/', 'c', ':', '1'], ['/', 't', 'k', '1', '/', 'c', '_', '1']) := by decide
-- uids
example : uid .rf 12 = ['_', '_', 'R', 'E', 'S', 'O', 'U', 'R', 'C', 'E', '_', 'F', 'I', 'L', 'E', '_', '_', '1', '2'] := by decide
-- shlex.quote
example : shq ['a', ' ', 'b'] = ['\'', 'a', ' ', 'b', '\''] := by decide
example : shq ['/', 'x', '-', '1', '/', 'o', '.', 't', 'x', 't'] = ['/', 'x', '-', '1', '/', 'o', '.', 't', 'x', 't'] := by decide

end HailVerif.C18

import HailVerif.Generated.ProcGuards
import HailVerif.Model.BatchDB
import HailVerif.Proofs.Sql3
/-!
# E1 translator tie — the guards of the BatchDB model ARE the guards of the stored procedures

`Generated/ProcGuards.lean` is re-translated from the SQL text of the procedures on every check run (one definition per
`IF`/`ELSEIF` condition, NULL-aware).  Each theorem below says that the condition the model tests at that point of the
procedure (see the op of the same name in `Model/BatchDB.lean`) is true exactly when the SQL condition evaluates to TRUE,
for every value of the variables, including NULLs (`none`).  An edited guard in a migration changes the generated
definition and breaks the corresponding theorem.  Included in the obligations of every E1 property (C01, C02, C04–C10, C39, C41).
-/
namespace HailVerif.E1Tie
open HailVerif HailVerif.BatchDB HailVerif.Generated.ProcGuards

def istStr : IState → String
  | .pending => "pending" | .active => "active" | .inactive => "inactive" | .deleted => "deleted"

/-- how the model's values appear as procedure variables -/
def jv (st : JState) : Option String := some (stateStr st)
def iv (i : Option IState) : Option String := i.map istStr
def bv (b : Bool) : Option Int := some (b2i b)

/-- `schedule_job`: job Ready or Creating, not cancelled, instance active -/
theorem schedule_guard (st : JState) (cancel : Bool) (i : Option IState) :
    schedule_job_if2 (jv st) (bv cancel) (iv i) = some true ↔
      ((st = .Ready ∨ st = .Creating) ∧ cancel = false ∧ i = some .active) := by
  cases st <;> cases cancel <;> rcases i with _ | i <;> try cases i
  all_goals simp [schedule_job_if2, jv, bv, iv, istStr, stateStr, b2i, Sql3.truthy, Sql3.eqS]

/-- `mark_job_creating`: job Ready, not cancelled, instance pending -/
theorem creating_guard (st : JState) (cancel : Bool) (i : Option IState) :
    mark_job_creating_if1 (jv st) (bv cancel) (iv i) = some true ↔
      (st = .Ready ∧ cancel = false ∧ i = some .pending) := by
  cases st <;> cases cancel <;> rcases i with _ | i <;> try cases i
  all_goals simp [mark_job_creating_if1, jv, bv, iv, istStr, stateStr, b2i, Sql3.truthy, Sql3.eqS]

/-- `mark_job_started`: job Ready, not cancelled, instance active -/
theorem started_guard (st : JState) (cancel : Bool) (i : Option IState) :
    mark_job_started_if1 (jv st) (bv cancel) (iv i) = some true ↔
      (st = .Ready ∧ cancel = false ∧ i = some .active) := by
  cases st <;> cases cancel <;> rcases i with _ | i <;> try cases i
  all_goals simp [mark_job_started_if1, jv, bv, iv, istStr, stateStr, b2i, Sql3.truthy, Sql3.eqS]

/-- `mark_job_complete` / `unschedule_job`: cores are released iff the instance is active and the attempt had no end time -/
theorem release_guard (i : Option IState) (curEnd : Option Int) :
    (mark_job_complete_if1 (iv i) curEnd = some true ↔ (i = some .active ∧ curEnd = none)) ∧
    (unschedule_job_if1 (iv i) curEnd = some true ↔ (i = some .active ∧ curEnd = none)) := by
  rcases i with _ | i <;> try cases i
  all_goals cases curEnd <;> simp [mark_job_complete_if1, unschedule_job_if1, iv, istStr, Sql3.eqS]

/-- `mark_job_complete`: rc 2 iff both attempt ids are non-NULL and differ (a NULL `in_attempt_id` falls through) -/
theorem stale_attempt_guard (expected inAtt : Option String) :
    mark_job_complete_if2 expected inAtt = some true ↔ (expected.isSome ∧ inAtt.isSome ∧ expected ≠ inAtt) := by
  cases expected <;> cases inAtt <;> simp [mark_job_complete_if2, Sql3.neS]

/-- `mark_job_complete`: the job row is completed iff it is Ready, Creating or Running; a terminal job answers rc 0 unchanged -/
theorem complete_state_guards (st : JState) :
    (mark_job_complete_if3 (jv st) = some true ↔ (st = .Ready ∨ st = .Creating ∨ st = .Running)) ∧
    (mark_job_complete_if5 (jv st) = some true ↔ st.terminal = true) := by
  cases st <;> simp [mark_job_complete_if3, mark_job_complete_if5, jv, stateStr, JState.terminal, Sql3.eqS]

/-- batch / group completion tests: `n_completed = n_jobs` -/
theorem completion_guards (a b : Int) :
    (mark_job_complete_if4 (some a) (some b) = some true ↔ a = b) ∧
    (mark_job_group_complete_if2 (some a) (some b) = some true ↔ a = b) := by
  simp [mark_job_complete_if4, mark_job_group_complete_if2]

/-- `unschedule_job`: the job goes back to Ready iff it is Creating or Running on exactly this attempt -/
theorem unschedule_guard (st : JState) (cur : Option String) (a : String) :
    unschedule_job_if2 (jv st) cur (some a) = some true ↔ ((st = .Creating ∨ st = .Running) ∧ cur = some a) := by
  cases st <;> cases cur <;> simp [unschedule_job_if2, jv, stateStr, Sql3.eqS]

/-- `deactivate_instance` and `add_attempt`: "live" means pending or active -/
theorem live_instance_guards (i : Option IState) :
    (deactivate_instance_if1 (iv i) = some true ↔ (i = some .pending ∨ i = some .active)) ∧
    (add_attempt_if3 (iv i) = some true ↔ (i = some .pending ∨ i = some .active)) := by
  rcases i with _ | i <;> try cases i
  all_goals simp [deactivate_instance_if1, add_attempt_if3, iv, istStr, Sql3.eqS]

/-- `add_attempt` does nothing for a NULL attempt id -/
theorem add_attempt_guard (a : Option String) : add_attempt_if1 a = some true ↔ a.isSome := by
  cases a <;> simp [add_attempt_if1]

/-- `activate_instance` / `mark_instance_deleted` -/
theorem instance_state_guards (i : Option IState) :
    (activate_instance_if1 (iv i) = some true ↔ i = some .pending) ∧
    (mark_instance_deleted_if1 (iv i) = some true ↔ i = some .inactive) := by
  rcases i with _ | i <;> try cases i
  all_goals simp [activate_instance_if1, mark_instance_deleted_if1, iv, istStr, Sql3.eqS]

/-- `commit_batch_update`: already committed; staged = expected; expected > 0; not the first update -/
theorem commit_guards (committed : Bool) (staged expected : Int) (n u : Nat) :
    (commit_batch_update_if1 (bv committed) = some true ↔ committed = true) ∧
    (commit_batch_update_if2 (some staged) (some expected) = some true ↔ staged = expected) ∧
    (commit_batch_update_if3 (some (n : Int)) = some true ↔ n ≠ 0) ∧
    (commit_batch_update_if4 (some (u : Int)) = some true ↔ u ≠ 1) := by
  refine ⟨?_, ?_, ?_, ?_⟩
  · cases committed <;> simp [commit_batch_update_if1, bv, b2i, Sql3.truthy]
  · simp [commit_batch_update_if2]
  · simp [commit_batch_update_if3, Sql3.gtI, Sql3.cmpI]; omega
  · simp [commit_batch_update_if4, Sql3.neI, Sql3.cmpI]; omega

/-- `cancel_job_group` acts iff the group is not cancelled yet -/
theorem cancel_guard (c : Bool) : cancel_job_group_if1 (bv c) = some true ↔ c = false := by
  cases c <;> simp [cancel_job_group_if1, bv, b2i, Sql3.truthy]

end HailVerif.E1Tie

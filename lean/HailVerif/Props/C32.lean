import HailVerif.Proofs.ValueJson
/-!
# C32 — Value JSON conversion round-trips

Subject: `HailVerif.ValueJson.toJson / fromJson` (`Model/ValueJson.lean`), the model of `HailType._convert_to_json[_na]` /
`_convert_from_json[_na]` of every type class of `hail/python/hail/expr/types.py`; `roundTrip t v` is
`t._from_json(t._to_json(v))`.  Values: `Model/Value.lean` (`None` at every level, floats as `nan | +inf | -inf | bits`).
Tied to the Python code by the correspondence check `harness/props/c32.py`.

`cOrder v` is `v` with the memory-order flag of every numpy array reset to C order — the content is untouched; it is what
"equal value" means for n-d arrays (`numpy.array_equal`), and `cOrder v = v` for every value without an F-ordered array.
-/
namespace HailVerif.C32
open HailVerif.TypeStr HailVerif.Values HailVerif.ValueJson

/-- **FULL STATEMENT** of the property: every well-typed value of every type comes back equal.  It does NOT hold for the
unchanged code (`json_round_trips_refuted`); `fromJson_toJson_partial` is what does hold. -/
def JsonRoundTrips : Prop := ∀ t v, WF t → HasType t v → roundTrip t v = some (cOrder v)

/-- **What holds**: the round trip is the identity for every type and every well-typed value — missing values at every level
(dict keys and values included, since /repo commit 1824f18d5), `nan`/`±inf`, calls, loci, intervals, sets, dicts, tuples, nested
structs (a field may be named `self`, since /repo commit c88553592), numeric n-d arrays in either memory order — provided
(`JsonOK`) every n-d array has a numeric element type.  Missing for the full statement: exactly that class. -/
theorem fromJson_toJson_partial (t : HType) (v : Value) (hwf : WF t) (ht : HasType t v) (hok : JsonOK t v) :
    roundTrip t v = some (cOrder v) := by
  obtain ⟨j, h1, h2⟩ := na_of_conv t (conv t hwf) v ht hok
  simp [roundTrip, h1, h2]

/-- the conversion of a value that is not `None` never produces `null`, so `None` and values stay distinguishable at every
level (this is what makes `_convert_from_json_na` a correct inverse of `_convert_to_json_na`) -/
theorem toJson_ne_null (t : HType) (v : Value) (hwf : WF t) (hna : v ≠ .na) (ht : HasType t v) (hok : JsonOK t v) :
    ∃ j, toJson t v = some j ∧ j ≠ .null := by
  obtain ⟨j, h1, h2, _⟩ := conv t hwf v hna ht hok
  exact ⟨j, h1, h2⟩

/-! ## dicts with missing keys / values: repaired by /repo commit 1824f18d5 (`tdict._convert_to_json` now uses the `_na` variants) -/

/-- `{'': None} : dict<str, float64>` round-trips (it used to raise `TypeError`) -/
theorem dict_missing_value_roundtrips :
    roundTrip (.dict .str .float64) (.dict [(.str [], .na)]) = some (.dict [(.str [], .na)]) := by rfl

/-- `{None: 1} : dict<struct{}, int32>` round-trips (the missing key used to come back as `Struct()`) -/
theorem dict_missing_key_roundtrips :
    roundTrip (.dict (.struct []) .int32) (.dict [(.na, .int 1)]) = some (.dict [(.na, .int 1)]) := by rfl

/-- the OLD entry conversion (`_convert_to_json` without the `None` check), kept to document the repaired defect:
a missing float64 value raised … -/
theorem old_dict_missing_value_raised :
    dictEntryToJsonOld (toJson .str) (toJson .float64) (.str [], .na) = none := by rfl

/-- … and a missing key of type `struct{}` was silently written as `{}`, which reads back as `Struct()`, not `None` -/
theorem old_dict_missing_key_changed :
    dictEntryToJsonOld (toJson (.struct [])) (toJson .int32) (.na, .int 1) =
      some (.obj [(cp% "key", .obj []), (cp% "value", .num 1)]) ∧
    fromJsonNa (.struct []) (.obj []) = some (.struct []) := ⟨rfl, rfl⟩

/-- old and new entry conversions agree whenever neither the key nor the value is missing -/
theorem old_entry_eq_new (convK convV : Value → Option Json) (a b : Value) (ha : a ≠ .na) (hb : b ≠ .na) :
    dictEntryToJsonOld convK convV (a, b) = dictEntryToJson convK convV (a, b) := by
  cases a <;> cases b <;> first | exact absurd rfl ha | exact absurd rfl hb | rfl

/-! ## the class the full statement still fails on (witness replayed on the real methods by `harness/props/c32.py`) -/

/-- a 0-dimensional `ndarray<str>` — written as `{"shape": [], "data": [""]}` and refused by `_convert_from_json` -/
theorem ndarray_non_numeric_raises :
    toJsonNa (.ndarray .str 0) (.nd [] [.str []] false) =
      some (.obj [(cp% "shape", .arr []), (cp% "data", .arr [.str []])]) ∧
    roundTrip (.ndarray .str 0) (.nd [] [.str []] false) = none := ⟨rfl, rfl⟩

/-- a struct with a field named `self` round-trips (repaired by /repo commit c88553592: `Struct.__init__(self, /, **kwargs)`) … -/
theorem struct_field_self_roundtrips :
    toJsonNa (.struct [(cp% "self", .int32)]) (.struct [.int 1]) = some (.obj [(cp% "self", .num 1)]) ∧
    roundTrip (.struct [(cp% "self", .int32)]) (.struct [.int 1]) = some (.struct [.int 1]) := ⟨rfl, rfl⟩

/-- … where the OLD struct clause raised: `Struct(**{'self': 1})` collided with the `self` parameter of `Struct.__init__` -/
theorem old_struct_field_self_raised :
    fromJsonStructOld [(cp% "self", .int32)] [(cp% "self", .num 1)] = none := rfl

theorem json_round_trips_refuted : ¬ JsonRoundTrips := by
  intro h
  have := h (.ndarray .str 0) (.nd [] [.str []] false) (by simp [WF])
    (by simp [HasType, ScalarStr])
  rw [ndarray_non_numeric_raises.2] at this
  cases this

/-! ## Non-vacuity -/

/-- a value exercising every class: NaN, ±inf, -0.0, a missing array element, every call shape as dict keys, a missing set
element, a missing dict value of set type and a missing call key, an interval with a missing end point, an F-ordered float32
matrix, missing primitive dict key and value -/
def sampleType : HType :=
  .struct [(cp% "a", .array .float64), (cp% "x y", .dict .call (.set (.locus (cp% "GRCh37")))),
    ([], .tuple [.interval .int32, .ndarray .float32 2, .int64]), (cp% "d", .dict .int32 .str)]

def sampleValue : Value :=
  .struct [.arr [.flt .nan, .flt .inf, .flt .ninf, .flt (.fin 9223372036854775808), .na, .flt (.fin 1)],
    .dict [(.call [] true, .set [.locus (cp% "X") 1, .na]), (.call [1, 2] false, .na), (.na, .set [])],
    .tup [.interval .na (.int 2147483647) true true,
      .nd [2, 3] [.flt (.fin 0), .flt (.fin 1065353216), .flt .nan, .flt .inf, .flt (.fin 3212836864), .flt (.fin 1073741824)] true,
      .int (-9223372036854775808)],
    .dict [(.na, .na), (.int 0, .str [])]]

example : WF sampleType := by simp [sampleType, WF, WFFields, WFTypes, ValidStr]
example : HasType sampleType sampleValue := by
  simp [sampleType, sampleValue, HasType, HasTypeFields, HasTypeTuple, Flt.Valid64, Flt.Valid32, ScalarStr]
example : JsonOK sampleType sampleValue := by
  simp [sampleType, sampleValue, JsonOK, JsonOKFields, JsonOKTuple, isNumeric]
-- what the theorem says about it, computed: equal up to the memory order of the matrix
example : roundTrip sampleType sampleValue = some (cOrder sampleValue) := by rfl
-- the wire form of a float, a missing value and a phased call
example : toJsonNa (.array .float64) (.arr [.flt .ninf, .na, .flt (.fin 1)]) =
    some (.arr [.str (cp% "-inf"), .null, .flt (.fin 1)]) := by rfl
example : toJsonNa .call (.call [2, 1] true) = some (.str (cp% "2|1")) := by rfl

end HailVerif.C32

#!/bin/bash
# run_all.sh [quick|thorough] : every claimed check of MANIFEST.json in sequence; prints one summary line per property
TIER="${1:-quick}"
cd "$(dirname "${BASH_SOURCE[0]}")"
for P in $(python3 -c "import json;print(' '.join(c['property_id'] for c in json.load(open('MANIFEST.json'))['checks']))"); do
  s=$(date +%s)
  out=$(./check "$P" --tier "$TIER" 2>&1); rc=$?
  e=$(date +%s)
  echo "$P rc=$rc $((e-s))s $(echo "$out" | grep -c KNOWN-FINDING) known | $(echo "$out" | grep 'OK property\|VIOLATION\|MACHINERY' | tail -1 | cut -c1-140)"
done

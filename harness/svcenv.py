"""Environment the service modules (auth.auth, batch.front_end, ci.github) read at import time: env vars and the global-config
secret (normally a mounted directory).  Used by C14 / C29 / C30.  Nothing here belongs to the code under test."""
import os


def prepare(cloud='gcp'):
    for k, v in {
        'HAIL_SHA': 'verif', 'HAIL_DEFAULT_NAMESPACE': 'default', 'CLOUD': cloud, 'HAIL_SCOPE': 'deploy',
        'HAIL_DOMAIN': 'hail.test', 'HAIL_LOCATION': 'external',
    }.items():
        os.environ.setdefault(k, v)
    import gear.cloud_config as cc
    if cc.global_config is None:
        cc.global_config = {
            'cloud': cloud, 'gcp_project': 'verif-project', 'gcp_region': 'us-central1', 'gcp_zone': 'us-central1-a',
            'batch_gcp_regions': '["us-central1"]', 'domain': 'hail.test', 'default_namespace': 'default',
            'docker_prefix': 'docker.test', 'docker_root_image': 'docker.test/ubuntu', 'internal_ip': '10.0.0.1',
            'ip': '10.0.0.2', 'kubernetes_server_url': 'https://k8s.test', 'organization_domain': 'hail.test',
            'batch_logs_bucket': 'b', 'hail_query_gcs_path': 'gs://q', 'hail_test_gcs_bucket': 't',
        }
    return cc.global_config

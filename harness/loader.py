"""Import real repo modules (unmodified source) in a sandbox that lacks most third-party deps.

* functional shims live in harness/shims (orjson -> json, decorator, deprecated, ...)
* inert auto-stubs for third-party packages that are only touched at call sites the checks do not exercise
* build products hailtop/version.py and hail/version.py are injected

Usage:  from harness import loader; loader.install(repo_root)
"""
import importlib.abc
import importlib.machinery
import os
import sys
import types

HERE = os.path.dirname(os.path.abspath(__file__))
VERIF = os.path.dirname(HERE)

# top-level third-party names that are auto-stubbed when absent.  IPython is deliberately NOT here:
# repo code expects ImportError for it.
STUB_TOPLEVEL = {
    'botocore', 'boto3', 'google', 'google_auth_oauthlib', 'google_auth_httplib2', 'googleapiclient', 'azure', 'msal', 'msrest', 'humanize', 'dateutil', 'jwt', 'requests', 'urllib3',
    'py4j', 'pyspark', 'pandas', 'bokeh', 'plotly', 'scipy', 'tabulate', 'rich', 'typer', 'nest_asyncio',
    'janus', 'frozenlist_', 'uvloop', 'prometheus_client', 'prometheus_async', 'kubernetes_asyncio', 'aiomysql_',
    'aiohttp_session', 'aiohttp_jinja2', 'jinja2', 'sass', 'libsass', 'aiodocker', 'aiorwlock', 'psutil', 'cryptography',
    'gidgethub', 'zulip', 'uvloop', 'pyfiglet', 'dill', 'jproperties', 'aiodns', 'avro', 'regex', 'Deprecated', 'protobuf',
    'plotnine', 'matplotlib', 'tqdm', 'docker', 'kubernetes', 'pymysql_', 'secrets_', 'async_timeout', 'python_json_logger', 'pythonjsonlogger',
    'numpy_', 'packaging_', 'toml', 'tomli', 'Crypto', 'oauthlib', 'cachetools', 'httplib2', 'uritemplate', 'certifi',
    'aiofiles', 'setproctitle', 'collectors', 'pyinstrument', 'importlib_metadata_', 'wrapt', 'benchmark_', 'dictdiffer', 'googlecloudprofiler',
}


class _StubMeta(type):
    def __getattr__(cls, name):
        if name.startswith('__') and name.endswith('__'):
            raise AttributeError(name)
        return _make_stub(f'{cls.__name__}.{name}')

    def __instancecheck__(cls, inst):
        return type.__instancecheck__(cls, inst)

    def __call__(cls, *a, **k):
        # used as decorator: @stub or @stub(...)
        if len(a) == 1 and not k and (isinstance(a[0], types.FunctionType)):
            return a[0]
        return type.__call__(cls)

    def __getitem__(cls, item):
        return cls

    def __or__(cls, other):
        return cls

    def __ror__(cls, other):
        return cls


def _make_stub(name):
    return _StubMeta(name, (_StubBase,), {})


class _StubBase(Exception, metaclass=_StubMeta):
    """Instances are inert: any attribute is another stub, calling returns a stub instance / passes a function through."""

    def __init__(self, *a, **k):
        pass

    def __getattr__(self, name):
        if name.startswith('__') and name.endswith('__'):
            raise AttributeError(name)
        return _make_stub(name)()

    def __call__(self, *a, **k):
        if len(a) == 1 and not k and isinstance(a[0], (types.FunctionType, type)):
            return a[0]
        return self

    def __iter__(self):
        return iter(())

    def __enter__(self):
        return self

    def __exit__(self, *a):
        return False

    async def __aenter__(self):
        return self

    async def __aexit__(self, *a):
        return False


class _StubModule(types.ModuleType):
    __path__ = []  # behave as a package so submodules import

    def __getattr__(self, name):
        if name.startswith('__') and name.endswith('__'):
            raise AttributeError(name)
        v = _make_stub(name)
        setattr(self, name, v)
        return v


class _StubFinder(importlib.abc.MetaPathFinder, importlib.abc.Loader):
    def __init__(self, names):
        self.names = set(names)
        self.loaded = []

    def find_spec(self, fullname, path, target=None):
        top = fullname.split('.')[0]
        if top in self.names:
            return importlib.machinery.ModuleSpec(fullname, self, is_package=True)
        return None

    def create_module(self, spec):
        m = _StubModule(spec.name)
        m.__spec__ = spec
        m.__loader__ = self
        m.__file__ = '<verif-stub>'
        self.loaded.append(spec.name)
        return m

    def exec_module(self, module):
        pass


_installed = {}


def repo_root():
    return os.environ.get('HAIL_VERIF_REPO', '/repo')


def install(root=None, extra_paths=(), extra_stubs=()):
    """Make repo python packages importable. Idempotent per process."""
    root = root or repo_root()
    if _installed.get('root') == root:
        return _installed['finder']
    paths = [
        os.path.join(root, 'hail', 'python'),
        os.path.join(root, 'gear'),
        os.path.join(root, 'web_common'),
        os.path.join(root, 'batch'),
        os.path.join(root, 'auth'),
        os.path.join(root, 'ci'),
    ] + list(extra_paths)
    for p in reversed(paths):
        if p not in sys.path:
            sys.path.insert(0, p)
    deps = os.path.join(VERIF, '.deps')
    if os.path.isdir(deps) and deps not in sys.path:
        sys.path.append(deps)
    shims = os.path.join(HERE, 'shims')
    if shims not in sys.path:
        sys.path.append(shims)  # after real site-packages: a real package always wins
    # build products
    for pkg in ('hailtop', 'hail'):
        name = f'{pkg}.version'
        if name not in sys.modules:
            m = types.ModuleType(name)
            m.__version__ = '0.2.0-verif'
            m.__pip_version__ = '0.2.0'
            m.__revision__ = 'verif'
            sys.modules[name] = m
    names = set(STUB_TOPLEVEL) | set(extra_stubs)
    # never stub something that is really importable or shimmed
    import importlib.util
    real = set()
    for n in list(names):
        try:
            if importlib.util.find_spec(n) is not None:
                real.add(n)
        except (ImportError, ValueError):
            pass
    finder = _StubFinder(names - real)
    sys.meta_path.append(finder)
    _installed['root'] = root
    _installed['finder'] = finder
    return finder


def source_of(relpath, root=None):
    with open(os.path.join(root or repo_root(), relpath), encoding='utf-8') as f:
        return f.read()

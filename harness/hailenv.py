"""Shared set-up of the Hail query front end (`import hail`) for the E4 properties (C31, C32, C33).

There is no JVM, so no real backend can start.  `init(repo)` imports the real package through harness.loader and installs
* a `StubBackend` subclassing the REAL `hail.backend.Backend` (its reference-genome registry `add_reference`/`get_reference`
  is the real code; every abstract method that would talk to the engine raises), and
* a REAL `hail.context.HailContext` around it (so `Env.hc()`/`hl.get_reference`/`hl.default_reference` run unchanged).
Reference genomes are real `hail.genetics.ReferenceGenome` objects built by the real constructor.
"""
import sys

from . import loader

_state = {}


def init(repo=None):
    repo = repo or loader.repo_root()
    if _state.get('repo') == repo:
        return _state['hl']
    loader.install(repo)
    import hail as hl
    from hail.backend.backend import Backend
    from hail.context import HailContext
    from hail.utils.java import Env

    class StubBackend(Backend):
        def __init__(self):
            super().__init__()
            self._flags = {}

        def validate_file(self, uri):
            raise NotImplementedError('verif StubBackend: no engine')

        def stop(self):
            super().stop()

        def _rpc(self, action, payload):
            raise NotImplementedError('verif StubBackend: no engine')

        def add_sequence(self, name, fasta_file, index_file):
            raise NotImplementedError

        def remove_sequence(self, name):
            raise NotImplementedError

        def add_liftover(self, name, chain_file, dest_reference_genome):
            raise NotImplementedError

        def remove_liftover(self, name, dest_reference_genome):
            raise NotImplementedError

        @property
        def logger(self):
            import logging
            return logging.getLogger('verif-hail')

        @property
        def fs(self):
            raise NotImplementedError

        def persist_expression(self, expr):
            raise NotImplementedError

        def set_flags(self, **flags):
            self._flags.update(flags)

        def get_flags(self, *flags):
            return {f: self._flags[f] for f in flags if f in self._flags}

        @property
        def requires_lowering(self):
            return True

        @property
        def local_tmpdir(self):
            return '/nonexistent'

        @local_tmpdir.setter
        def local_tmpdir(self, dir):
            pass

        @property
        def remote_tmpdir(self):
            return '/nonexistent'

        @remote_tmpdir.setter
        def remote_tmpdir(self, dir):
            pass

        @property
        def requester_pays_config(self):
            return None

        @requester_pays_config.setter
        def requester_pays_config(self, config):
            pass

    Env._hc = None
    backend = StubBackend()
    hc = HailContext(log='/dev/null', quiet=True, append=False, global_seed=0, backend=backend)
    default = hl.ReferenceGenome('GRCh37', ['1', '2', 'X', 'Y', 'MT'],
                                 {'1': 249250621, '2': 243199373, 'X': 155270560, 'Y': 59373566, 'MT': 16569},
                                 'X', 'Y', 'MT', [], _builtin=True)
    backend._references[default.name] = default
    hc._default_ref = default
    _state.update(repo=repo, hl=hl, backend=backend, hc=hc)
    return hl


def reference(name, contigs=('1', 'X'), lengths=None):
    """a real ReferenceGenome with the given name, registered in the stub backend (one object per name)"""
    hl = _state['hl']
    backend = _state['backend']
    if name in backend._references:
        return backend._references[name]
    lengths = lengths or {c: 1000 for c in contigs}
    return hl.ReferenceGenome(name, list(contigs), dict(lengths))

"""Base class of the E1 property checks (C01, C02, C04-C10, C39, C41): one case = one history of protocol ops; the REAL code runs
it in a `World` (world.py), the Lean model `HailVerif.BatchDB` runs it in Driver/BatchDB.lean, answers and table dumps are compared
after every op, and the property's oracle (oracles.py) is evaluated on the minisql tables after every op."""
from __future__ import annotations

import json
import os
import random
from typing import Any, Dict, List, Optional, Tuple

from .. import loader
from ..framework import LEAN, Prop, MachineryError, generic_shrink_list
from ..minisql import SEMANTICS
from . import gen, oracles
from .world import World, MachineryFailure

COMMON_TRUSTED = [
    'harness/minisql as the MySQL server (its SEMANTICS list follows) and harness/minisql/fakepool.py as aiomysql; gear.database runs unmodified on top',
    'harness/batchdb/world.py: mapping of protocol ops to calls of the real code (documented per op in its module docstring) and of tables to the dump',
    'harness/minisql/batchapp.py stand-ins for everything outside the database: file store, HTTP client session, credentials, k8s cache, '
    'instance-collection manager (real Instance objects, fake InstanceCollection)',
    'every transaction (procedure call / @transaction body) is one atomic step: InnoDB-internal interleavings are not exhibited',
] + ['minisql: ' + s for s in SEMANTICS]

COMMON_ASSUMPTIONS = [
    'histories are sequences of whole transactions of the service (all orders of whole transactions, not statement interleavings)',
    'job (cores, inst_coll) pairs are those the real resource-request code of _create_jobs produces: pools {250,...,16000} mcpu, job-private n1-standard-{1,2,4,8}',
    'worker / driver messages name instances that were created; unschedule_job always reports reason "cancelled" (as the code does) and is only '
    'issued for an (attempt, instance) pair read from the attempts table (both callers in canceller.py); schedule_job is never called for a pending instance',
]


def lean_props_for(pid: str) -> List[str]:
    own = [f'HailVerif.Props.{pid}'] if os.path.exists(os.path.join(LEAN, 'HailVerif', 'Props', f'{pid}.lean')) else []
    # the translator tie of the procedure guards (Generated/ProcGuards.lean = model guards) is an obligation of every E1 property
    return own + ['HailVerif.Props.E1Tie']


class RunResult:
    __slots__ = ('lines', 'cut', 'failure', 'tags', 'sql_errors', 'server_errors', 'n_ops')

    def __init__(self):
        self.lines: List[str] = []
        self.cut: Optional[int] = None          # number of ops executed when the history was ended early
        self.failure: Optional[Tuple[int, str, str]] = None   # (op index, finding class, message)
        self.tags: List[str] = []
        self.sql_errors: List[Any] = []
        self.server_errors: List[Any] = []
        self.n_ops = 0


class E1Prop(Prop):
    engine = 'E1-batchdb'
    driver = 'Driver/BatchDB.lean'
    technique = ('Lean 4 model of the batch database state machine (one step per transaction) with theorems by induction over op lists + '
                 'differential correspondence: the real front-end / driver python functions and the verbatim stored procedures / triggers '
                 'run over the minisql interpreter, answers and full table dumps compared after every op, property oracle on the tables')
    budget = {'quick': 200, 'thorough': 4000}
    search_budget = {'quick': 150, 'thorough': 3000}
    adversarial_share = 0.0
    dump_every = 1
    oracle_name = ''            # function in oracles.py
    stop_on_divergence = True
    rule = ('case = one history of 15-60 protocol ops produced by harness/batchdb/gen.py (client submissions of 1-3 updates with nested groups '
            'and DAG parents, driver / worker messages incl. duplicated, stale and reordered ones, cancellations, instance deactivation, '
            'background loops); non-trivial = the history commits at least one job and the property-specific trigger (see tags) occurs; '
            'distinct by full op list')

    def __init__(self):
        self.lean_props = lean_props_for(self.id)
        self.trusted = list(COMMON_TRUSTED) + list(getattr(self, 'extra_trusted', []))
        self.assumptions = list(COMMON_ASSUMPTIONS) + list(getattr(self, 'extra_assumptions', []))
        self._cache: Dict[str, RunResult] = {}
        self._dist: Dict[str, int] = {}

    # -- T tie of the generated trigger bodies the model imports ------------------------------------------
    def generate(self, repo):
        from ..extract import jobs_trigger, proc_guards
        from ..props import c03
        notes = []
        r = jobs_trigger.generate(repo)
        notes += r if isinstance(r, list) else ([r] if r else [])
        notes += c03.PROP.generate(repo) or []
        notes += proc_guards.generate(repo) or []
        return notes

    def setup(self, repo):
        loader.install(repo)
        self.repo = repo
        from . import world as w
        w.World(0, repo).close()     # imports + schema extraction once; failures here are setup failures

    # -- cases ---------------------------------------------------------------------------------------
    def cases(self, rng, n, tier):
        for i in range(n):
            if rng.random() < self.adversarial_share:
                yield gen.adversarial(rng)
            else:
                yield self.make_history(rng)

    def make_history(self, rng):
        return gen.history(rng)

    def search_cases(self, rng, n, hint):
        return self.cases(rng, n, 'thorough')

    @staticmethod
    def key(c) -> str:
        return json.dumps(c['ops'])

    # -- running -------------------------------------------------------------------------------------
    def run_case(self, c) -> RunResult:
        res = RunResult()
        w = World(0, getattr(self, 'repo', None))
        check = getattr(oracles, self.oracle_name) if self.oracle_name else None
        obs = oracles.Observer(w, c)
        try:
            res.lines.append('ok')
            for i, op in enumerate(c['ops']):
                n_sql = len(w.sql_errors)
                if not obs.realistic(op):
                    res.cut = i
                    res.tags.append('cut:unrealistic-' + op.split()[0])
                    break
                obs.before(op)
                ans = w.apply(op)
                res.lines.append(ans)
                res.lines.append(w.dump())
                res.n_ops = i + 1
                obs.after(op, ans)
                try:
                    msg = check(obs) if check else None
                except Exception as e:   # noqa: BLE001
                    if type(e).__module__.startswith('pymysql') or type(e).__name__ in ('HTTPInternalServerError', 'HTTPBadRequest', 'HTTPNotFound'):
                        # the oracle reads through the service's own SQL functions / handlers: an error raised THERE is a finding
                        msg = ('service-read-raises-' + (str(e.args[0]) if e.args and isinstance(e.args[0], int) else type(e).__name__),
                               f'a read of the service made by the oracle after `{op}` raised {type(e).__name__}{e.args}')
                    else:
                        raise
                diverged = len(w.sql_errors) > n_sql and w.sql_errors[-1][1] in oracles.DIVERGENT_SQL_ERRORS
                if msg is not None:
                    res.failure = (i, msg[0], msg[1])
                    res.cut = i + 1
                    if diverged:        # the model has no such failure: the failing op itself is not compared
                        del res.lines[-2:]
                        res.n_ops = i
                    break
                if len(w.sql_errors) > n_sql and w.sql_errors[-1][1] in oracles.DIVERGENT_SQL_ERRORS:
                    # the service answered with a MySQL error the model does not know (e.g. the 1242 of is_job_cancelled):
                    # model and code diverge from here on; the history ends
                    # (the failing op itself is not compared; a property whose oracle is about it has reported it above)
                    del res.lines[-2:]
                    res.n_ops = i
                    res.cut = i
                    res.tags.append(f'cut:sql-{w.sql_errors[-1][1]}')
                    break
            if check and res.failure is None:
                try:
                    msg = oracles.final_check(self.oracle_name, obs)
                except Exception as e:   # noqa: BLE001
                    if not type(e).__module__.startswith('pymysql'):
                        raise
                    msg = ('service-read-raises-' + str(e.args[0] if e.args else type(e).__name__),
                           f'a read of the service made by the final oracle raised {type(e).__name__}{e.args}')
                if msg is not None:
                    res.failure = (res.n_ops - 1, msg[0], msg[1])
            res.tags += obs.tags
            res.sql_errors = list(w.sql_errors)
            res.server_errors = list(w.server_errors)
        except MachineryFailure as e:
            raise MachineryError(f'world: {e} in op {c["ops"][res.n_ops] if res.n_ops < len(c["ops"]) else "?"}')
        finally:
            w.close()
        return res

    def _get(self, c) -> RunResult:
        k = self.key(c)
        r = self._cache.get(k)
        if r is None:
            r = self.run_case(c)
            if len(self._cache) > 20000:
                self._cache.clear()
            self._cache[k] = r
        return r

    def impl(self, c):
        k = self.key(c)
        self._cache.pop(k, None)
        return list(self._get(c).lines)

    def model_lines(self, c):
        r = self._get(c)
        n = r.n_ops
        lines = ['reset']
        for op in c['ops'][:n]:
            lines += [op, 'dump']
        return lines

    def oracle(self, c, out):
        if out and out[0].startswith('IMPL-EXC'):
            return out[0]
        r = self._get(c)
        if r.failure is None:
            return None
        i, cls, msg = r.failure
        return f'[{cls}] after op {i + 1} `{c["ops"][i]}`: {msg}'

    def finding_key(self, c, msg):
        if msg.startswith('['):
            return f'{self.id}:' + msg[1:msg.index(']')]
        return f'{self.id}:' + msg[:60]

    def classify(self, c, out):
        r = self._get(c)
        tags = sorted(set(r.tags))
        kinds: Dict[str, int] = {}
        for op in c['ops'][:r.n_ops]:
            k = op.split()[0]
            kinds[k] = kinds.get(k, 0) + 1
        tags += [f'op:{k}' for k in kinds]
        nontrivial = any(l == 'ok 0' for l, op in zip(r.lines[1::2], c['ops']) if op.startswith('commit')) and self.nontrivial(r)
        return (self.key(c) if nontrivial else None, tags)

    def nontrivial(self, r: RunResult) -> bool:
        return True

    def shrink(self, c, fails):
        ops = list(c['ops'])
        r = self._get(c)
        if r.failure is not None:
            ops = ops[:r.failure[0] + 1]
            cls = r.failure[1]
            any_failure = fails

            def fails(c2):          # the witness must keep showing the SAME finding class, not drift to another one
                if not any_failure(c2):
                    return False
                f2 = self._get(c2).failure
                return f2 is not None and f2[1] == cls
        if not fails({**c, 'ops': ops}):
            return c
        ops = generic_shrink_list(ops, lambda o: fails({**c, 'ops': o}))
        ops = self.shrink_specs(ops, lambda o: fails({**c, 'ops': o}))
        ops = generic_shrink_list(ops, lambda o: fails({**c, 'ops': o}))
        return {**c, 'ops': ops}

    @staticmethod
    def shrink_specs(ops, fails):
        """simplify inside the requests: drop the last job / group of the last update of a batch (adjusting createUpdate), drop parents,
        move jobs to the root group, make them plain 1000 mcpu pool jobs"""
        ops = list(ops)
        changed = True
        rounds = 0
        while changed and rounds < 6:
            changed = False
            rounds += 1
            # (1) last job / last group of the last update of each batch
            ups = [(i, o.split()) for i, o in enumerate(ops) if o.startswith('createUpdate ')]
            last = {}
            for i, ws in ups:
                last[ws[1]] = (i, ws)
            for b, (i, ws) in last.items():
                uid = sum(1 for _, w2 in ups if w2[1] == b and ups.index((_, w2)) <= ups.index((i, ws)))
                for field, kind in ((3, 'insertJobs'), (4, 'insertGroups')):
                    n = int(ws[field])
                    if n == 0:
                        continue
                    cand = list(ops)
                    w2 = list(ws)
                    w2[field] = str(n - 1)
                    if w2[3] == '0' and w2[4] == '0':
                        continue
                    cand[i] = ' '.join(w2)
                    out = []
                    for o in cand:
                        x = o.split()
                        if x[0] == kind and x[1] == b and x[2] == str(uid):
                            specs = [t for t in x[4:] if t.split(';')[0] != str(n)]
                            if not specs:
                                continue
                            o = ' '.join(x[:4] + specs)
                        out.append(o)
                    if out != ops and fails(out):
                        ops = out
                        changed = True
                        break
                if changed:
                    break
            if changed:
                continue
            # (2) simplify single job specs
            for i, o in enumerate(ops):
                x = o.split()
                if x[0] != 'insertJobs':
                    continue
                for k in range(4, len(x)):
                    f = x[k].split(';')
                    for g in ([f[0], '', f[2]] + f[3:], [f[0], f[1], ''] + f[3:], f[:3] + ['0', '0'] + f[5:], f[:5] + ['0'] + f[6:],
                              f[:6] + ['1000', '0']):
                        if g == f:
                            continue
                        cand = list(ops)
                        cand[i] = ' '.join(x[:k] + [';'.join(g)] + x[k + 1:])
                        if fails(cand):
                            ops = cand
                            x = cand[i].split()
                            f = g
                            changed = True
        return ops


class ActorCasesMixin:
    """adds `kind: 'actors'` cases (submission prefix + script for the REAL driver loops of harness/batchdb/actors.py) to an E1 property.
    The subclass sets actor_share, actor_flavour and implements actor_checks() -> (step_checks, final_checks)."""
    actor_share = 0.3
    actor_flavour = 'c39'

    def cases(self, rng, n, tier):
        for c in super().cases(rng, n, tier):
            if rng.random() < self.actor_share:
                yield gen.submission(rng, self.actor_flavour)
            else:
                yield c

    @staticmethod
    def key(c):
        return json.dumps([c['ops'], c.get('actors'), c.get('aseed')]) if c.get('kind') == 'actors' else json.dumps(c['ops'])

    def run_case(self, c):
        if c.get('kind') != 'actors':
            return super().run_case(c)
        from . import actors
        step_checks, final_checks = self.actor_checks()
        r = actors.run_actor_case(getattr(self, 'repo', None), c, step_checks, final_checks)
        r.tags.append('kind:actors')
        return r

    def oracle(self, c, out):
        if c.get('kind') != 'actors':
            return super().oracle(c, out)
        if out and out[0].startswith('IMPL-EXC'):
            return out[0]
        r = self._get(c)
        return None if r.failure is None else f'[{r.failure[1]}] real driver loops: {r.failure[2]}'

    def classify(self, c, out):
        if c.get('kind') != 'actors':
            return super().classify(c, out)
        r = self._get(c)
        tags = sorted(set(r.tags)) + sorted({'actor:' + a[0] for a in c.get('actors', [])})
        return (self.key(c) if 'scheduled-by-real-scheduler' in r.tags or 'job-private-path' in r.tags else None, tags)

    def shrink(self, c, fails):
        if c.get('kind') != 'actors':
            return super().shrink(c, fails)
        cur = dict(c)
        if not fails(cur):
            return c
        if len(cur['actors']) > 1:
            cur['actors'] = generic_shrink_list(cur['actors'], lambda a: fails({**cur, 'actors': a}))
        return cur

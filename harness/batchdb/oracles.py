"""Property oracles of the E1 family.  Every function renders its property statement directly on the minisql tables (snapshots taken
after every op), the answers of the real code and the op history; none of them consults the Lean model.

An oracle returns None (holds so far) or (finding_class, message).  finding_class is a short canonical signature of WHAT is wrong
(it becomes the check's finding_key), so that a different violation of the same property still alarms.
"""
from __future__ import annotations

from typing import Any, Dict, List, Optional, Tuple

# MySQL errors after which the Lean model (which has no such failure) and the code legitimately diverge, so that a history ends there
# instead of reporting a correspondence mismatch.  Empty since repo commit 2813d614a: the only member was 1242 = is_job_cancelled (119)
# returning one row per cancelled ancestor; a 1242 is now a plain disagreement with the model in every E1 check (and C07's oracle (5)
# reports the failing request)
DIVERGENT_SQL_ERRORS: set = set()

TERMINAL = ('Success', 'Failed', 'Error', 'Cancelled')
LIVE = ('Pending', 'Ready', 'Creating', 'Running')
TABLES = ['batches', 'batch_updates', 'job_groups', 'job_group_self_and_ancestors', 'job_groups_cancelled',
          'job_groups_n_jobs_in_complete_states', 'jobs', 'job_parents', 'attempts', 'attempt_resources', 'instances',
          'instances_free_cores_mcpu', 'user_inst_coll_resources', 'job_group_inst_coll_cancellable_resources',
          'job_groups_inst_coll_staging', 'aggregated_job_resources_v3', 'aggregated_job_group_resources_v3',
          'aggregated_billing_project_user_resources_v3', 'aggregated_billing_project_user_resources_by_date_v3', 'inst_colls']


class View:
    """one snapshot of the tables with the derived relations the property statements talk about"""

    def __init__(self, T: Dict[str, List[dict]]):
        self.T = T
        self.batches = {r['id']: r for r in T['batches']}
        self.updates = {(r['batch_id'], r['update_id']): r for r in T['batch_updates']}
        self.groups = {(r['batch_id'], r['job_group_id']): r for r in T['job_groups']}
        self.cancelled = {(r['id'], r['job_group_id']) for r in T['job_groups_cancelled']}
        self.anc: Dict[Tuple[int, int], List[int]] = {}
        for r in T['job_group_self_and_ancestors']:
            self.anc.setdefault((r['batch_id'], r['job_group_id']), []).append(r['ancestor_id'])
        self.tallies = {(r['id'], r['job_group_id']): r for r in T['job_groups_n_jobs_in_complete_states']}
        self.jobs = {(r['batch_id'], r['job_id']): r for r in T['jobs']}
        self.parents: Dict[Tuple[int, int], List[int]] = {}
        self.children: Dict[Tuple[int, int], List[int]] = {}
        for r in T['job_parents']:
            self.parents.setdefault((r['batch_id'], r['job_id']), []).append(r['parent_id'])
            self.children.setdefault((r['batch_id'], r['parent_id']), []).append(r['job_id'])
        self.attempts = {(r['batch_id'], r['job_id'], r['attempt_id']): r for r in T['attempts']}
        self.instances = {r['name']: r for r in T['instances']}
        self.free = {r['name']: r['free_cores_mcpu'] for r in T['instances_free_cores_mcpu']}

    def committed(self, b, u) -> bool:
        r = self.updates.get((b, u))
        return bool(r and r['committed'])

    def group_cancelled(self, b, g) -> bool:
        return any((b, a) in self.cancelled for a in self.anc.get((b, g), []))

    def marked(self, j) -> bool:
        return bool(j['cancelled']) or self.group_cancelled(j['batch_id'], j['job_group_id'])

    def job_cancelled(self, j) -> bool:
        return (not j['always_run']) and self.marked(j)

    def in_subtree(self, j, g) -> bool:
        return g in self.anc.get((j['batch_id'], j['job_group_id']), [])

    def user_of(self, b) -> Optional[str]:
        r = self.batches.get(b)
        return r['user'] if r else None


class Observer:
    """what an oracle may look at: snapshots before / after the current op, the op, its answer, everything that happened before"""

    def __init__(self, world, case):
        self.w = world
        self.case = case
        self.tags: List[str] = []
        self.prev: Optional[View] = None
        self.cur: View = self.snapshot()
        self.op = ''
        self.ans = ''
        self.step = -1
        self.history: List[Tuple[str, str]] = []
        self.cancel_step: Dict[Tuple[int, int], int] = {}
        self.commit_step: Dict[Tuple[int, int], int] = {}
        self.n_sql_before = 0
        self.state: Dict[str, Any] = {}
        self.insert_step: Dict[Tuple[int, int], int] = {}
        self.ran_step: Dict[Tuple[int, int], int] = {}
        self.left_pending: Dict[Tuple[int, int], Tuple[str, bool]] = {}

    def snapshot(self) -> View:
        T = self.w.db.tables
        return View({n: [dict(r) for r in T[n]] for n in TABLES})

    def before(self, op):
        self.prev = self.cur
        self.n_sql_before = len(self.w.sql_errors)

    def after(self, op, ans):
        self.cur = self.snapshot()
        self.op = op
        self.ans = ans
        self.step += 1
        self.history.append((op, ans))
        for k, j in self.cur.jobs.items():
            if k not in self.insert_step:
                self.insert_step[k] = self.step
            o = self.prev.jobs.get(k) if self.prev is not None else None
            if k not in self.left_pending and j['state'] != 'Pending' and (o is None or o['state'] == 'Pending'):
                # (op kind, did one of its parents complete in this very op) when the job was inserted non-Pending / left Pending
                par_done = any((pk := (k[0], x)) in self.cur.jobs and self.cur.jobs[pk]['state'] in TERMINAL and
                               (self.prev is None or pk not in self.prev.jobs or self.prev.jobs[pk]['state'] not in TERMINAL)
                               for x in self.cur.parents.get(k, []))
                self.left_pending[k] = (op.split()[0], par_done)
            if k not in self.ran_step and j['state'] in ('Creating', 'Running') + TERMINAL:
                self.ran_step[k] = self.step          # first time the job is seen started or finished
        ws = op.split()
        if ws[0] in ('cancel', 'delete') and ans.startswith('ok'):
            b = int(ws[1])
            g = int(ws[2]) if ws[0] == 'cancel' else 0
            self.cancel_step.setdefault((b, g), self.step)
        if ws[0] == 'commit' and ans == 'ok 0':
            self.commit_step.setdefault((int(ws[1]), int(ws[2])), self.step)

    def tag(self, t):
        if t not in self.tags:
            self.tags.append(t)

    def realistic(self, op: str) -> bool:
        """The driver only issues schedule_job / mark_job_creating, and a worker only reports job_started, for a job its scheduler
        SELECTs returned: a job whose job group is in state 'running' — or for an attempt that is already recorded (follow-up,
        duplicated or late message).  Histories (and shrunk witnesses) must respect that, otherwise they show nothing about the service."""
        ws = op.split()
        v = self.cur
        if ws[0] == 'complete' and ws[3] == 'N':
            # the canceller's (and the scheduler's mark_job_errored) form: issued for jobs of running job groups only
            job = v.jobs.get((int(ws[1]), int(ws[2])))
            if job is None:
                return True
            g = v.groups.get((job['batch_id'], job['job_group_id']))
            return bool(g and g['state'] == 'running')
        if ws[0] == 'insertJobs':
            # the handlers run validate_and_clean_jobs first: the job ids of one bunch are contiguous (the model does not know that check)
            # (bunches that _create_jobs refuses anyway — an id outside the reserved range — stay in: both sides answer err)
            ids = [int(t.split(';')[0]) for t in ws[4:]]
            u = v.updates.get((int(ws[1]), int(ws[2])))
            contiguous = all(y == x + 1 for x, y in zip(ids, ids[1:]) if x)
            return contiguous or u is None or not all(1 <= x <= u['n_jobs'] for x in ids)
        if ws[0] == 'unschedule':
            # both callers (canceller.py) take (attempt, instance) from a row of `attempts`
            a = v.attempts.get((int(ws[1]), int(ws[2]), f'att{ws[3]}'))
            return a is not None and a['instance_name'] == f'inst{ws[4]}'
        if ws[0] not in ('schedule', 'creating', 'started', 'complete'):
            return True
        # (a worker can report started / complete for an attempt the database does not know yet: driver.job.schedule_job posts the job
        # to the worker BEFORE it calls the procedure; but only for a job the scheduler selected)
        b, j, a = int(ws[1]), int(ws[2]), f'att{ws[3]}'
        job = v.jobs.get((b, j))
        if job is None:
            return True
        if (b, j, a) in v.attempts:
            return True
        if job['state'] == 'Pending':
            return False        # the schedulers select Ready jobs; a job never goes back to Pending between the SELECT and the message
        if ws[0] == 'schedule':
            # the pool scheduler picks instances from healthy_instances_by_free_cores: activated ones (an instance can be deactivated
            # or deleted between the choice and the CALL, it cannot be 'pending' again)
            inst = v.instances.get(f'inst{ws[4]}')
            if inst is not None and inst['state'] == 'pending':
                return False
        g = v.groups.get((b, job['job_group_id']))
        return bool(g and g['state'] == 'running' and not v.batches[b]['deleted'])

    def new_sql_errors(self):
        return self.w.sql_errors[self.n_sql_before:]

    def unchanged(self, tables=None) -> Optional[str]:
        """name of the first table that differs between prev and cur (None if all equal)"""
        for n in (tables or TABLES):
            if self.prev.T[n] != self.cur.T[n]:
                return n
        return None

    # flags that explain a discrepancy by a known mechanism (used only to NAME findings)
    def activated_uncommitted_children(self) -> List[dict]:
        v = self.cur
        return [j for j in v.jobs.values() if not v.committed(j['batch_id'], j['update_id']) and v.parents.get((j['batch_id'], j['job_id']))
                and j['state'] != 'Pending']

    def parent_inserted_after_child_committed(self) -> bool:
        """a job whose update was committed while one of its parents did not exist yet (the parent row arrived later)"""
        v = self.cur
        for (b, j), ps in v.parents.items():
            job = v.jobs.get((b, j))
            if job is None:
                continue
            cs = self.commit_step.get((b, job['update_id']))
            if cs is None:
                continue
            for p in ps:
                ins = self.insert_step.get((b, p))
                if ins is not None and ins > cs:
                    return True
        return False

    def committed_after_cancel(self) -> bool:
        v = self.cur
        for j in v.jobs.values():
            cs = self.commit_step.get((j['batch_id'], j['update_id']))
            if cs is None:
                continue
            for a in v.anc.get((j['batch_id'], j['job_group_id']), []):
                x = self.cancel_step.get((j['batch_id'], a))
                if x is not None and x < cs:
                    return True
        return False


def final_check(name: str, obs: Observer):
    f = globals().get(name + '_final')
    return f(obs) if f else None


def _name_class(obs: Observer, default: str, job: Optional[Tuple[int, int]] = None) -> str:
    """Attribute a discrepancy to a KNOWN mechanism only on evidence in the history itself, most specific evidence first:
    (1) evidence about the offending job and the CURRENT op, (2) evidence about the offending job, (3) evidence about the current op,
    (4) history-wide flags.  Everything else keeps the generic class and alarms."""
    v = obs.cur
    ws = obs.op.split()
    late_commit = ws[0] == 'commit' and obs.ans == 'ok 0' and int(ws[2]) != 1 and obs.prev is not None
    if job is not None and job in v.jobs and late_commit and int(ws[1]) == job[0]:
        # the current op is the commit of a non-first update and it visibly RESET the offending job or one of its parents, which had already
        # run: commit_batch_update rewrites state / n_pending_parents of EVERY job of the update from the parents' states as read before
        # the statement, also of jobs that were activated and ran while the update was uncommitted
        for k2 in [job] + [(job[0], p) for p in v.parents.get(job, [])]:
            o, j2 = obs.prev.jobs.get(k2), v.jobs.get(k2)
            if o is not None and j2 is not None and o['update_id'] == int(ws[2]) and \
                    o['state'] in TERMINAL + ('Running', 'Creating') and j2['state'] in ('Ready', 'Pending'):
                return 'commit-resets-job-of-late-committed-update'
    if job is not None and job in v.jobs:
        # the offending job itself has a parent whose row arrived after the job's update was committed: that mechanism explains it,
        # whatever else happened in the history
        cs = obs.commit_step.get((job[0], v.jobs[job]['update_id']))
        if cs is not None and any(obs.insert_step.get((job[0], p), -1) > cs for p in v.parents.get(job, [])):
            return 'parent-inserted-after-child-update-committed'
        # the offending job or one of its parents belongs to a non-first update and had already started / finished when that update was
        # committed: the commit reset it (see above), its completion is then reported a second time and its children are decremented twice
        for k2 in [job] + [(job[0], p) for p in v.parents.get(job, [])]:
            j2 = v.jobs.get(k2)
            if j2 is not None and j2['update_id'] != 1:
                cs2, rs2 = obs.commit_step.get((k2[0], j2['update_id'])), obs.ran_step.get(k2)
                if cs2 is not None and rs2 is not None and rs2 < cs2:
                    return 'commit-resets-job-of-late-committed-update'
    if ws[0] == 'commit' and obs.ans == 'ok 0':
        # the current op commits an update some of whose jobs sit under a group that was cancelled BEFORE this commit: commit_batch_update
        # adds the staged ready counts without looking at cancellation
        b, u = int(ws[1]), int(ws[2])
        for j in v.jobs.values():
            if j['batch_id'] == b and j['update_id'] == u and \
                    any(obs.cancel_step.get((b, a), obs.step) < obs.step for a in v.anc.get((b, j['job_group_id']), [])):
                return 'commit-after-cancel-of-ancestor-group'
    if any(not v.committed(j['batch_id'], j['update_id']) and not v.parents.get((j['batch_id'], j['job_id'])) and j['state'] not in ('Pending', 'Ready')
           and j['update_id'] == 1 for j in v.jobs.values()):
        return 'ready-job-of-uncommitted-update-scheduled-in-running-group'
    if obs.activated_uncommitted_children():
        return 'complete-parent-while-child-update-uncommitted'
    if obs.parent_inserted_after_child_committed():
        return 'parent-inserted-after-child-update-committed'
    if obs.committed_after_cancel():
        return 'commit-after-cancel-of-ancestor-group'
    return default


# ---------------------------------------------------------------------------------------------------------------
# C01  scheduler counters = recount from jobs

U_COLS = ['n_ready_jobs', 'ready_cores_mcpu', 'n_running_jobs', 'running_cores_mcpu', 'n_creating_jobs', 'n_cancelled_ready_jobs',
          'n_cancelled_running_jobs', 'n_cancelled_creating_jobs']
C_COLS = ['n_ready_cancellable_jobs', 'ready_cancellable_cores_mcpu', 'n_creating_cancellable_jobs', 'n_running_cancellable_jobs',
          'running_cancellable_cores_mcpu']


def recount_user(v: View, committed_only=True) -> Dict[Tuple[str, str], List[int]]:
    out: Dict[Tuple[str, str], List[int]] = {}
    for j in v.jobs.values():
        b = j['batch_id']
        if committed_only and not v.committed(b, j['update_id']):
            continue
        k = (v.user_of(b), j['inst_coll'])
        c = out.setdefault(k, [0] * 8)
        st = j['state']
        canc = v.job_cancelled(j)
        runnable = j['always_run'] or not v.marked(j)
        cores = j['cores_mcpu']
        if st == 'Ready':
            if runnable:
                c[0] += 1
                c[1] += cores
            if canc:
                c[5] += 1
        elif st == 'Running':
            if not canc:
                c[2] += 1
                c[3] += cores
            else:
                c[6] += 1
        elif st == 'Creating':
            if not canc:
                c[4] += 1
            else:
                c[7] += 1
    return {k: x for k, x in out.items() if any(x)}


def stored_user(v: View):
    out: Dict[Tuple[str, str], List[int]] = {}
    for r in v.T['user_inst_coll_resources']:
        c = out.setdefault((r['user'], r['inst_coll']), [0] * 8)
        for i, col in enumerate(U_COLS):
            c[i] += r[col]
    return {k: x for k, x in out.items() if any(x)}


def recount_cancellable(v: View):
    out: Dict[Tuple[int, int, int, str], List[int]] = {}
    for j in v.jobs.values():
        if j['always_run'] or v.marked(j):
            continue
        st = j['state']
        if st not in ('Ready', 'Creating', 'Running'):
            continue
        b = j['batch_id']
        for g in v.anc.get((b, j['job_group_id']), []):
            c = out.setdefault((b, j['update_id'], g, j['inst_coll']), [0] * 5)
            if st == 'Ready':
                c[0] += 1
                c[1] += j['cores_mcpu']
            elif st == 'Creating':
                c[2] += 1
            else:
                c[3] += 1
                c[4] += j['cores_mcpu']
    return {k: x for k, x in out.items() if any(x)}


def stored_cancellable(v: View):
    out: Dict[Tuple[int, int, int, str], List[int]] = {}
    for r in v.T['job_group_inst_coll_cancellable_resources']:
        c = out.setdefault((r['batch_id'], r['update_id'], r['job_group_id'], r['inst_coll']), [0] * 5)
        for i, col in enumerate(C_COLS):
            c[i] += r[col]
    return {k: x for k, x in out.items() if any(x)}


def c01(obs: Observer):
    v = obs.cur
    if len(v.batches) >= 2:
        obs.tag('two-batches')
        ws = obs.op.split()
        if ws[0] == 'cancel' and obs.ans.startswith('ok'):
            obs.state.setdefault('cancelled_batches', set()).add(int(ws[1]))
            if obs.state.get('cleanup_after_cancel_of') and obs.state['cleanup_after_cancel_of'] - {int(ws[1])}:
                obs.tag('cancel-of-a-batch-after-cleanup-following-cancel-of-another-batch')
        if ws[0] == 'cleanupCancellable' and obs.state.get('cancelled_batches'):
            obs.state['cleanup_after_cancel_of'] = set(obs.state['cancelled_batches'])
            obs.tag('cleanupCancellable-after-cancel-with-another-live-batch')
    want = recount_user(v)
    have = stored_user(v)
    if want != have:
        k = next(k for k in sorted(set(want) | set(have), key=str) if want.get(k) != have.get(k))
        w, h = want.get(k, [0] * 8), have.get(k, [0] * 8)
        diff = {U_COLS[i]: (h[i], w[i]) for i in range(8) if h[i] != w[i]}
        cls = _name_class(obs, 'user-counters-differ-from-recount')
        return (cls, f'user_inst_coll_resources{k}: stored vs recounted from committed jobs (stored, recount) = {diff}')
    wantc = recount_cancellable(v)
    havec = stored_cancellable(v)
    for k in sorted(set(wantc) | set(havec), key=str):
        b, u, g, ic = k
        if v.group_cancelled(b, g):
            continue        # rows of cancelled groups are garbage awaiting the cleanup loop
        if wantc.get(k) != havec.get(k):
            w, h = wantc.get(k, [0] * 5), havec.get(k, [0] * 5)
            diff = {C_COLS[i]: (h[i], w[i]) for i in range(5) if h[i] != w[i]}
            cls = _name_class(obs, 'cancellable-counters-differ-from-recount')
            return (cls, f'job_group_inst_coll_cancellable_resources(batch {b}, update {u}, group {g}, {ic}): (stored, recount over the group and '
                         f'its descendants) = {diff}')
    if any(not v.committed(j['batch_id'], j['update_id']) for j in v.jobs.values()):
        obs.tag('has-uncommitted-jobs')
    if v.cancelled:
        obs.tag('has-cancelled-group')
    return None


# ---------------------------------------------------------------------------------------------------------------
# C02  billing aggregates = sum over attempts of quantity x billed duration

def billed(a) -> int:
    if a['start_time'] is None or a['rollup_time'] is None:
        return 0
    return max(0, a['rollup_time'] - a['start_time'])


def c02(obs: Observer):
    v = obs.cur
    per_job: Dict[Tuple[int, int, int], int] = {}
    for r in v.T['attempt_resources']:
        a = v.attempts.get((r['batch_id'], r['job_id'], r['attempt_id']))
        if a is None:
            return ('attempt-resources-without-attempt', f'attempt_resources row {r} has no attempt')
        x = r['quantity'] * billed(a)
        if x:
            k = (r['batch_id'], r['job_id'], r['deduped_resource_id'])
            per_job[k] = per_job.get(k, 0) + x
    if any(billed(a) for a in v.attempts.values()) and v.T['attempt_resources']:
        obs.tag('billed>0')
    ws = obs.op.split()
    if ws[0] == 'addResources' and obs.prev is not None:
        k = (int(ws[1]), int(ws[2]), f'att{ws[3]}')
        a0 = obs.prev.attempts.get(k)
        new_rows = [r for r in v.T['attempt_resources'] if (r['batch_id'], r['job_id'], r['attempt_id']) == k] != \
            [r for r in obs.prev.T['attempt_resources'] if (r['batch_id'], r['job_id'], r['attempt_id']) == k]
        if a0 is not None and billed(a0) > 0:
            have = {r['deduped_resource_id']: r['quantity'] for r in obs.prev.T['attempt_resources']
                    if (r['batch_id'], r['job_id'], r['attempt_id']) == k}
            sent = {int(t.split(':')[0]): int(t.split(':')[1]) for t in ws[5:]}
            if any(r in have and have[r] != q for r, q in sent.items()):
                obs.tag('resource-registered-again-with-another-quantity-after-billed-time')
        if a0 is not None and billed(a0) > 0 and new_rows:
            job = v.jobs.get(k[:2])
            depth = len(v.anc.get((k[0], job['job_group_id']), [])) if job else 0
            obs.tag('resources-registered-after-billed-time')
            if depth >= 2:
                obs.tag('resources-registered-after-billed-time:nested-group')
            if depth >= 3:
                obs.tag('resources-registered-after-billed-time:group-depth>=2')

    def sums(table, keyf):
        out: Dict[Any, int] = {}
        for r in v.T[table]:
            k = keyf(r)
            out[k] = out.get(k, 0) + r['usage']
        return {k: x for k, x in out.items() if x}

    have = sums('aggregated_job_resources_v3', lambda r: (r['batch_id'], r['job_id'], r['resource_id']))
    want = {k: x for k, x in per_job.items() if x}
    if have != want:
        k = next(k for k in sorted(set(want) | set(have)) if want.get(k) != have.get(k))
        return ('job-usage-differs', f'aggregated_job_resources_v3{k} = {have.get(k, 0)}, sum over attempts of quantity x billed = {want.get(k, 0)}')
    wantg: Dict[Tuple[int, int, int], int] = {}
    wantbp: Dict[Tuple[str, str, int], int] = {}
    for (b, j, r), x in want.items():
        job = v.jobs[(b, j)]
        for g in v.anc.get((b, job['job_group_id']), []):
            wantg[(b, g, r)] = wantg.get((b, g, r), 0) + x
        bt = v.batches[b]
        kb = (bt['billing_project'], bt['user'], r)
        wantbp[kb] = wantbp.get(kb, 0) + x
    haveg = sums('aggregated_job_group_resources_v3', lambda r: (r['batch_id'], r['job_group_id'], r['resource_id']))
    if haveg != wantg:
        k = next(k for k in sorted(set(wantg) | set(haveg)) if wantg.get(k) != haveg.get(k))
        return ('job-group-usage-differs', f'aggregated_job_group_resources_v3{k} = {haveg.get(k, 0)}, sum over the jobs of the group and its '
                                           f'descendants = {wantg.get(k, 0)}')
    havebp = sums('aggregated_billing_project_user_resources_v3', lambda r: (r['billing_project'], r['user'], r['resource_id']))
    if havebp != wantbp:
        k = next(k for k in sorted(set(wantbp) | set(havebp)) if wantbp.get(k) != havebp.get(k))
        return ('billing-project-usage-differs', f'aggregated_billing_project_user_resources_v3{k} = {havebp.get(k, 0)}, expected {wantbp.get(k, 0)}')
    haved = sums('aggregated_billing_project_user_resources_by_date_v3', lambda r: (r['billing_project'], r['user'], r['resource_id']))
    if haved != wantbp:
        k = next(k for k in sorted(set(wantbp) | set(haved)) if wantbp.get(k) != haved.get(k))
        return ('by-date-usage-differs', f'sum over days of aggregated_..._by_date_v3{k} = {haved.get(k, 0)}, expected {wantbp.get(k, 0)}')
    if obs.op.startswith('compact '):
        obs.tag('compaction-with-billing-updates-committed-between-its-transactions')
    if obs.op == 'compact' or obs.op.startswith('compact '):
        obs.tag('compaction')
        if obs.prev is not None:
            per: Dict[Any, set] = {}
            for r in obs.prev.T['aggregated_billing_project_user_resources_v3']:
                per.setdefault((r['billing_project'], r['user'], r['resource_id']), set()).add(r['token'])
            if any(0 in t and len(t) > 1 for t in per.values()):
                # a key that already holds a token-0 row (an earlier compaction, or the trigger's random token was 0) gained usage on other
                # tokens and is compacted AGAIN
                obs.tag('compaction-merges-into-existing-token-0-row')
                obs.state['recompactions'] = obs.state.get('recompactions', 0) + 1
                if obs.state['recompactions'] >= 2:
                    obs.tag('compaction-merges-into-existing-token-0-row:>=2-times')
        bad = [r for r in v.T['aggregated_billing_project_user_resources_v3'] + v.T['aggregated_billing_project_user_resources_by_date_v3']
               if r['token'] != 0]
        if bad and obs.ans == 'ok 0' and obs.op == 'compact':      # (with concurrent billing updates new shards legitimately appear)
            return ('compaction-left-shards', f'after compaction a non-zero token shard remains: {bad[0]}')
    return None


def abandoned_attempt(p: View, v: View) -> Optional[Tuple[str, str]]:
    """A Creating / Running job falls back to Ready (or gets another current attempt) only when its attempt is withdrawn: unschedule_job
    and deactivate_instance set the end_time of that attempt first.  Otherwise the worker keeps running it while the job is scheduled
    again: two live attempts of one job, both of which were treated as current."""
    for k, o in p.jobs.items():
        if o['state'] in ('Running', 'Creating') and o['attempt_id'] is not None:
            j = v.jobs.get(k)
            if j is None or (j['state'] == o['state'] and j['attempt_id'] == o['attempt_id']):
                continue
            if j['attempt_id'] == o['attempt_id'] and j['state'] in ('Running', 'Creating'):
                continue                      # Creating -> Running of the same attempt
            if j['state'] in TERMINAL:
                continue                      # a job may jump to a terminal state (canceller / mark_job_errored form without attempt id);
                #                               the orphaned-attempts loop then stops the worker
            a = v.attempts.get((k[0], k[1], o['attempt_id']))
            if a is not None and a['end_time'] is None:
                return ('current-attempt-abandoned-while-open',
                        f'job {k} was {o["state"]} with current attempt {o["attempt_id"]}; it is now {j["state"]} (attempt {j["attempt_id"]}) although '
                        f'attempt {o["attempt_id"]} on {a["instance_name"]} has no end_time: the worker still runs it')
    return None


def scenario_tags(obs: 'Observer'):
    """distribution only: which of the message-race scenarios this op is"""
    p = obs.prev
    ws = obs.op.split()
    if ws[0] == 'complete' and ws[3] != 'N' and ws[4] != 'N':
        inst = p.instances.get(f'inst{ws[4]}')
        if (int(ws[1]), int(ws[2]), f'att{ws[3]}') not in p.attempts and inst is not None and inst['state'] in ('inactive', 'deleted') \
                and (int(ws[1]), int(ws[2]), f'att{ws[3]}') in obs.cur.attempts:
            obs.tag('attempt-first-recorded-on-dead-instance')
    if ws[0] in ('unschedule', 'schedule', 'started', 'creating') and len(ws) > 4:
        k = (int(ws[1]), int(ws[2]))
        o = p.jobs.get(k)
        att = f'att{ws[3]}'
        if o is None:
            return
        rec = p.attempts.get((k[0], k[1], att))
        if ws[0] == 'unschedule' and rec is not None:
            if o['state'] in TERMINAL and o['attempt_id'] == att:
                obs.tag('unschedule-of-completed-attempt')
            elif o['state'] in ('Running', 'Creating') and o['attempt_id'] != att and rec['end_time'] is None:
                obs.tag('unschedule-of-orphan-attempt')
            elif o['state'] in ('Running', 'Creating') and o['attempt_id'] == att:
                obs.tag('unschedule-of-current-attempt')
        if ws[0] in ('schedule', 'started') and rec is None and o['state'] in ('Running', 'Creating') and o['attempt_id'] != att:
            obs.tag('second-attempt-of-running-job')
        if ws[0] == 'schedule' and rec is not None and o['attempt_id'] == att and o['state'] in TERMINAL:
            obs.tag('schedule-after-complete-same-attempt')
        if ws[0] == 'schedule' and rec is not None and rec['end_time'] is not None and o['state'] == 'Ready':
            obs.tag('schedule-after-unschedule-same-attempt')
        if rec is None and ws[0] in ('schedule', 'started'):
            inst = p.instances.get(f'inst{ws[4]}')
            if inst is not None and inst['state'] in ('inactive', 'deleted') and (k[0], k[1], att) in obs.cur.attempts:
                obs.tag('attempt-first-recorded-on-dead-instance')
        if ws[0] == 'creating' and rec is None and o['state'] in TERMINAL:
            obs.tag('creating-of-terminal-job')
        if ws[0] == 'creating' and rec is None and o['state'] == 'Ready' and not o['always_run']:
            canc = [a for a in p.anc.get((k[0], o['job_group_id']), []) if (k[0], a) in p.cancelled]
            if canc and 0 not in canc:
                obs.tag('creating-of-ready-job-under-cancelled-non-root-group')
            elif canc:
                obs.tag('creating-of-ready-job-under-cancelled-root-group')
        if ws[0] == 'schedule' and o['state'] == 'Creating' and o['attempt_id'] == att:
            obs.tag('schedule-of-creating-job')
            if not o['always_run'] and p.group_cancelled(k[0], o['job_group_id']):
                n = sum(1 for a in p.anc.get((k[0], o['job_group_id']), []) if (k[0], a) in p.cancelled)
                obs.tag('schedule-of-creating-job-under-cancelled-group' + ('' if n == 1 else ':several-cancelled-ancestors'))


# ---------------------------------------------------------------------------------------------------------------
# C04  lifecycle relation + tallies recount

ALLOWED = {
    'Pending': {'Pending', 'Ready'},
    'Ready': {'Ready', 'Creating', 'Running'} | set(TERMINAL),
    'Creating': {'Creating', 'Running', 'Ready'} | set(TERMINAL),
    'Running': {'Running', 'Ready'} | set(TERMINAL),
}


def tallies_recount(v: View, committed_only=False):
    out: Dict[Tuple[int, int], List[int]] = {k: [0, 0, 0, 0] for k in v.groups}
    for j in v.jobs.values():
        if j['state'] not in TERMINAL:
            continue
        if committed_only and not v.committed(j['batch_id'], j['update_id']):
            continue
        for g in v.anc.get((j['batch_id'], j['job_group_id']), []):
            c = out.setdefault((j['batch_id'], g), [0, 0, 0, 0])
            c[0] += 1
            if j['state'] == 'Success':
                c[1] += 1
            elif j['state'] in ('Failed', 'Error'):
                c[2] += 1
            else:
                c[3] += 1
    return out


def c04(obs: Observer):
    p, v = obs.prev, obs.cur
    scenario_tags(obs)
    for k, j in v.jobs.items():
        o = p.jobs.get(k)
        if o is None:
            if j['state'] not in ('Pending', 'Ready'):
                return ('job-created-in-state-' + j['state'], f'job {k} appears in state {j["state"]}')
            continue
        a, b = o['state'], j['state']
        if a != b:
            obs.tag(f'{a}->{b}')
        if a in TERMINAL:
            if b != a:
                cls = 'commit-resets-job-of-late-committed-update' if obs.op.startswith('commit') else f'terminal-not-absorbing:{a}->{b}'
                return (cls, f'job {k} was {a} (terminal) and is now {b}')
        elif b not in ALLOWED[a]:
            cls = 'commit-resets-job-of-late-committed-update' if obs.op.startswith('commit') else _name_class(obs, f'illegal-transition:{a}->{b}', k)
            return (cls, f'job {k} moved {a} -> {b}')
    for k in p.jobs:
        if k not in v.jobs:
            return ('job-row-disappeared', f'job {k} disappeared')
    for k, j in v.jobs.items():
        o = p.jobs.get(k)
        if o is not None and j['state'] in ('Running', 'Creating') and (o['state'], o['attempt_id']) != (j['state'], j['attempt_id']):
            a = v.attempts.get((k[0], k[1], j['attempt_id']))
            inst = v.instances.get(a['instance_name']) if a and a['instance_name'] else None
            ok = inst is not None and (inst['state'] == 'active' or (j['state'] == 'Creating' and inst['state'] == 'pending'))
            if not ok:
                return ('job-started-on-dead-instance', f'job {k} became {j["state"]} with attempt {j["attempt_id"]} on instance '
                                                        f'{a["instance_name"] if a else None} which is {inst["state"] if inst else "unknown"}: nothing will '
                                                        f'ever report or reset it')
    for k, j in v.jobs.items():
        if j['state'] in ('Running', 'Creating') and j['attempt_id'] is not None:
            a = v.attempts.get((k[0], k[1], j['attempt_id']))
            inst = v.instances.get(a['instance_name']) if a and a['instance_name'] else None
            if inst is not None and inst['state'] not in ('pending', 'active'):
                if obs.op.startswith('deactivate'):
                    obs.tag('deactivate-of-instance-with-started-jobs')
                return ('started-job-left-on-dead-instance', f'job {k} is {j["state"]} with current attempt {j["attempt_id"]} on instance '
                                                            f'{a["instance_name"]}, which is {inst["state"]} after `{obs.op}`: nothing will reset it')
    if obs.op.startswith('deactivate'):
        ts_ = int(obs.op.split()[3])
        nm_ = f'inst{obs.op.split()[1]}'
        ends = [a['end_time'] for a in p.attempts.values() if a['instance_name'] == nm_ and a['end_time'] is not None]
        if ts_ in ends:
            obs.tag('deactivate-timestamp-equals-reported-end-time-of-an-attempt')
        elif any(e > ts_ for e in ends):
            obs.tag('deactivate-timestamp-before-reported-end-time-of-an-attempt')
        dead = f'inst{obs.op.split()[1]}'
        if any(o['state'] == 'Creating' and (a0 := p.attempts.get((k[0], k[1], o['attempt_id']))) and a0['instance_name'] == dead and
               p.instances.get(dead, {}).get('state') == 'pending' for k, o in p.jobs.items()):
            obs.tag('deactivate-of-pending-instance-with-creating-job')
    ab = abandoned_attempt(p, v)
    if ab is not None:
        # (commit_batch_update of a non-first update rewrites the state of every job of the update, also of one that already runs)
        return ('commit-resets-job-of-late-committed-update', ab[1]) if obs.op.startswith('commit') else ab
    rec = tallies_recount(v)
    for k, c in rec.items():
        t = v.tallies.get(k)
        have = [t['n_completed'], t['n_succeeded'], t['n_failed'], t['n_cancelled']] if t else [0, 0, 0, 0]
        if have != c:
            return (_name_class(obs, 'tallies-differ-from-recount'),
                    f'job group {k}: (n_completed, n_succeeded, n_failed, n_cancelled) stored {have}, recount of terminal jobs in the group and its '
                    f'descendants {c}')
    ws = obs.op.split()
    if ws[0] == 'complete':
        if obs.history[:-1].count((obs.op, obs.ans)) or any(h[0] == obs.op for h in obs.history[:-1]):
            obs.tag('duplicate-complete')
        if obs.ans == 'ok 2':
            obs.tag('stale-attempt-complete')
    return None


# ---------------------------------------------------------------------------------------------------------------
# C05  dependencies gate readiness; failed parents cancel children

def _wf_parents(v: View, j) -> Optional[List[dict]]:
    """the parents of j if they all exist and precede it (the well-formedness C08 is about), else None"""
    ps = v.parents.get((j['batch_id'], j['job_id']), [])
    out = []
    for p in ps:
        r = v.jobs.get((j['batch_id'], p))
        if r is None or p >= j['job_id']:
            return None
        out.append(r)
    return out


def c05(obs: Observer):
    p, v = obs.prev, obs.cur
    ws = obs.op.split()
    if ws[0] == 'insertJobs' and obs.ans == 'ok 0':
        u = v.updates.get((int(ws[1]), int(ws[2])))
        for t in ws[4:]:
            f = t.split(';')
            absp = [int(x) for x in f[1].lstrip('L').split(',') if x]
            if u and any(x >= u['start_job_id'] for x in absp):
                # an earlier job of the SAME update named by absolute id (the legacy `parent_ids` form; in update 1 every absolute parent is one)
                obs.tag('absolute-parent-inside-own-update' + (':update-1' if u['update_id'] == 1 else ''))
                if any(x for x in f[2].split(',') if x):
                    obs.tag('absolute-and-relative-parents-mixed')
    for k, j in v.jobs.items():
        if not v.committed(j['batch_id'], j['update_id']):
            continue
        ps = _wf_parents(v, j)
        if ps is None:
            obs.tag('ill-formed-parents')
            continue
        if ps:
            obs.tag('job-with-parents')
            u = v.updates.get((j['batch_id'], j['update_id']))
            if u and any(u['start_job_id'] <= x['job_id'] for x in ps):
                obs.tag('job-with-parents-inside-own-update')
        live = [x for x in ps if x['state'] not in TERMINAL]
        if j['state'] != 'Pending' and live:
            return (_name_class(obs, 'job-left-pending-before-parents-finished', k),
                    f'job {k} is {j["state"]} although its parent {live[0]["job_id"]} is {live[0]["state"]}')
        if j['state'] == 'Pending':
            if j['n_pending_parents'] != len(live):
                return (_name_class(obs, 'n_pending_parents-wrong', k),
                        f'job {k}: n_pending_parents = {j["n_pending_parents"]} but {len(live)} parents are not terminal')
            if not live and ps:
                return (_name_class(obs, 'job-stuck-pending', k), f'job {k} is Pending although all {len(ps)} parents are terminal')
        failed = [x for x in ps if x['state'] in ('Failed', 'Error', 'Cancelled')]
        if failed:
            obs.tag('parent-not-succeeded')
            if not j['cancelled']:
                return (_name_class(obs, 'child-of-failed-parent-not-marked-cancelled', k),
                        f'job {k} is not marked cancelled although parent {failed[0]["job_id"]} is {failed[0]["state"]}')
        o = p.jobs.get(k)
        if o is not None and j['state'] in ('Creating', 'Running') and o['state'] != j['state'] and not j['always_run'] and p.marked(o):
            return ('cancelled-job-started', f'job {k} (not always_run, marked cancelled) moved {o["state"]} -> {j["state"]}')
    ws = obs.op.split()
    if ws[0] == 'schedule' and obs.ans.startswith('ok'):
        j = p.jobs.get((int(ws[1]), int(ws[2])))
        inst = p.instances.get(f'inst{ws[4]}')
        if j and inst and j['always_run'] and j['state'] == 'Ready' and inst['state'] == 'active' and p.committed(j['batch_id'], j['update_id']):
            obs.tag('always-run-scheduled')
            if obs.ans != 'ok 0' or v.jobs[(j['batch_id'], j['job_id'])]['state'] != 'Running':
                return ('always-run-job-refused', f'always_run Ready job {j["job_id"]} was not started on an active instance: {obs.ans}')
    return None


# ---------------------------------------------------------------------------------------------------------------
# C06  completion of batches and job groups

def group_ancestors_as_declared(obs: 'Observer') -> Optional[Tuple[str, str]]:
    """after an accepted insertGroups: every new group's rows in job_group_self_and_ancestors (ordered by level) are the group itself
    followed by the ancestor chain of the parent its spec named — absolute id, or in-update id counted from the UPDATE's first group id
    (hailtop.batch_client: in_update_parent_id is relative to the update, whatever bunch the group travels in)"""
    p, v = obs.prev, obs.cur
    ws = obs.op.split()
    if ws[0] != 'insertGroups' or not obs.ans.startswith('ok') or p is None:
        return None
    b, upd = int(ws[1]), int(ws[2])
    u = v.updates.get((b, upd))
    if u is None:
        return None
    chain: Dict[int, List[int]] = {}
    for r in sorted((r for r in v.T['job_group_self_and_ancestors'] if r['batch_id'] == b), key=lambda r: r['level']):
        chain.setdefault(r['job_group_id'], []).append(r['ancestor_id'])
    first = None
    for t in ws[4:]:
        rel, absp, relp = t.split(';')
        g = u['start_job_group_id'] + int(rel) - 1
        first = g if first is None else first
        if (b, g) in p.groups or (b, g) not in v.groups:
            continue
        parent = int(absp) if absp != 'N' else u['start_job_group_id'] + int(relp) - 1
        if absp == 'N' and parent < first:
            obs.tag('group-with-in-update-parent-from-earlier-bunch')
        if absp == 'N':
            obs.tag('group-with-in-update-parent')
        want = [g] + chain.get(parent, [])
        if chain.get(g) != want:
            return ('group-ancestors-differ-from-declared-parent',
                    f'group {(b, g)} was declared with parent {parent}; its ancestor rows are {chain.get(g)}, expected {want}')
    return None


def c06(obs: Observer):
    v = obs.cur
    bad = group_ancestors_as_declared(obs)
    if bad is not None:
        return bad
    rec = tallies_recount(v, committed_only=True)
    njobs: Dict[Tuple[int, int], int] = {k: 0 for k in v.groups}
    live: Dict[Tuple[int, int], int] = {k: 0 for k in v.groups}
    for j in v.jobs.values():
        if not v.committed(j['batch_id'], j['update_id']):
            continue
        for g in v.anc.get((j['batch_id'], j['job_group_id']), []):
            kk = (j['batch_id'], g)
            njobs[kk] = njobs.get(kk, 0) + 1
            if j['state'] not in TERMINAL:
                live[kk] = live.get(kk, 0) + 1
    for k, g in v.groups.items():
        complete = g['state'] == 'complete'
        if g['n_jobs'] != njobs.get(k, 0):
            return (_name_class(obs, 'group-n_jobs-wrong'), f'job group {k}: n_jobs = {g["n_jobs"]}, committed jobs in the group and its descendants = {njobs.get(k, 0)}')
        if complete != (live.get(k, 0) == 0):
            return (_name_class(obs, 'group-completion-flag-wrong'),
                    f'job group {k} is {g["state"]} while {live.get(k, 0)} of its {njobs.get(k, 0)} committed jobs are not terminal')
        t = v.tallies.get(k)
        have = [t['n_completed'], t['n_succeeded'], t['n_failed'], t['n_cancelled']] if t else [0, 0, 0, 0]
        if have != rec.get(k, [0, 0, 0, 0]):
            return (_name_class(obs, 'group-tallies-wrong'), f'job group {k}: tallies {have}, recount over committed terminal jobs {rec.get(k)}')
        if njobs.get(k, 0) and complete:
            obs.tag('group-complete')
    for b, bt in v.batches.items():
        k = (b, 0)
        if bt['n_jobs'] != njobs.get(k, 0):
            return (_name_class(obs, 'batch-n_jobs-wrong'), f'batch {b}: n_jobs = {bt["n_jobs"]}, committed jobs = {njobs.get(k, 0)}')
        if (bt['state'] == 'complete') != (live.get(k, 0) == 0):
            return (_name_class(obs, 'batch-completion-flag-wrong'),
                    f'batch {b} is {bt["state"]} while {live.get(k, 0)} of its {njobs.get(k, 0)} committed jobs are not terminal')
    ws = obs.op.split()
    if ws[0] == 'commit' and obs.ans == 'ok 0' and obs.prev is not None:
        b, u = int(ws[1]), int(ws[2])
        if not obs.prev.committed(b, u):
            touched = {a for j in v.jobs.values() if j['batch_id'] == b and j['update_id'] == u for a in v.anc.get((b, j['job_group_id']), [])}
            for g in touched:
                obs.tag('commit-reopens')
                if v.groups[(b, g)]['state'] != 'running' and live.get((b, g), 0):
                    return ('commit-did-not-reopen-group', f'commit of update {u} left group {(b, g)} complete')
    return None


def c06_reports(obs: Observer):
    """the real reporting path: _get_batch / _get_job_group (real SELECT + batch_record_to_dict / job_group_record_to_dict)"""
    w = obs.w
    v = obs.cur
    rec = tallies_recount(v, committed_only=True)
    for b, bt in v.batches.items():
        if bt['deleted']:
            continue
        try:
            d = w.run(w.fe._get_batch(w.app, b))
        except AssertionError as e:
            return ('report-assertion-fired', f'_get_batch({b}) -> batch_record_to_dict asserted: {e!r}')
        live = [j for j in v.jobs.values() if j['batch_id'] == b and v.committed(b, j['update_id']) and j['state'] not in TERMINAL]
        if d['complete'] != (not live):
            return (_name_class(obs, 'reported-batch-completion-wrong'), f'_get_batch({b}) reports complete={d["complete"]} with {len(live)} live committed jobs')
        r = rec.get((b, 0), [0, 0, 0, 0])
        if [d['n_completed'], d['n_succeeded'], d['n_failed'], d['n_cancelled']] != r:
            return (_name_class(obs, 'reported-batch-counts-wrong'), f'_get_batch({b}) reports {[d["n_completed"], d["n_succeeded"], d["n_failed"], d["n_cancelled"]]}, recount {r}')
    for (b, g), grp in v.groups.items():
        if v.batches[b]['deleted'] or (g != 0 and not v.committed(b, grp['update_id'])):
            continue
        try:
            d = w.run(w.fe._get_job_group(w.app, b, g))
        except AssertionError as e:
            return ('report-assertion-fired', f'_get_job_group({b}, {g}) -> job_group_record_to_dict asserted: {e!r}')
        live = [j for j in v.jobs.values() if j['batch_id'] == b and v.in_subtree(j, g) and v.committed(b, j['update_id']) and j['state'] not in TERMINAL]
        if d['complete'] != (not live):
            return (_name_class(obs, 'reported-group-completion-wrong'), f'_get_job_group({b}, {g}) reports complete={d["complete"]} with {len(live)} live committed jobs')
        r = rec.get((b, g), [0, 0, 0, 0])
        if [d['n_completed'], d['n_succeeded'], d['n_failed'], d['n_cancelled']] != r:
            return (_name_class(obs, 'reported-group-counts-wrong'), f'_get_job_group({b}, {g}) reports counts differing from the recount {r}')
    return None


def c06_final(obs: Observer):
    return c06_reports(obs)


# ---------------------------------------------------------------------------------------------------------------
# C07  cancellation

def c07(obs: Observer):
    p, v = obs.prev, obs.cur
    ws = obs.op.split()
    scenario_tags(obs)
    if ws[0] in ('insertGroups', 'insertJobs') and (int(ws[1]), 0) in p.cancelled and p.updates.get((int(ws[1]), int(ws[2]))) and \
            not p.updates[(int(ws[1]), int(ws[2]))]['committed']:
        # the batch was cancelled while this update is still being submitted
        obs.tag(f'{ws[0]}-of-open-update-after-cancel-of-the-batch')
        if ws[0] == 'insertGroups' and any(t.split(';')[1] == 'N' for t in ws[4:]):
            obs.tag('insertGroups-with-in-update-parent-after-cancel-of-the-batch')
    # (1) no start after cancel
    for k, j in v.jobs.items():
        o = p.jobs.get(k)
        if o is None:
            # (2) nothing can be added beneath a cancelled group
            if p.group_cancelled(j['batch_id'], j['job_group_id']):
                return ('job-inserted-under-cancelled-group', f'job {k} was inserted into group {j["job_group_id"]} which has a cancelled ancestor')
            continue
        if j['state'] in ('Creating', 'Running') and o['state'] != j['state'] and not j['always_run'] and \
                p.group_cancelled(j['batch_id'], j['job_group_id']):
            return ('job-started-after-cancel', f'job {k} under a cancelled group moved {o["state"]} -> {j["state"]} by `{obs.op}`')
    for k, g in v.groups.items():
        if k not in p.groups:
            par = [a for a in v.anc.get(k, []) if a != k[1]]
            if any((k[0], a) in p.cancelled for a in par):
                return ('group-inserted-under-cancelled-group', f'job group {k} was created beneath a cancelled group')
    for k in v.updates:
        if k not in p.updates and (k[0], 0) in p.cancelled:
            return ('update-opened-on-cancelled-batch', f'update {k} was opened on a cancelled batch')
    # (3) repeating a cancellation changes nothing; (4) siblings and ancestors are unaffected
    if ws[0] == 'cancel' and obs.ans.startswith('ok'):
        b, g = int(ws[1]), int(ws[2])
        obs.tag('cancel')
        if p.group_cancelled(b, g):
            obs.tag('repeat-cancel')
            t = obs.unchanged()
            if t is not None:
                return ('repeat-cancel-changed-state', f'cancelling group {(b, g)} again changed table {t}')
        else:
            if v.cancelled - p.cancelled != {(b, g)}:
                return ('cancel-marked-other-groups', f'cancel {(b, g)} added marks {sorted(v.cancelled - p.cancelled)}')
            if any((b, a) in p.cancelled for a in p.anc.get((b, g), [])) is False and any(
                    (b, d) in p.cancelled for d, anc in ((kk[1], aa) for kk, aa in p.anc.items() if kk[0] == b and g in aa and kk[1] != g)):
                obs.tag('cancel-ancestor-after-descendant')
            if p.T['jobs'] != v.T['jobs'] or p.T['job_groups'] != v.T['job_groups']:
                return ('cancel-changed-job-or-group-rows', f'cancel {(b, g)} changed rows of jobs / job_groups')
            # user counters of other (user, inst_coll) pairs and cancellable rows of groups outside the subtree and its ancestors
            sub = {kk[1] for kk, aa in p.anc.items() if kk[0] == b and g in aa}
            ancs = set(p.anc.get((b, g), []))
            pc, vc = stored_cancellable(p), stored_cancellable(v)
            for kk in set(pc) | set(vc):
                if kk[0] == b and (kk[2] in sub or kk[2] in ancs):
                    continue
                if pc.get(kk) != vc.get(kk):
                    return ('cancel-touched-sibling-group', f'cancel {(b, g)} changed the cancellable counters of group {(kk[0], kk[2])} outside the subtree')
    if ws[0] == 'cancel' and obs.ans == 'err':
        t = obs.unchanged()
        if t is not None:
            return ('rejected-cancel-changed-state', f'a rejected cancel changed table {t}')
    # (5) scheduling / creating / starting requests are answered for jobs under any combination of cancelled groups
    if ws[0] in ('schedule', 'creating', 'started'):
        for line, errno, msg in obs.new_sql_errors():
            j = p.jobs.get((int(ws[1]), int(ws[2])))
            if j is not None and errno not in (1452,):
                n = sum(1 for a in p.anc.get((j['batch_id'], j['job_group_id']), []) if (j['batch_id'], a) in p.cancelled)
                cls = 'request-fails-with-1242-when-two-ancestors-cancelled' if errno == 1242 and n >= 2 else f'request-fails-with-sql-error-{errno}'
                return (cls, f'`{obs.op}` for a job whose group has {n} cancelled ancestors-or-self was answered with MySQL error {errno}: {msg}')
    # the SQL function agrees with the predicate computed from the tables
    for (b, g) in v.groups:
        try:
            r = obs.w.query('SELECT is_job_group_cancelled(%s, %s) AS c', (b, g))[0]['c']
        except Exception as e:   # noqa: BLE001   (a MySQL error raised by the service's own function is a finding, not a harness failure)
            n = sum(1 for a in v.anc.get((b, g), []) if (b, a) in v.cancelled)
            return ('is_job_group_cancelled-raises', f'SELECT is_job_group_cancelled({b}, {g}) for a group with {n} cancelled ancestors-or-self '
                                                     f'raised {type(e).__name__}{e.args}')
        if bool(r) != v.group_cancelled(b, g):
            return ('is_job_group_cancelled-disagrees', f'is_job_group_cancelled({b}, {g}) = {r}, ancestor walk over the tables = {v.group_cancelled(b, g)}')
    return None


# ---------------------------------------------------------------------------------------------------------------
# C08  accepted job graphs can always finish

def c08(obs: Observer):
    p, v = obs.prev, obs.cur
    ws = obs.op.split()
    if ws[0] == 'commit' and obs.ans == 'ok 0' and int(ws[2]) >= 2:
        b, u = int(ws[1]), int(ws[2])
        for k, j in v.jobs.items():
            if k[0] == b and j['update_id'] == u:
                for par in v.parents.get(k, []):
                    pj = v.jobs.get((b, par))
                    if pj is not None and pj['state'] not in TERMINAL:
                        obs.tag(f'commit-of-later-update-while-parent-is-{pj["state"]}')
    if ws[0] == 'insertJobs':
        new = [j for k, j in v.jobs.items() if k not in p.jobs]
        if obs.case.get('adv') and obs.op not in [h[0] for h in obs.history[:-1]]:
            obs.tag('adv:' + obs.case['adv'])
        for t in ws[4:]:
            f = t.split(';')
            if f[1].startswith('L'):
                obs.tag('parents-spelled-parent_ids' + (':hostile' if obs.case.get('adv') else ''))
            elif f[1]:
                obs.tag('parents-spelled-absolute_parent_ids' + (':hostile' if obs.case.get('adv') else ''))
            if f[2]:
                obs.tag('parents-spelled-in_update_parent_ids' + (':hostile' if obs.case.get('adv') else ''))
        if obs.ans == 'err':
            t = obs.unchanged()
            if t is not None:
                return ('rejected-submission-changed-state', f'a rejected insertJobs changed table {t}')
            reason = str(getattr(obs.w.last_error, 'reason', '') or '')
            for needle, tag in (('is not in the range', 'rejected:job-id-outside-reserved-range'),
                                ('invalid in-update parent id', 'rejected:in-update-parent-not-earlier'),
                                ('has invalid parent id', 'rejected:absolute-parent-not-earlier')):
                if needle in reason:
                    obs.tag(tag)
        if new:
            obs.tag('bunch-accepted')
        for j in new:
            b = j['batch_id']
            u = v.updates.get((b, j['update_id']))
            if u is None or not (u['start_job_id'] <= j['job_id'] < u['start_job_id'] + u['n_jobs']):
                return ('accepted-job-id-outside-update-range', f'job {j["job_id"]} accepted into update {j["update_id"]} whose range is '
                                                                f'[{u["start_job_id"]}, {u["start_job_id"] + u["n_jobs"]})' if u else 'no update')
            reserved = [(x['update_id'], x['start_job_id'], x['start_job_id'] + x['n_jobs']) for k2, x in v.updates.items() if k2[0] == b]
            for par in v.parents.get((b, j['job_id']), []):
                if par == j['job_id']:
                    return ('accepted-self-parent', f'job {j["job_id"]} accepted with itself as parent')
                if par > j['job_id']:
                    return ('accepted-later-parent', f'job {j["job_id"]} accepted with later parent {par}')
                owner = [uid for uid, lo, hi in reserved if lo <= par < hi]
                if par < 1 or not owner:
                    return ('accepted-missing-parent', f'job {j["job_id"]} accepted with parent {par}, an id no update of the batch has reserved')
                if (b, par) not in v.jobs:
                    # the id is an earlier, reserved one; the row is not there (yet).  Same update: another bunch of the update, sent
                    # concurrently by the real client — the update cannot be committed before that bunch arrives (count check), not a
                    # violation.  Earlier update: that update's bunch was never inserted — the out-of-order family.
                    if owner[0] == j['update_id']:
                        obs.tag('parent-in-bunch-not-yet-inserted')
                    else:
                        return ('accepted-parent-in-uninserted-earlier-update',
                                f'job {j["job_id"]} of update {j["update_id"]} accepted with parent {par}: an id reserved by update {owner[0]}, '
                                f'whose job row does not exist')
    if ws[0] == 'insertGroups' and obs.ans == 'err':
        t = obs.unchanged()
        if t is not None:
            return ('rejected-submission-changed-state', f'a rejected insertGroups changed table {t}')
    return None


def c08_final(obs: Observer):
    """every committed batch whose jobs all had their chance is complete: a committed job still Pending although no parent of it is
    live can never finish"""
    v = obs.cur
    for k, j in v.jobs.items():
        if j['state'] == 'Pending' and v.committed(j['batch_id'], j['update_id']):
            ps = v.parents.get(k, [])
            live = [x for x in ps if (k[0], x) in v.jobs and v.jobs[(k[0], x)]['state'] not in TERMINAL and x != k[1]]
            if not live:
                return (_name_class(obs, 'committed-job-can-never-leave-pending', k), f'job {k} of a committed update is Pending with n_pending_parents = '
                                                                 f'{j["n_pending_parents"]} and no live parent (parents {ps})')
    return None


# ---------------------------------------------------------------------------------------------------------------
# C09  idempotent submission; contiguous ranges

def c09(obs: Observer):
    p, v = obs.prev, obs.cur
    ws = obs.op.split()
    earlier = [a for o, a in obs.history[:-1] if o == obs.op]
    if ws[0] in ('createBatch', 'createUpdate', 'insertGroups', 'insertJobs', 'commit') and earlier:
        obs.tag('resent:' + ws[0])
        accepted = [a for a in earlier if a.startswith('ok') and not (ws[0] == 'commit' and a != 'ok 0')]
        if accepted:
            t = obs.unchanged()
            if t is not None:
                return (f're-sent-{ws[0]}-changed-state', f're-sending `{obs.op}` (answered {accepted[0]} before) changed table {t}')
            deleted = ws[0] == 'createUpdate' and (p.batches.get(int(ws[1])) or {}).get('deleted')
            # (a deleted batch answers 404 to everything, also to a re-sent update request: repo commit 4c50f4344)
            if ws[0] in ('createBatch', 'createUpdate') and obs.ans != accepted[0] and not deleted:
                return (f're-sent-{ws[0]}-answered-differently', f're-sending `{obs.op}` answered {obs.ans}, first answer {accepted[0]}')
            if ws[0] in ('insertGroups', 'insertJobs') and not obs.ans.startswith('ok'):
                # a bunch that was accepted is accepted again (the client retries after a lost answer) as long as nothing else happened to
                # the batch: not deleted, the update still open, no job group cancelled (those legitimately answer 4xx)
                b, u = int(ws[1]), int(ws[2])
                bt, up = p.batches.get(b), p.updates.get((b, u))
                if bt and not bt['deleted'] and up and not up['committed'] and not any(k[0] == b for k in p.cancelled):
                    if ws[0] == 'insertGroups':
                        # _create_job_groups answers 400 'job group specs were not submitted in order' to a re-sent bunch: the state is
                        # untouched (checked above), which is all the property asks; recorded in the distribution only
                        obs.tag('resent-group-bunch-answered-400')
                        return None
                    return (f're-sent-{ws[0]}-answered-differently', f're-sending the accepted bunch `{obs.op}` answered {obs.ans}')
    # client_ids_agree: the ids a client derives from the answer (update id, first job id, first group id of the update; absolute id of
    # its k-th job = start + k - 1, hailtop.batch_client.aioclient) are the ids of the rows — on the first send and on every re-send
    if ws[0] == 'createUpdate' and obs.ans.startswith('ok'):
        a = obs.ans.split()
        row = v.updates.get((int(ws[1]), int(a[1]))) if len(a) == 4 else None
        if row is None or [row['start_job_id'], row['start_job_group_id']] != [int(a[2]), int(a[3])] or row['token'] != f'utok{ws[2]}':
            return ('client-ids-disagree', f'`{obs.op}` answered {obs.ans} (update, first job id, first group id); the update row of that token is '
                                           f'{ {k: row[k] for k in ("update_id", "start_job_id", "start_job_group_id", "token")} if row else None}')
        if row['n_jobs'] and row['n_job_groups'] and row['start_job_id'] != row['start_job_group_id']:
            obs.tag('update-with-different-start-ids' + (':resent' if earlier else ''))
    per: Dict[int, List[dict]] = {}
    for (b, u), r in v.updates.items():
        per.setdefault(b, []).append(r)
    for b, us in per.items():
        us.sort(key=lambda r: r['update_id'])
        sj, sg = 1, 1
        for i, r in enumerate(us):
            if r['update_id'] != i + 1 or r['start_job_id'] != sj or r['start_job_group_id'] != sg:
                return ('update-ranges-not-contiguous', f'batch {b}: update {r["update_id"]} starts at job {r["start_job_id"]} / group '
                                                        f'{r["start_job_group_id"]}, expected {sj} / {sg}')
            sj += r['n_jobs']
            sg += r['n_job_groups']
    # no double counting: while an update is not committed, the staged job count at the root equals the job rows of the update
    staged: Dict[Tuple[int, int], int] = {}
    for r in v.T['job_groups_inst_coll_staging']:
        if r['job_group_id'] == 0:
            staged[(r['batch_id'], r['update_id'])] = staged.get((r['batch_id'], r['update_id']), 0) + r['n_jobs']
    count: Dict[Tuple[int, int], int] = {}
    for j in v.jobs.values():
        count[(j['batch_id'], j['update_id'])] = count.get((j['batch_id'], j['update_id']), 0) + 1
    for k, u in v.updates.items():
        if not u['committed'] and staged.get(k, 0) != count.get(k, 0):
            return ('staged-count-differs-from-job-rows', f'update {k}: staging counts {staged.get(k, 0)} jobs, {count.get(k, 0)} job rows exist')
        if u['committed'] and count.get(k, 0) != u['n_jobs']:
            return ('committed-update-job-count', f'committed update {k} has {count.get(k, 0)} job rows for n_jobs = {u["n_jobs"]}')
    for b, bt in v.batches.items():
        n = sum(u['n_jobs'] for k, u in v.updates.items() if k[0] == b and u['committed'])
        if bt['n_jobs'] != n:
            return ('batch-n_jobs-not-sum-of-committed-updates', f'batch {b}: n_jobs {bt["n_jobs"]} != {n}')
    return None


# ---------------------------------------------------------------------------------------------------------------
# C10  free cores

def c10(obs: Observer):
    v = obs.cur
    if obs.prev is not None:
        scenario_tags(obs)
    used: Dict[str, int] = {}
    for a in v.attempts.values():
        if a['end_time'] is None and a['instance_name'] is not None:
            j = v.jobs.get((a['batch_id'], a['job_id']))
            used[a['instance_name']] = used.get(a['instance_name'], 0) + (j['cores_mcpu'] if j else 0)
    for name, inst in v.instances.items():
        free = v.free.get(name)
        if inst['state'] in ('pending', 'active'):
            want = inst['cores_mcpu'] - used.get(name, 0)
            if used.get(name):
                obs.tag('instance-with-open-attempts')
            if free != want:
                cls = 'pending-instance-cores-not-released' if inst['state'] == 'pending' and free < want else \
                    f'{inst["state"]}-instance-free-cores-differ'
                return (cls, f'instance {name} ({inst["state"]}, {inst["cores_mcpu"]} mcpu): free_cores_mcpu = {free}, total minus un-ended attempts = {want}')
        elif free != inst['cores_mcpu']:
            return ('inactive-instance-not-all-free', f'instance {name} is {inst["state"]} with free_cores_mcpu = {free} of {inst["cores_mcpu"]}')
        mem = obs.w.instances.get(name)
        if mem is not None and mem.state in ('pending', 'active', 'inactive') and mem.state == inst['state'] and mem.free_cores_mcpu != free:
            return ('in-memory-mirror-differs:' + inst['state'], f'Instance {name} in memory has free_cores_mcpu = {mem.free_cores_mcpu}, the database {free}')
    return None


# ---------------------------------------------------------------------------------------------------------------
# C41  uncommitted updates have no effect

POOLS = ('standard', 'highcpu', 'highmem')


def scheduler_visible(w) -> List[Tuple[int, int]]:
    """(batch, job) pairs returned by the REAL scheduler SELECTs (pool.py: schedule_loop_body.user_runnable_jobs; job_private.py:
    create_instances_loop_body.user_runnable_jobs), LIMITs as in the source, run on the current tables"""
    from .world import sql_literal
    repo = w.repo
    q_groups = sql_literal(repo, 'driver/instance_collection/pool.py', 'ORDER BY job_groups.batch_id, job_groups.job_group_id;')
    q_ar = sql_literal(repo, 'driver/instance_collection/pool.py', "always_run = 1\nGROUP BY jobs.job_id, jobs.batch_id")
    q_nar = sql_literal(repo, 'driver/instance_collection/pool.py', "always_run = 0 AND cancelled = 0\nGROUP BY jobs.batch_id, inst_coll")
    jp_groups = sql_literal(repo, 'driver/instance_collection/job_private.py', "WHERE job_groups.user = %s AND job_groups.`state` = 'running';")
    jp_ar = sql_literal(repo, 'driver/instance_collection/job_private.py', 'always_run = 1 AND jobs.inst_coll = %s')
    jp_nar = sql_literal(repo, 'driver/instance_collection/job_private.py', 'always_run = 0 AND jobs.inst_coll = %s AND cancelled = 0')
    out = set()
    users = sorted({r['user'] for r in w.db.tables['batches']})
    for u in users:
        for g in w.query(q_groups, (u,)):
            for ic in POOLS:
                for r in w.query(q_ar, (g['batch_id'], g['job_group_id'], ic)):
                    out.add((g['batch_id'], r['job_id']))
                if not g['cancelled']:
                    for r in w.query(q_nar, (g['batch_id'], g['job_group_id'], ic)):
                        out.add((g['batch_id'], r['job_id']))
        for g in w.query(jp_groups, (u,)):
            for r in w.query(jp_ar, (g['batch_id'], g['job_group_id'], 'job-private', 300)):
                out.add((r['batch_id'], r['job_id']))
            if not g['cancelled']:
                for r in w.query(jp_nar, (g['batch_id'], g['job_group_id'], 'job-private', 300)):
                    out.add((r['batch_id'], r['job_id']))
    return sorted(out)


def c41(obs: Observer):
    v = obs.cur
    ws0 = obs.op.split()
    if ws0[0] == 'commit' and obs.ans == 'ok 0' and int(ws0[2]) >= 2:
        nxt = v.updates.get((int(ws0[1]), int(ws0[2]) + 1))
        if nxt is not None and not nxt['committed'] and (int(ws0[1]), nxt['start_job_id']) in v.jobs:
            # two non-initial updates open at once, adjacent id ranges, the earlier one is committed while the first job of the next is there
            obs.tag('commit-of-update-N>=2-while-first-job-of-open-update-N+1-is-inserted')
    obs.state.setdefault('views', []).append(v)
    vis = scheduler_visible(obs.w)
    if vis:
        obs.tag('scheduler-sees-jobs')
    for (b, j) in vis:
        job = v.jobs[(b, j)]
        if not v.committed(b, job['update_id']):
            # the two known mechanisms: a child activated by its parent's completion; a parentless job of update 1 (inserted Ready by
            # _create_jobs) when a later update was committed first.  Anything else is a different defect and keeps its own name.
            how = obs.left_pending.get((b, j), ('?', False))
            if v.parents.get((b, j)):
                # known: mark_job_complete of a parent moved the child of an uncommitted update out of Pending — only if that is what happened
                cls = 'complete-parent-while-child-update-uncommitted' if how == ('complete', True) else \
                    f'job-of-uncommitted-update-made-ready-by-{how[0]}'
            elif job['update_id'] == 1 and how[0] == 'insertJobs':
                cls = 'ready-job-of-uncommitted-update-in-running-group'      # known: parentless jobs of update 1 are inserted Ready
            else:
                cls = f'parentless-job-of-uncommitted-update-made-ready-by-{how[0]}'
            return (cls, f'the scheduler\'s SELECT returns job {(b, j)} of update {job["update_id"]}, which is not committed')
    if any(not u['committed'] for u in v.updates.values()) and v.jobs:
        obs.tag('uncommitted-update-present')
    # read side: what the REAL list queries of the front end return (v1 and v2 job listing of the root group, recursive; the job-group
    # listing) names only jobs / groups of committed updates — an open update is exactly as if it had not been started
    if any(not u['committed'] for u in v.updates.values()):
        import types
        w = obs.w
        req = types.SimpleNamespace(app=w.app)
        for b, bt in v.batches.items():
            if bt['deleted'] or not any(not u['committed'] for (bb, _), u in v.updates.items() if bb == b):
                continue
            for version in (1, 2):
                jobs, _ = w.run(w.fe._query_job_group_jobs(req, b, 0, version, '', None, True))
                obs.tag(f'job-list-v{version}-read-with-open-update')
                for x in jobs:
                    row = v.jobs.get((b, x['job_id']))
                    if row is not None and not v.committed(b, row['update_id']):
                        return (f'job-list-v{version}-shows-job-of-uncommitted-update',
                                f'the v{version} job listing of batch {b} (real parse_job_group_jobs_query_v{version}) returns job {x["job_id"]} of '
                                f'update {row["update_id"]}, which is not committed')
            # single-object GETs (the lookups behind GET job / job group; the attempts, log and spec routes start from the same lookup):
            # a committed job is served, a job of an uncommitted update is 404
            mine = sorted((k[1], j) for k, j in v.jobs.items() if k[0] == b)
            probe = [x for x in mine if not v.committed(b, x[1]['update_id'])][:3] + [x for x in mine if v.committed(b, x[1]['update_id'])][-3:]
            for jid, row in probe:
                try:
                    w.run(w.fe._get_job(w.app, b, jid))
                    served = True
                except Exception as e:   # noqa: BLE001
                    # 404 = the lookup found nothing; anything raised later (the stand-in file store has no status / spec files for finished
                    # jobs) means the lookup DID find the row
                    served = type(e).__name__ != 'HTTPNotFound'
                    if type(e).__module__.startswith('pymysql'):
                        raise
                obs.tag('get-job-read-with-open-update')
                if served != bool(v.committed(b, row['update_id'])):
                    return ('get-job-serves-job-of-uncommitted-update' if served else 'get-job-404-for-committed-job',
                            f'GET job ({b}, {jid}) (real _get_job) {"answers 200" if served else "answers 404"}; the job belongs to update '
                            f'{row["update_id"]}, which is {"committed" if v.committed(b, row["update_id"]) else "not committed"}')
            for (bb, g), grow in v.groups.items():
                if bb == b and g != 0 and grow['update_id'] is not None:
                    try:
                        w.run(w.fe._get_job_group(w.app, b, g))
                        served = True
                    except Exception as e:   # noqa: BLE001
                        if type(e).__name__ not in ('HTTPNotFound', 'NonExistentJobGroupError'):
                            raise
                        served = False
                    if served != bool(v.committed(b, grow['update_id'])):
                        return ('get-job-group-serves-group-of-uncommitted-update' if served else 'get-job-group-404-for-committed-group',
                                f'GET job group ({b}, {g}) (real _get_job_group) {"answers 200" if served else "answers 404"}; its update '
                                f'{grow["update_id"]} is {"committed" if v.committed(b, grow["update_id"]) else "not committed"}')
            try:
                groups, _ = w.run(w.fe._query_job_groups(req, b, 0, None))
            except Exception as e:   # noqa: BLE001
                if type(e).__name__ != 'NonExistentJobGroupError':
                    raise
                groups = []
            for x in groups:
                g = v.groups.get((b, x['job_group_id']))
                if g is not None and g['update_id'] is not None and not v.committed(b, g['update_id']):
                    return ('job-group-list-shows-group-of-uncommitted-update',
                            f'the job-group listing of batch {b} returns group {x["job_group_id"]} of update {g["update_id"]}, which is not committed')
    # a batch with no committed job is complete, like one that never had an update (whatever its spec announced, whatever is open)
    for b, bt in v.batches.items():
        if bt['n_jobs'] == 0 and not bt['deleted'] and not any(v.committed(b, j['update_id']) for j in v.jobs.values() if j['batch_id'] == b):
            if len(obs.op.split()) == 5 and obs.op.startswith('createBatch'):
                obs.tag('batch-created-with-announced-jobs')
            if bt['state'] != 'complete':
                return ('batch-without-committed-jobs-not-complete', f'batch {b} has no committed job (n_jobs = 0) but its state is {bt["state"]} '
                                                                     f'after `{obs.op}`')
    # an update that is merely open (created, not committed) has no effect on the completion of the committed part
    for b, bt in v.batches.items():
        open_ups = [u for (bb, _), u in v.updates.items() if bb == b and not u['committed']]
        cj = [j for j in v.jobs.values() if j['batch_id'] == b and v.committed(b, j['update_id'])]
        if open_ups and cj and len(cj) == bt['n_jobs'] and all(j['state'] in TERMINAL for j in cj):
            if any(u['n_jobs'] > 0 for u in open_ups):
                obs.tag('all-committed-jobs-terminal-while-an-update-with-jobs-is-open')
            if bt['state'] != 'complete' and not bt['deleted']:
                empty = [u['update_id'] for u in open_ups if not any(j['batch_id'] == b and j['update_id'] == u['update_id'] for j in v.jobs.values())]
                cls = 'open-update-keeps-committed-batch-from-completing' if len(empty) == len(open_ups) else \
                    _name_class(obs, 'batch-not-complete-although-all-committed-jobs-terminal')
                return (cls, f'batch {b}: all {len(cj)} committed jobs are terminal (n_jobs = {bt["n_jobs"]}) but its state is {bt["state"]} while '
                             f'update(s) {[u["update_id"] for u in open_ups]} are open (not committed)')
    return None


def _restricted(v: View, b: int, jr: range, gr: range):
    gr = range(0)          # the update's job groups are kept in both runs
    jobs = {k: (j['state'], j['cancelled'], j['n_pending_parents'], j['attempt_id']) for k, j in v.jobs.items()
            if not (k[0] == b and k[1] in jr)}
    groups = {}
    for k, g in v.groups.items():
        if k[0] == b and k[1] in gr:
            continue
        t = v.tallies.get(k)
        groups[k] = (g['state'], g['n_jobs'], (t['n_completed'], t['n_succeeded'], t['n_failed'], t['n_cancelled']) if t else None)
    batches = {k: (x['state'], x['n_jobs'], x['deleted']) for k, x in v.batches.items()}
    return {'jobs': jobs, 'groups': groups, 'batches': batches, 'user counters': stored_user(v),
            'cancel marks': sorted(x for x in v.cancelled if not (x[0] == b and x[1] in gr))}


def _belongs(op: str, b: int, u: int, jr: range, gr: range) -> Optional[str]:
    """None = keep; '' = drop; other = rewritten op (heartbeat with the update's attempts removed)"""
    ws = op.split()
    k = ws[0]
    # job groups are kept: group ids must be submitted in sequence, so the groups of later updates can only be created after them
    if k == 'insertJobs' and int(ws[1]) == b and int(ws[2]) == u:
        return ''
    if k in ('schedule', 'creating', 'started', 'complete', 'unschedule', 'addResources') and int(ws[1]) == b and int(ws[2]) in jr:
        return ''
    if k == 'heartbeat':
        keep = [t for t in ws[3:] if not (int(t.split(':')[0]) == b and int(t.split(':')[1]) in jr)]
        if len(keep) != len(ws) - 3:
            return ' '.join(ws[:3] + keep)
    return None


def _referenced(history, b: int, u: int, jr: range, gr: range) -> bool:
    """does a request of ANOTHER update name a job or group of update u (a parent job, a parent group, a job's group)?  Then the
    client itself built on the uncommitted update and erasing it changes what the client asked for."""
    for op, _ in history:
        ws = op.split()
        if ws[0] == 'insertJobs' and int(ws[1]) == b and int(ws[2]) != u:
            for t in ws[4:]:
                f = t.split(';')
                if any(int(x) in jr for x in f[1].lstrip('L').split(',') if x):
                    return True
    return False


def c41_final(obs: Observer):
    """erase the content of every update that was never committed and compare what the rest of the service can see"""
    from .world import World
    views: List[View] = obs.state.get('views', [])
    if not views:
        return None
    vend = obs.cur
    never = [(k, u) for k, u in vend.updates.items() if not u['committed'] and
             any(j['batch_id'] == k[0] and j['update_id'] == k[1] for j in vend.jobs.values())]
    for (b, u), urow in never[:2]:
        jr = range(urow['start_job_id'], urow['start_job_id'] + urow['n_jobs'])
        gr = range(urow['start_job_group_id'], urow['start_job_group_id'] + urow['n_job_groups'])
        if _referenced(obs.history, b, u, jr, gr):
            obs.tag('erasure-skipped:later-request-refers-to-the-update')
            continue
        obs.tag('erasure-compared')
        w2 = World(0, obs.w.repo)
        try:
            erased_sched = False
            for i, (op, ans) in enumerate(obs.history):
                r = _belongs(op, b, u, jr, gr)
                if r == '':
                    if op.split()[0] in ('schedule', 'started', 'creating') and ans == 'ok 0':
                        erased_sched = True
                    continue
                op2 = op if r is None else r
                w2.apply(op2)
                T = w2.db.tables
                v2 = View({n: [dict(x) for x in T[n]] for n in TABLES})
                a, c = _restricted(views[i], b, jr, gr), _restricted(v2, b, jr, gr)
                if a != c:
                    part = next(k for k in a if a[k] != c[k])
                    key = next((k for k in set(a[part]) | set(c[part]) if a[part].get(k) != c[part].get(k)), None) \
                        if isinstance(a[part], dict) else None
                    ws = op.split()
                    cls = 'uncommitted-update-changes-' + part.replace(' ', '-')
                    if ws[0] == 'complete' and any(ch in jr for ch in views[i].children.get((b, int(ws[2])), [])):
                        cls = 'complete-parent-while-child-update-uncommitted'
                    elif erased_sched and u == 1:
                        cls = 'ready-job-of-uncommitted-update-in-running-group'
                    return (cls, f'update {u} of batch {b} is never committed, yet after `{op}` the {part} differ from the run without its content: '
                                 f'{key}: with = {a[part].get(key) if key is not None else a[part]}, without = {c[part].get(key) if key is not None else c[part]}')
        finally:
            w2.close()
    return None

"""History generators for the E1 correspondence (SPEC.md): op lines of the BatchDB protocol.

`history(rng)` builds one history the way real ones arise: a client submits 1-3 updates (nested job groups to depth 4, 0-6 jobs per
update, DAG parents inside an update and into earlier updates, bunches re-sent, commits immediate / late / never) while the driver,
workers and background loops act on what is already there (schedule, creating/started, heartbeats, resources before or after start,
completion with any outcome, duplicated / stale / reordered worker messages, unschedule, cancellation of a sub-group and later of an
ancestor, instance deactivation mid-attempt, staging / cancellable cleanup and compaction at random points).

The generator keeps a *shadow* of ids and a rough guess of job states only to aim its messages (a wrong guess just produces one more
stale message); it never decides what the right answer is.  Restrictions imposed by the World (world.py): job (cores, inst_coll)
pairs the real resource-request code can produce; worker messages name instances that were created; unschedule reason = 'cancelled';
one resource id at most once per addResources message.

`adversarial(rng)` is the separate stream for C08/C09: schema-valid but hostile spec lists (missing / later / self parents, job ids
outside the reserved range, duplicate parents, unknown or later groups, empty updates, wrong users, re-sent and interleaved requests).
"""
from __future__ import annotations

import random
from typing import Any, Dict, List, Optional, Tuple

POOL_CORES = (250, 500, 1000, 2000, 4000)
JP_CORES = (1000, 2000)
TERMINAL = ('Success', 'Failed', 'Error', 'Cancelled')


class Shadow:
    def __init__(self, rng: random.Random):
        self.rng = rng
        self.cancel_bias = 0.0
        self.deep_groups = 0.1
        # targeted scenarios (act_special): probability per act() step and relative weights; a property check raises what it is about
        self.special = 0.08
        self.weights = {'late-unschedule': 1.0, 'orphan': 1.0, 'unschedule-orphan': 2.0, 'late-resources': 1.5, 'jp-cancel-path': 1.0,
                        'late-schedule': 1.0, 'dead-instance-attempt': 1.0, 'compact-cycle': 1.0, 'cancel-cleanup-cancel': 1.0,
                        'jp-timeout': 1.0, 'resources-again': 1.0, 'late-creating': 1.0, 'deactivate-at-end-time': 1.0}
        self.abs_in_update = 0.2       # share of in-update parents a bunch names by ABSOLUTE id (the legacy `parent_ids` form)
        self.legacy_spelling = 0.3     # share of specs with absolute parents that send them under the deprecated key `parent_ids` (L prefix)
        self.same_ms = 0.3             # probability that tick() may leave the clock where it is
        self.cancel_between_bunches = 0.05   # a cancel lands between two group bunches / between the groups and the jobs of an update
        self.jp_jobs = 0.2             # share of job-private jobs (explicit machine type: the `creating` path)
        self.group_bunches = 0.3       # probability that the job groups of an update are sent in several bunches
        self.ops: List[str] = []
        self.tags: List[str] = []
        self.date = 0
        self.ts = 100
        self.n_batches = 0
        self.tokens = 0
        self.batches: Dict[int, Dict[str, Any]] = {}
        self.jobs: Dict[Tuple[int, int], Dict[str, Any]] = {}
        self.instances: Dict[int, Dict[str, Any]] = {}
        self.next_inst = 7
        self.next_att = 11
        self.sent: List[str] = []          # worker / client messages that may be replayed later

    def emit(self, line: str, tag: Optional[str] = None, replayable=False):
        self.ops.append(line)
        if tag:
            self.tags.append(tag)
        if replayable:
            self.sent.append(line)

    def tick(self):
        # (0: two events in the same millisecond — driver and worker clocks are independent, equal timestamps do happen)
        self.ts += self.rng.choice([0, 1, 5, 10, 50] if self.rng.random() < self.same_ms else [1, 5, 10, 50])
        if self.rng.random() < 0.08:
            self.date += 1
        return self.ts

    # -- client -----------------------------------------------------------------------------------
    def create_batch(self, user=None):
        self.n_batches += 1
        self.tokens += 1
        user = user or self.rng.choice([1, 1, 2])
        bp = self.rng.choice([1, 2])
        b = self.n_batches
        self.batches[b] = {'user': user, 'bp': bp, 'updates': [], 'groups': {0: {'parent': None, 'depth': 0, 'update': None}}, 'n_jobs': 0,
                           'n_groups': 0, 'cancelled': set(), 'deleted': False, 'token': self.tokens}
        # the batch spec of create / create-fast announces the number of jobs of the first submission
        announced = self.rng.choice([0, 0, 1, 2, 3, 5])
        self.emit(f'createBatch {user} {bp} {self.tokens}' + (f' {announced}' if announced else ''), 'createBatch', replayable=True)
        return b

    def open_update(self, b, n_jobs, n_groups):
        B = self.batches[b]
        self.tokens += 1
        u = {'id': len(B['updates']) + 1, 'token': self.tokens, 'n_jobs': n_jobs, 'n_groups': n_groups, 'start_job': B['n_jobs'] + 1,
             'start_group': B['n_groups'] + 1, 'committed': False, 'bunches': []}
        B['updates'].append(u)
        B['n_jobs'] += n_jobs
        B['n_groups'] += n_groups
        self.emit(f'createUpdate {b} {u["token"]} {n_jobs} {n_groups} {B["user"]}', 'createUpdate', replayable=True)
        return u

    def insert_groups(self, b, u):
        B = self.batches[b]
        rng = self.rng
        specs = []
        for k in range(1, u['n_groups'] + 1):
            gid = u['start_group'] + k - 1
            # parent: an existing group (absolute) or an earlier group of this update (relative), depth <= 4
            # MAX_JOB_GROUPS_DEPTH = 2 (a group of depth 3 is answered 400 and takes the rest of the bunch with it): parents of depth < 2,
            # now and then (`deep_groups`) one level too deep to exercise that rejection
            lim = 3 if self.rng.random() < self.deep_groups else 2
            cands = [g for g, info in B['groups'].items() if info["depth"] < lim]
            parent = rng.choice(cands) if cands and rng.random() < 0.8 else 0
            if parent >= u['start_group'] and rng.random() < 0.7:
                specs.append(f'{k};N;{parent - u["start_group"] + 1}')
            else:
                specs.append(f'{k};{parent};0')
            B['groups'][gid] = {'parent': parent, 'depth': B['groups'][parent]['depth'] + 1, 'update': u['id']}
        if not specs:
            return
        if len(specs) > 1 and rng.random() < self.group_bunches:
            cut = rng.randint(1, len(specs) - 1)
            parts = [specs[:cut], specs[cut:]]
            if len(parts[1]) > 1 and rng.random() < 0.4:
                c2 = rng.randint(1, len(parts[1]) - 1)
                parts = [parts[0], parts[1][:c2], parts[1][c2:]]
        else:
            parts = [specs]
        for i, p in enumerate(parts):
            self.emit(f'insertGroups {b} {u["id"]} {B["user"]} ' + ' '.join(p), 'insertGroups', replayable=True)
            if rng.random() < 0.1:
                self.emit(self.ops[-1], 'dup:insertGroups')
            if rng.random() < self.cancel_between_bunches:
                # the batch (or a committed group) is cancelled while the update is still being submitted: between two group bunches, or
                # between the groups and the jobs
                g = rng.choice([0, 0] + [x for x, info in B['groups'].items() if info['update'] is not None and
                                         B['updates'][info['update'] - 1]['committed']])
                self.emit(f'cancel {b} {g}', 'cancel:between-bunches')
                B['cancelled'].add(g)

    def ancestors(self, b, g):
        out = []
        B = self.batches[b]
        while g is not None and g in B['groups']:
            out.append(g)
            g = B['groups'][g]['parent']
        return out

    def insert_jobs(self, b, u):
        B = self.batches[b]
        rng = self.rng
        specs = []
        for k in range(1, u['n_jobs'] + 1):
            jid = u['start_job'] + k - 1
            relp = sorted({p for p in range(1, k) if rng.random() < 0.3})
            absp = sorted({p for p in range(1, u['start_job']) if rng.random() < (0.25 if u['id'] > 1 else 0)})
            if k == 1 and rng.random() < 0.5:
                absp = []                    # the first job of an update is often a root of the update's graph
            groups = list(B['groups'])
            g = rng.choice(groups) if rng.random() < 0.7 else 0
            if g >= u['start_group'] and rng.random() < 0.6:
                gs = f'N;{g - u["start_group"] + 1}'
            else:
                gs = f'{g};0'
            ic = 2 if rng.random() < self.jp_jobs else rng.choice([0, 0, 0, 1])
            cores = rng.choice(JP_CORES if ic == 2 else POOL_CORES)
            ar = 1 if rng.random() < 0.2 else 0
            parents = absp + [u['start_job'] + p - 1 for p in relp]
            # some earlier jobs of the same update are named by absolute id (what the legacy `parent_ids` key does, also in update 1)
            moved = [p for p in relp if rng.random() < self.abs_in_update]
            relp = [p for p in relp if p not in moved]
            absp = sorted(absp + [u['start_job'] + p - 1 for p in moved])
            spell = 'L' if absp and rng.random() < self.legacy_spelling else ''
            specs.append(f'{k};{spell}{",".join(map(str, absp))};{",".join(map(str, relp))};{gs};{ar};{cores};{ic}')
            self.jobs[(b, jid)] = {'update': u['id'], 'group': g, 'parents': parents, 'ar': ar, 'cores': cores, 'ic': ic,
                                   'state': 'Ready' if (u['id'] == 1 and not parents) else 'Pending', 'attempt': None, 'inst': None,
                                   'inserted': False, 'done_parents': 0}
        if not specs:
            return
        if len(specs) > 2 and rng.random() < 0.5:
            cut = rng.randint(1, len(specs) - 1)
            parts = [specs[:cut], specs[cut:]]
            if rng.random() < 0.2:
                parts.reverse()              # bunches arrive out of order
        else:
            parts = [specs]
        u['bunches'] = parts

    def send_bunch(self, b, u):
        B = self.batches[b]
        if not u['bunches']:
            return False
        p = u['bunches'].pop(0)
        self.emit(f'insertJobs {b} {u["id"]} {B["user"]} ' + ' '.join(p), 'insertJobs', replayable=True)
        for t in p:
            self.jobs[(b, u['start_job'] + int(t.split(';')[0]) - 1)]['inserted'] = True
        if self.rng.random() < 0.12:
            self.emit(self.ops[-1], 'dup:insertJobs')
        return True

    def commit(self, b, u):
        self.emit(f'commit {b} {u["id"]}', 'commit', replayable=True)
        if not u['bunches']:
            u['committed'] = True
            for (bb, j), J in self.jobs.items():
                if bb == b and J['update'] == u['id'] and J['state'] == 'Pending':
                    if all(self.jobs.get((b, p), {}).get('state') in TERMINAL for p in J['parents']):
                        J['state'] = 'Ready'

    # -- instances ----------------------------------------------------------------------------------
    def new_instance(self, pool: bool, activate=True, cores: Optional[int] = None):
        n = self.next_inst
        self.next_inst += 1
        if cores is None:
            cores = self.rng.choice([4000, 8000, 16000]) if pool else self.rng.choice([1000, 2000])
        self.instances[n] = {'pool': pool, 'state': 'pending', 'cores': cores}
        self.emit(f'newInstance {n} {cores} {1 if pool else 0}', 'newInstance')
        if activate:
            self.instances[n]['state'] = 'active'
            self.emit(f'activate {n}', 'activate')
        return n

    def pick_instance(self, pool: Optional[bool] = None, states=('active',)):
        c = [n for n, i in self.instances.items() if i['state'] in states and (pool is None or i['pool'] == pool)]
        return self.rng.choice(c) if c else None

    # -- driver / workers ---------------------------------------------------------------------------
    def visible(self, b, J):
        B = self.batches[b]
        return B['updates'][J['update'] - 1]['committed'] and J['inserted']

    def scheduler_visible(self, b, J):
        B = self.batches[b]
        if B['updates'][J['update'] - 1]['committed']:
            return True
        # the job's group is running when a committed, unfinished job sits in it or below it
        for (bb, _), K in self.jobs.items():
            if bb == b and K['inserted'] and B['updates'][K['update'] - 1]['committed'] and K['state'] not in TERMINAL \
                    and J['group'] in self.ancestors(b, K['group']):
                return True
        return False

    def job_cancelled(self, b, J):
        B = self.batches[b]
        return not J['ar'] and any(a in B['cancelled'] for a in self.ancestors(b, J['group']))

    def finish(self, b, j, state):
        J = self.jobs[(b, j)]
        if J['attempt'] is not None:
            J['last'] = (J['attempt'], J['inst'])
            J['end_ts'] = self.ts
        J['state'] = state
        for (bb, c), C in self.jobs.items():
            if bb == b and j in C['parents'] and C['inserted']:
                C['done_parents'] += 1
                if C['state'] == 'Pending' and C['done_parents'] >= len(C['parents']):
                    C['state'] = 'Ready'       # (also for jobs of uncommitted updates: that is what the real code does)

    def act_special(self) -> bool:
        """one targeted scenario (all of them arise in the real system through message races):
        late-unschedule    the canceller selected a Running job, the job completed, then the CALL unschedule_job for that (ended) attempt arrives
        orphan             a second attempt id of a Running job shows up on another instance (schedule_job posted the job to a worker, the
                           procedure call failed / was repeated): `started` (or `schedule`, then maybe `started`) with a fresh attempt id
        unschedule-orphan  cancel_orphaned_attempts_loop_body unschedules such a recorded, started, non-current attempt
        late-resources     resources of an attempt are registered after it already has billed time: job_started lost and job_complete
                           first, or a heartbeat (billing update) before add_attempt_resources
        jp-cancel-path     job-private path: pending instance -> creating -> the job's group is cancelled (a single cancelled ancestor) ->
                           instance activates -> schedule_job for the Creating job
        late-schedule      driver.job.schedule_job posts the job to the worker BEFORE it calls the procedure: a fast job reports started and
                           complete first, then `CALL schedule_job` arrives with the SAME attempt id for the finished job (instance still
                           active); likewise after the canceller unscheduled that attempt of a cancelled job
        dead-instance-attempt  an attempt is recorded for the first time on an instance that is already inactive / deleted: the job was posted,
                           the worker was preempted, then `CALL schedule_job`; or a late job_started / job_complete of a dead worker carrying an
                           attempt id the database has never seen
        compact-cycle      billing heartbeat for a running, started job with registered resources, then the compaction loops: the same
                           (billing project, user, resource) key is compacted again and again with usage in between"""
        rng = self.rng
        jobs = [(k, J) for k, J in self.jobs.items() if J['inserted']]
        running = [(k, J) for k, J in jobs if J['state'] == 'Running' and J['attempt'] is not None]
        cands = {}
        done = [(k, J) for k, J in jobs if J['state'] in TERMINAL and J.get('last')]
        if done:
            cands['late-unschedule'] = done
        if running:
            cands['orphan'] = running
        orph = [(k, J) for k, J in jobs if J.get('orphans')]
        if orph:
            cands['unschedule-orphan'] = orph
        nores = [(k, J) for k, J in running if J.get('res') != J['attempt']]
        if nores:
            cands['late-resources'] = nores
        jp = [(k, J) for k, J in jobs if J['state'] == 'Ready' and J['ic'] == 2 and not J['ar'] and self.scheduler_visible(k[0], J)
              and not self.job_cancelled(k[0], J) and not self.batches[k[0]]['deleted']]
        if jp:
            cands['jp-cancel-path'] = jp
            cands['jp-timeout'] = jp
        late = [(k, J) for k, J in done if self.instances.get(J['last'][1], {}).get('state') == 'active' and not self.job_cancelled(k[0], J)]
        late += [(k, J) for k, J in jobs if J.get('unsched') and J['state'] == 'Ready' and self.job_cancelled(k[0], J)
                 and self.instances.get(J['unsched'][1], {}).get('state') == 'active']
        # ... or a Running job whose group gets cancelled now: the canceller unschedules its attempt, then the late CALL arrives
        late += [(k, J) for k, J in running if not J['ar'] and not self.batches[k[0]]['cancelled'] and not self.batches[k[0]]['deleted']
                 and self.instances.get(J['inst'], {}).get('state') == 'active' and self.visible(k[0], J)]
        if late:
            cands['late-schedule'] = late
        dead = [n for n, i in self.instances.items() if i['state'] in ('inactive', 'deleted') and i['pool']]
        vis_ready = [(k, J) for k, J in jobs if J['state'] == 'Ready' and J['ic'] != 2 and self.scheduler_visible(k[0], J)
                     and not self.job_cancelled(k[0], J)]
        if dead and vis_ready:
            cands['dead-instance-attempt'] = vis_ready
        billable = [(k, J) for k, J in running if J.get('res') == J['attempt']]
        if billable:
            cands['compact-cycle'] = billable
            cands['resources-again'] = billable
        at_end = [(k, J) for k, J in done if J.get('end_ts') is not None and self.instances.get(J['last'][1], {}).get('state') == 'active']
        if at_end:
            cands['deactivate-at-end-time'] = at_end
        done_jp = [(k, J) for k, J in jobs if J['state'] in TERMINAL and J['ic'] == 2 and not self.job_cancelled(k[0], J)
                   and any(kk[0] == k[0] and JJ['state'] not in TERMINAL and self.visible(kk[0], JJ) for kk, JJ in jobs)]
        if done_jp:
            cands['late-creating'] = done_jp
        live_batches = [b for b, B in self.batches.items() if not B['deleted'] and 0 not in B['cancelled'] and
                        any(k[0] == b and J['state'] in ('Ready', 'Running', 'Creating') and self.visible(b, J) for k, J in jobs)]
        if len(live_batches) >= 2:
            cands['cancel-cleanup-cancel'] = [((b, 0), None) for b in live_batches]
        names = [n for n in cands if self.weights.get(n, 0) > 0]
        if not names:
            return False
        name = rng.choices(names, [self.weights[n] for n in names])[0]
        (b, j), J = rng.choice(cands[name])
        ts = self.tick()
        d = self.date
        if name == 'cancel-cleanup-cancel':
            # one batch is cancelled, the driver's periodic cleanup of cancellable-resources rows runs, then ANOTHER batch (still holding
            # ready / running cancellable jobs) is cancelled
            others = [x for x in live_batches if x != b]
            for bb in (b, rng.choice(others)):
                B = self.batches[bb]
                g = 0 if rng.random() < 0.6 else rng.choice(list(B['groups']))
                self.emit(f'cancel {bb} {g}', 'cancel:two-batches')
                if B['groups'][g]['update'] is None or B['updates'][B['groups'][g]['update'] - 1]['committed']:
                    B['cancelled'].add(g)
                if bb == b:
                    self.emit('cleanupCancellable', 'background')
                    if rng.random() < 0.3:
                        self.emit('cleanupStaging', 'background')
            return True
        if name == 'late-unschedule':
            a, inst = J['last']
            self.emit(f'unschedule {b} {j} {a} {inst} {ts} cancelled {d}', 'unschedule:after-complete')
        elif name == 'orphan':
            others = [n for n, i in self.instances.items() if i['state'] == 'active' and i['pool'] == (J['ic'] != 2) and n != J['inst']]
            inst = rng.choice(others) if others else (self.new_instance(J['ic'] != 2) if rng.random() < 0.7 else J['inst'])
            a = self.next_att
            self.next_att += 1
            if rng.random() < 0.7:
                self.emit(f'started {b} {j} {a} {inst} {ts} {d}', 'orphan:started', replayable=True)
                J.setdefault('orphans', []).append((a, inst))
            else:
                self.emit(f'schedule {b} {j} {a} {inst}', 'orphan:schedule')
                if rng.random() < 0.6:
                    self.emit(f'started {b} {j} {a} {inst} {ts} {d}', 'orphan:started', replayable=True)
                    J.setdefault('orphans', []).append((a, inst))
        elif name == 'unschedule-orphan':
            a, inst = J['orphans'].pop(rng.randrange(len(J['orphans'])))
            self.emit(f'unschedule {b} {j} {a} {inst} {ts} cancelled {d}', 'unschedule:orphan', replayable=True)
        elif name == 'late-resources':
            a, inst = J['attempt'], J['inst']
            res = rng.sample([1, 2, 3, 4], rng.randint(1, 3))
            line = f'addResources {b} {j} {a} {d} ' + ' '.join(f'{x}:{rng.choice([1, 250, 1000, 3840])}' for x in res)
            if rng.random() < 0.5:
                # job_started was lost (or its resources were): job_complete carries start / end, the resources arrive afterwards
                st = rng.choice(['Success', 'Success', 'Failed', 'Error'])
                self.emit(f'complete {b} {j} {a} {inst} {st} {ts - rng.choice([5, 20, 50])} {ts} completed {d}', 'complete', replayable=True)
                self.finish(b, j, st)
            else:
                self.emit(f'started {b} {j} {a} {inst} {ts - rng.choice([5, 20])} {d}', 'started', replayable=True)
                self.emit(f'heartbeat {ts} {d} {b}:{j}:{a}', 'heartbeat', replayable=True)
            self.emit(line, 'addResources:after-billed-time', replayable=True)
            J['res'] = a
        elif name == 'late-schedule':
            if J['state'] in TERMINAL:
                a, inst = J['last']
                self.emit(f'schedule {b} {j} {a} {inst}', 'schedule:after-complete-same-attempt')
            elif J['state'] == 'Running':
                a, inst = J['attempt'], J['inst']
                B = self.batches[b]
                g = rng.choice(self.ancestors(b, J['group']))
                self.emit(f'cancel {b} {g}', 'cancel:running-job')
                if B['groups'][g]['update'] is None or B['updates'][B['groups'][g]['update'] - 1]['committed']:
                    B['cancelled'].add(g)
                self.emit(f'unschedule {b} {j} {a} {inst} {ts} cancelled {d}', 'unschedule:cancelled', replayable=True)
                J.update(state='Ready', attempt=None)
                self.emit(f'schedule {b} {j} {a} {inst}', 'schedule:after-unschedule-same-attempt')
            else:
                a, inst = J.pop('unsched')
                self.emit(f'schedule {b} {j} {a} {inst}', 'schedule:after-unschedule-same-attempt')
        elif name == 'dead-instance-attempt':
            inst = rng.choice([n for n, i in self.instances.items() if i['state'] in ('inactive', 'deleted') and i['pool']])
            a = self.next_att
            self.next_att += 1
            form = rng.random()
            if form < 0.5:
                self.emit(f'schedule {b} {j} {a} {inst}', 'schedule:on-dead-instance')
            elif form < 0.75:
                self.emit(f'started {b} {j} {a} {inst} {ts} {d}', 'started:from-dead-instance')
            else:
                st = rng.choice(['Success', 'Failed', 'Error'])
                self.emit(f'complete {b} {j} {a} {inst} {st} {ts - 20} {ts} completed {d}', 'complete:from-dead-instance')
                self.finish(b, j, st)
        elif name == 'compact-cycle':
            a, inst = J['attempt'], J['inst']
            if J.get('started') != a:
                self.emit(f'started {b} {j} {a} {inst} {ts - rng.choice([5, 20])} {d}', 'started', replayable=True)
                J['started'] = a
            for _ in range(rng.choice([1, 2, 2, 3])):
                t2 = self.tick()
                self.emit(f'heartbeat {t2} {self.date} {b}:{j}:{a}', 'heartbeat', replayable=True)
                if rng.random() < 0.5:
                    # the worker's next billing updates are committed WHILE the compaction loops run (between their transactions)
                    t3 = self.tick() + 1
                    self.ts = t3 + 4
                    self.emit(f'compact {t3} {self.date} {b}:{j}:{a}', 'compact:with-concurrent-billing-update')
                else:
                    self.emit('compact', 'compact:after-usage')
        elif name == 'resources-again':
            # the resources of an attempt are registered a second time with OTHER quantities after usage accrued (job-private: the driver
            # registers whole-machine figures in mark_job_creating, the worker's job_started sends its own; a repeated report with a
            # different resource list)
            a, inst = J['attempt'], J['inst']
            if J.get('started') != a:
                self.emit(f'started {b} {j} {a} {inst} {ts - rng.choice([5, 20])} {d}', 'started', replayable=True)
                J['started'] = a
            self.emit(f'heartbeat {self.tick()} {self.date} {b}:{j}:{a}', 'heartbeat', replayable=True)
            res = rng.sample([1, 2, 3, 4], rng.randint(2, 4))
            self.emit(f'addResources {b} {j} {a} {self.date} ' + ' '.join(f'{x}:{rng.choice([2, 500, 2000, 7680])}' for x in res),
                      'addResources:again-other-quantities')
            if rng.random() < 0.6:
                self.emit(f'heartbeat {self.tick()} {self.date} {b}:{j}:{a}', 'heartbeat', replayable=True)
        elif name == 'deactivate-at-end-time':
            # the instance is deactivated with the driver's timestamp EQUAL to (or a little before) the end time its worker reported for a
            # finished job: independent clocks
            a, inst = J['last']
            t = J['end_ts'] - rng.choice([0, 0, 0, 1, 5])
            self.emit(f'deactivate {inst} {rng.choice(["preempted", "deactivated"])} {t} {d}', 'deactivate:at-reported-end-time', replayable=True)
            self.instances[inst]['state'] = 'inactive'
            for k2, J2 in jobs:
                if J2['inst'] == inst and J2['state'] in ('Running', 'Creating'):
                    J2.update(state='Ready', attempt=None)
        elif name == 'late-creating':
            # a job-private job was selected Ready, its replacement instance is being created; meanwhile the late job_complete of its
            # previous (preempted) attempt made it terminal; then mark_job_creating for the new instance arrives
            inst = self.new_instance(False, activate=False)
            a = self.next_att
            self.next_att += 1
            self.emit(f'creating {b} {j} {a} {inst} {ts} {d}', 'creating:of-terminal-job')
        elif name == 'jp-timeout':
            # job-private instance that never activates: mark_job_creating on the pending instance, then the activation timeout
            inst = self.new_instance(False, activate=False)
            a = self.next_att
            self.next_att += 1
            self.emit(f'creating {b} {j} {a} {inst} {ts} {d}', 'creating')
            self.emit(f'deactivate {inst} activation_timeout {self.tick()} {self.date}', 'deactivate:pending-with-creating-job', replayable=True)
            self.instances[inst]['state'] = 'inactive'
        elif name == 'jp-cancel-path':
            inst = self.new_instance(False, activate=False)
            a = self.next_att
            self.next_att += 1
            B = self.batches[b]
            nonroot = [g for g in self.ancestors(b, J['group']) if g != 0]
            if nonroot and rng.random() < 0.5:
                # the cancel of a NON-ROOT ancestor lands between the creation of the instance and mark_job_creating
                g = rng.choice(nonroot)
                self.emit(f'cancel {b} {g}', 'cancel:before-creating')
                if B['groups'][g]['update'] is None or B['updates'][B['groups'][g]['update'] - 1]['committed']:
                    B['cancelled'].add(g)
                self.emit(f'creating {b} {j} {a} {inst} {ts} {d}', 'creating:after-cancel')
                if not self.job_cancelled(b, J):
                    J.update(state='Creating', attempt=a, inst=inst)
                if rng.random() < 0.5:
                    self.instances[inst]['state'] = 'active'
                    self.emit(f'activate {inst}', 'activate')
                return True
            self.emit(f'creating {b} {j} {a} {inst} {ts} {d}', 'creating')
            J.update(state='Creating', attempt=a, inst=inst)
            if rng.random() < 0.8:
                g = rng.choice(self.ancestors(b, J['group']))
                self.emit(f'cancel {b} {g}', 'cancel:while-creating')
                if B['groups'][g]['update'] is None or B['updates'][B['groups'][g]['update'] - 1]['committed']:
                    B['cancelled'].add(g)
            self.instances[inst]['state'] = 'active'
            self.emit(f'activate {inst}', 'activate')
            self.emit(f'schedule {b} {j} {a} {inst}', 'schedule:creating-job')
            if not self.job_cancelled(b, J):
                J['state'] = 'Running'
        return True

    def act(self):
        """one step of driver / worker / background activity"""
        rng = self.rng
        r = rng.random()
        if self.cancel_bias and rng.random() < self.cancel_bias:
            r = 0.65            # the cancellation branch (C07 / C39 want many cancels, also of nested groups in both orders)
        if self.special and rng.random() < self.special and self.act_special():
            return
        jobs = [(k, J) for k, J in self.jobs.items() if J['inserted']]
        # the driver only schedules what its SELECTs return: Ready jobs of running job groups of running batches.  That includes
        # (C41) Ready jobs of an update that is not committed yet when the batch / group is running because of another update
        ready = [(k, J) for k, J in jobs if J['state'] == 'Ready' and self.scheduler_visible(k[0], J)]
        running = [(k, J) for k, J in jobs if J['state'] in ('Running', 'Creating')]
        ts = self.tick()
        d = self.date
        if r < 0.30 and ready:
            (b, j), J = rng.choice(ready)
            if J['ic'] == 2:
                inst = self.pick_instance(pool=False, states=('pending', 'active')) or self.new_instance(False, activate=rng.random() < 0.4)
            else:
                inst = self.pick_instance(pool=True) or self.new_instance(True)
            a = self.next_att
            self.next_att += 1
            kind = rng.random()
            if self.instances[inst]['state'] == 'pending':
                self.emit(f'creating {b} {j} {a} {inst} {ts} {d}', 'creating')
                if not self.job_cancelled(b, J):
                    J.update(state='Creating', attempt=a, inst=inst)
                if rng.random() < 0.5:
                    self.instances[inst]['state'] = 'active'
                    self.emit(f'activate {inst}', 'activate')
                    self.emit(f'schedule {b} {j} {a} {inst}', 'schedule')
                    if J['state'] == 'Creating':
                        J['state'] = 'Running'
            elif kind < 0.03:
                # a request naming an instance that does not exist (foreign key of attempts)
                self.emit(rng.choice([f'schedule {b} {j} {a} 99', f'started {b} {j} {a} 99 {ts} {d}',
                                      f'complete {b} {j} {a} 99 Success {ts - 5} {ts} completed {d}']), 'unknown-instance')
            elif kind < 0.75:
                self.emit(f'schedule {b} {j} {a} {inst}', 'schedule')
                if not self.job_cancelled(b, J):
                    J.update(state='Running', attempt=a, inst=inst)
                if rng.random() < 0.7:
                    self.emit(f'started {b} {j} {a} {inst} {ts} {d}', 'started', replayable=True)
            else:
                self.emit(f'started {b} {j} {a} {inst} {ts} {d}', 'started', replayable=True)   # job_started overtakes schedule_job
                if not self.job_cancelled(b, J):
                    J.update(state='Running', attempt=a, inst=inst)
            if rng.random() < 0.5:
                res = rng.sample([1, 2, 3, 4], rng.randint(1, 3))
                self.emit(f'addResources {b} {j} {a} {d} ' + ' '.join(f'{x}:{rng.choice([1, 250, 1000, 3840])}' for x in res), 'addResources',
                          replayable=True)
                J['res'] = a
        elif r < 0.50 and running:
            (b, j), J = rng.choice(running)
            a, inst = J['attempt'], J['inst']
            st = rng.choice(['Success', 'Success', 'Success', 'Failed', 'Error'])
            start = ts - rng.choice([5, 20, 50])
            kind = rng.random()
            if kind < 0.08:
                # stale attempt id (a report for an attempt that is not the current one)
                self.emit(f'complete {b} {j} {a + 100} {inst} {st} {start} {ts} completed {d}', 'complete:stale-attempt')
            else:
                self.emit(f'complete {b} {j} {a} {inst} {st} {start} {ts} completed {d}', 'complete', replayable=True)
                self.finish(b, j, st)
                if rng.random() < 0.15:
                    self.emit(self.ops[-1], 'dup:complete')
                if rng.random() < 0.1:
                    self.emit(f'started {b} {j} {a} {inst} {start} {d}', 'started:after-complete')
        elif r < 0.58 and running:
            atts = rng.sample(running, min(len(running), rng.randint(1, 3)))
            self.emit(f'heartbeat {ts} {d} ' + ' '.join(f'{b}:{j}:{J["attempt"]}' for (b, j), J in atts), 'heartbeat', replayable=True)
        elif r < 0.64 and running:
            (b, j), J = rng.choice(running)
            self.emit(f'unschedule {b} {j} {J["attempt"]} {J["inst"]} {ts} cancelled {d}', 'unschedule', replayable=True)
            J.update(state='Ready', attempt=None)
        elif 0.64 <= r < 0.66:
            # cancellation: a sub-group first, later possibly an ancestor or the whole batch
            bs = [b for b, B in self.batches.items() if not B['deleted']]
            if bs:
                b = rng.choice(bs)
                B = self.batches[b]
                g = rng.choice(list(B['groups']))
                if B['cancelled'] and rng.random() < 0.6:
                    # a sub-group was cancelled before: now one of its ancestors (often the whole batch)
                    anc = [a for c in B['cancelled'] for a in self.ancestors(b, c) if a not in B['cancelled']]
                    g = rng.choice(anc) if anc else 0
                elif len(B['groups']) > 1 and rng.random() < 0.6:
                    g = rng.choice([x for x in B['groups'] if x != 0])
                self.emit(f'cancel {b} {g}', 'cancel', replayable=self.rng.random() < 0.3)
                if B['groups'][g]['update'] is None or B['updates'][B['groups'][g]['update'] - 1]['committed']:
                    B['cancelled'].add(g)
        elif 0.66 <= r < 0.77 or r < 0.10:
            # the canceller: cancelled Ready jobs are marked Cancelled; cancelled Running/Creating jobs are unscheduled
            c = [(k, J) for k, J in jobs if J['state'] == 'Ready' and self.visible(k[0], J) and self.job_cancelled(k[0], J)]
            if c:
                (b, j), J = rng.choice(c)
                self.emit(f'complete {b} {j} N N Cancelled N N cancelled {d}', 'complete:cancel-ready', replayable=True)
                self.finish(b, j, 'Cancelled')
            else:
                c = [(k, J) for k, J in running if self.job_cancelled(k[0], J)]
                if c and rng.random() < 0.25:
                    # the canceller selected the job while it was Ready; it has been scheduled in between
                    (b, j), J = rng.choice(c)
                    self.emit(f'complete {b} {j} N N Cancelled N N cancelled {d}', 'complete:cancel-ready-raced', replayable=True)
                    self.finish(b, j, 'Cancelled')
                elif c:
                    (b, j), J = rng.choice(c)
                    self.emit(f'unschedule {b} {j} {J["attempt"]} {J["inst"]} {ts} cancelled {d}', 'unschedule:cancelled', replayable=True)
                    J['unsched'] = (J['attempt'], J['inst'])
                    J.update(state='Ready', attempt=None)
        elif 0.77 <= r < 0.86:
            inst = self.pick_instance(states=('active', 'pending'))
            if inst is not None and len(self.instances) > 0:
                self.emit(f'deactivate {inst} {rng.choice(["preempted", "deactivated", "activation_timeout"])} {ts} {d}', 'deactivate',
                          replayable=True)
                self.instances[inst]['state'] = 'inactive'
                for k, J in jobs:
                    if J['inst'] == inst and J['state'] in ('Running', 'Creating'):
                        J.update(state='Ready', attempt=None)
                if rng.random() < 0.3:
                    self.emit(f'markDeleted {inst}', 'markDeleted')
                    self.instances[inst]['state'] = 'deleted'
        elif 0.86 <= r < 0.90 or r < 0.2:
            self.emit(rng.choice(['cleanupStaging', 'cleanupCancellable', 'compact']), 'background')
        elif r < 0.96 and self.sent:
            self.emit(rng.choice(self.sent), 'replay')           # an old message arrives (again)


def history(rng: random.Random, max_updates: int = 3, cancel_bias: float = 0.0, special: Optional[float] = None,
            weights: Optional[Dict[str, float]] = None, two_batches: float = 0.25, commit_modes=(0.6, 0.85), min_updates: int = 1,
            knobs: Optional[Dict[str, float]] = None) -> Dict[str, Any]:
    """commit_modes = (p_immediate, p_immediate + p_late): how an update that was sent completely is committed (rest: never);
    two_batches: probability of a second live batch (same or another user) next to the main one; knobs: Shadow attributes"""
    s = Shadow(rng)
    s.cancel_bias = cancel_bias
    if special is not None:
        s.special = special
    if weights:
        s.weights.update(weights)
    for k, v in (knobs or {}).items():
        setattr(s, k, v)
    if rng.random() < two_batches:
        # another batch lives next to the main one: committed, with ready jobs (its ids are independent of the main batch's)
        b0 = s.create_batch()
        u0 = s.open_update(b0, rng.randint(1, 3), rng.choice([0, 1, 2]))
        s.insert_groups(b0, u0)
        s.insert_jobs(b0, u0)
        while u0['bunches']:
            s.send_bunch(b0, u0)
        s.commit(b0, u0)
    b = s.create_batch()
    for _ in range(rng.choice([1, 1, 2])):
        s.new_instance(True)
    if rng.random() < 0.5:
        s.new_instance(False, activate=rng.random() < 0.5)
    n_updates = rng.randint(min(min_updates, max_updates), max_updates)
    pending_commits = []
    held = []                 # updates whose bunches are sent late (after a later update was committed)
    for k in range(n_updates):
        if s.batches[b]['deleted']:
            break
        n_jobs = rng.choice([0, 1, 2, 3, 3, 4, 5, 6])
        n_groups = rng.choice([0, 0, 1, 2, 3, 4]) if n_jobs else rng.choice([1, 2])
        u = s.open_update(b, n_jobs, n_groups)
        s.insert_groups(b, u)
        s.insert_jobs(b, u)
        if k + 1 < n_updates and rng.random() < 0.15:
            held.append(u)
            continue
        while u['bunches']:
            s.send_bunch(b, u)
            for _ in range(rng.choice([0, 0, 1, 2])):
                s.act()
        mode = rng.random()
        if mode < commit_modes[0]:
            s.commit(b, u)
            if rng.random() < 0.1:
                s.emit(s.ops[-1], 'dup:commit')
        elif mode < commit_modes[1]:
            pending_commits.append(u)          # committed late, after other activity
        # else: never committed
        for _ in range(rng.randint(2, 8)):
            s.act()
        if pending_commits and rng.random() < 0.6:
            s.commit(b, pending_commits.pop(0))
        if held and rng.random() < 0.7:
            h = held.pop(0)
            while h['bunches']:
                s.send_bunch(b, h)
            for _ in range(rng.randint(1, 5)):
                s.act()
            if rng.random() < 0.6:
                s.commit(b, h)
    for _ in range(rng.randint(3, 12)):
        s.act()
    for u in held:
        while u['bunches']:
            s.send_bunch(b, u)
        pending_commits.append(u)
    for u in pending_commits:
        if rng.random() < 0.7:
            s.commit(b, u)
            for _ in range(rng.randint(1, 5)):
                s.act()
    if rng.random() < 0.15:
        s.emit(f'delete {b}', 'delete')
        s.batches[b]['deleted'] = True
        for _ in range(rng.randint(0, 3)):
            s.act()
    return {'ops': s.ops, 'kind': 'history'}


def adversarial(rng: random.Random) -> Dict[str, Any]:
    """hostile but schema-valid submissions (C08 / C09)"""
    s = Shadow(rng)
    b = s.create_batch(user=1)
    s.new_instance(True)
    # a first, well-formed update so that later updates can point at existing / missing jobs
    if rng.random() < 0.6:
        u = s.open_update(b, 2, 1)
        s.insert_groups(b, u)
        s.insert_jobs(b, u)
        while u['bunches']:
            s.send_bunch(b, u)
        s.commit(b, u)
    B = s.batches[b]
    n = rng.randint(1, 3)
    kind = rng.choice(['missing-parent', 'later-parent', 'self-parent', 'id-out-of-range', 'dup-parents', 'empty-update', 'unknown-group',
                       'later-group', 'wrong-user', 'groups-out-of-order', 'abs-parent-in-future-update', 'zero-id',
                       # boundaries of the id checks of _create_jobs, and what they cannot see
                       'rel-parent-zero', 'abs-parent-zero', 'abs-parent-own-id', 'abs-parent-previous-id', 'id-just-above-range',
                       'parent-in-uninserted-earlier-update', 'parent-in-uninserted-earlier-update'])
    if rng.random() < 0.15 and B['updates']:
        # another user re-sends the owner's update token / tries to open an update on a batch that is not theirs
        s.emit(f'createUpdate {b} {B["updates"][0]["token"]} 2 0 2', 'adv:foreign-token')
        s.emit(f'createUpdate {b} {B["updates"][0]["token"]} 2 0 1', 'dup:createUpdate')
    if kind == 'empty-update':
        s.tokens += 1
        s.emit(f'createUpdate {b} {s.tokens} 0 0 1', 'adv:empty-update')
        u = s.open_update(b, 0, 1)
        s.emit(f'insertGroups {b} {u["id"]} 1 1;0;0', 'insertGroups')
        s.emit(f'commit {b} {u["id"]}', 'commit')
        return {'ops': s.ops, 'kind': 'adversarial', 'adv': kind}
    orphan_parent = None
    if kind == 'parent-in-uninserted-earlier-update':
        u0 = s.open_update(b, rng.randint(1, 2), 0)      # reserved, its bunch never sent (or sent after the child update committed)
        orphan_parent = u0['start_job']
    u = s.open_update(b, n, 1 if kind in ('later-group', 'groups-out-of-order') else 0)
    sj = u['start_job']
    usr = 2 if kind == 'wrong-user' else 1

    legacy = rng.random() < 0.4         # the hostile absolute ids are sent under the deprecated key `parent_ids`

    def spec(k, absp=(), relp=(), g='0;0', ar=0):
        return f'{k};{"L" if legacy and absp else ""}{",".join(map(str, absp))};{",".join(map(str, relp))};{g};{ar};1000;0'
    specs = [spec(k) for k in range(1, n + 1)]
    absolute = rng.random() < 0.5       # later / self parents named by absolute id instead of in-update id
    if kind == 'missing-parent':
        specs[0] = spec(1, absp=[sj + 40])
    elif kind == 'later-parent':
        specs[0] = spec(1, absp=[sj + (n if n == 1 else 1)]) if absolute else spec(1, relp=[n + 1 if n == 1 else 2])
    elif kind == 'self-parent':
        specs[-1] = spec(n, absp=[sj + n - 1]) if absolute else spec(n, relp=[n])
    elif kind == 'id-out-of-range':
        specs[-1] = spec(n + rng.randint(1, 5))
    elif kind == 'zero-id':
        specs[0] = spec(0)
    elif kind == 'dup-parents':
        if sj > 1:
            specs[-1] = spec(n, absp=[1, 1])
        elif n > 1:
            specs[-1] = spec(n, relp=[1, 1])
        else:
            specs[-1] = spec(n, absp=[sj + 3, sj + 3])
    elif kind == 'unknown-group':
        specs[0] = spec(1, g=f'{B["n_groups"] + 7};0')
    elif kind == 'later-group':
        specs[0] = spec(1, g='N;3')
    elif kind == 'abs-parent-in-future-update':
        specs[0] = spec(1, absp=[sj + n])
    elif kind == 'rel-parent-zero':
        specs[-1] = spec(n, relp=[0])
    elif kind == 'abs-parent-zero':
        specs[-1] = spec(n, absp=[0])
    elif kind == 'abs-parent-own-id':
        specs[-1] = spec(n, absp=[sj + n - 1])
    elif kind == 'abs-parent-previous-id' and sj + n - 2 >= 1:
        specs[-1] = spec(n, absp=[sj + n - 2])           # accepted: an earlier id (of this update: the legacy `parent_ids` form)
    elif kind == 'id-just-above-range':
        specs[-1] = spec(n + 1)
    elif kind == 'parent-in-uninserted-earlier-update':
        specs[0] = spec(1, absp=[orphan_parent])
    if kind == 'groups-out-of-order':
        s.emit(f'insertGroups {b} {u["id"]} 1 2;0;0', 'adv:groups-out-of-order')
        s.emit(f'insertGroups {b} {u["id"]} 1 1;0;0', 'insertGroups')
    elif u['n_groups']:
        s.emit(f'insertGroups {b} {u["id"]} 1 1;0;0', 'insertGroups')
    s.emit(f'insertJobs {b} {u["id"]} {usr} ' + ' '.join(specs), 'adv:' + kind)
    if rng.random() < 0.3:
        s.emit(s.ops[-1], 'dup:insertJobs')
    s.emit(f'commit {b} {u["id"]}', 'commit')
    if orphan_parent is not None and rng.random() < 0.5:
        # the earlier update arrives late
        s.emit(f'insertJobs {b} {u0["id"]} 1 ' + ' '.join(spec(k) for k in range(1, u0['n_jobs'] + 1)), 'insertJobs')
        s.emit(f'commit {b} {u0["id"]}', 'commit')
    # let the batch run: schedule / complete whatever can run, so that "can the batch finish" is observable
    for j in range(1, B['n_jobs'] + 6):
        a = s.next_att
        s.next_att += 1
        inst = s.pick_instance(pool=True)
        s.emit(f'schedule {b} {j} {a} {inst}', 'schedule')
        s.emit(f'complete {b} {j} {a} {inst} Success {s.tick()} {s.tick()} completed 0', 'complete')
    return {'ops': s.ops, 'kind': 'adversarial', 'adv': kind}


def submission(rng: random.Random, flavour: str = 'c39') -> Dict[str, Any]:
    """a client submits and commits 1-2 updates (small pool 'standard' jobs and some job-private jobs, nested groups, DAG parents,
    some always_run); then a script for the actors of harness/batchdb/actors.py.  flavour: 'c39' (everything), 'c05' (parents fail,
    the canceller's ready loop runs before the scheduler, more always_run children), 'c10' (placement events: in-flight preemption /
    started-first, orphans, late unschedules, job-private path)"""
    s = Shadow(rng)
    s.deep_groups = 0.0          # a well-behaved client: every request of the submission is accepted
    b = s.create_batch(user=1)
    exact_fit = None
    if flavour in ('c39', 'c10') and rng.random() < 0.35:
        # whole-worker jobs: the only pool instance has exactly the cores one of the jobs asks for
        exact_fit = rng.choice([1000, 2000])
        s.new_instance(True, cores=exact_fit)
    else:
        for _ in range(rng.choice([1, 2])):
            s.new_instance(True)
    if flavour == 'c41':
        # a multi-request batch whose first update is inserted but NEVER committed, next to a committed batch of the same user; both get
        # cancelled and the canceller's loops run
        ba = s.create_batch(user=1)
        ua = s.open_update(ba, rng.randint(1, 3), rng.choice([0, 0, 1]))
        s.insert_groups(ba, ua)
        s.insert_jobs(ba, ua)
        ua['bunches'] = [[';'.join(t.split(';')[:6] + [str(rng.choice([250, 500, 1000])), '0']) for t in part] for part in ua['bunches']]
        while ua['bunches']:
            s.send_bunch(ba, ua)
        bb = s.create_batch(user=1)
        ub = s.open_update(bb, rng.randint(1, 3), 0)
        s.insert_jobs(bb, ub)
        ub['bunches'] = [[';'.join(t.split(';')[:6] + [str(rng.choice([250, 500, 1000])), '0']) for t in part] for part in ub['bunches']]
        while ub['bunches']:
            s.send_bunch(bb, ub)
        s.commit(bb, ub)
        script = [rng.choice(['S', 'R'])] if rng.random() < 0.5 else []
        cancels = [f'C{ba} 0', f'C{bb} 0']
        rng.shuffle(cancels)
        for c in cancels:
            script.append(c)
            if rng.random() < 0.4:
                script.append(rng.choice(['R', 'S', 'U']))
        for _ in range(rng.randint(1, 5)):
            script.append(rng.choice(['R', 'R', 'K', 'U', 'S', 'WSuccess', 'O']))
        return {'ops': s.ops, 'kind': 'actors', 'actors': script, 'aseed': rng.randint(0, 10 ** 6)}
    jp_share = {'c39': 0.25, 'c05': 0.3, 'c10': 0.25, 'c07': 0.2}[flavour]
    for k in range(rng.choice([1, 1, 2])):
        n_jobs = rng.randint(2 if flavour == 'c05' else 1, 5)
        n_groups = rng.choice([2, 3, 4] if flavour == 'c07' else [0, 1, 2, 3])
        if flavour == 'c07':
            n_jobs = rng.randint(3, 6)           # several jobs spread over sibling groups
        u = s.open_update(b, n_jobs, n_groups)
        s.insert_groups(b, u)
        s.insert_jobs(b, u)
        # pool 'standard' (small jobs) or job-private
        fixed = []
        for part in u['bunches']:
            np_ = []
            for t in part:
                f = t.split(';')
                jid = u['start_job'] + int(f[0]) - 1
                if rng.random() < jp_share:
                    f[6], f[7] = str(rng.choice([1000, 2000])), '2'
                else:
                    f[6], f[7] = str(rng.choice([250, 500, 1000, 2000])), '0'
                if flavour == 'c05':
                    rel = int(f[0])
                    if rel > 1 and not f[1] and not f[2] and rng.random() < 0.7:
                        f[2] = str(rng.randint(1, rel - 1))          # most jobs have a parent ...
                        s.jobs[(b, jid)]['parents'] = [u['start_job'] + int(f[2]) - 1]
                    if (f[1] or f[2]) and rng.random() < 0.45:
                        f[5] = '1'                                   # ... and many children are always_run
                        s.jobs[(b, jid)]['ar'] = 1
                if exact_fit and f[7] == '0':
                    # every pool job fits the only worker; the first (and some more) take it entirely
                    f[6] = str(exact_fit) if int(f[0]) == 1 or rng.random() < 0.3 else str(rng.choice([c for c in (250, 500, 1000, 2000) if c <= exact_fit]))
                s.jobs[(b, jid)]['ic'] = int(f[7])
                np_.append(';'.join(f))
            fixed.append(np_)
        u['bunches'] = fixed
        while u['bunches']:
            s.send_bunch(b, u)
        s.commit(b, u)
    groups = list(s.batches[b]['groups'])
    script: List[str] = []
    if flavour == 'c07':
        # a second batch of the same user next to it, then: everything gets scheduled, ONE non-root group (or one batch) is cancelled,
        # the canceller's loops run
        if rng.random() < 0.5:
            b2 = s.create_batch(user=1)
            u2 = s.open_update(b2, rng.randint(1, 3), 0)
            s.insert_jobs(b2, u2)
            u2['bunches'] = [[';'.join(t.split(';')[:6] + [str(rng.choice([250, 500, 1000])), '0']) for t in part] for part in u2['bunches']]
            while u2['bunches']:
                s.send_bunch(b2, u2)
            s.commit(b2, u2)
        for _ in range(rng.randint(1, 3)):
            script.append(rng.choice(['S', 'S', 'J', 'Q']))
        nonroot = [g for g in groups if g != 0]
        for _ in range(rng.randint(1, 2)):
            tgt = rng.choice(nonroot) if nonroot and rng.random() < 0.8 else 0
            script.append(f'C{b} {tgt}')
            for _ in range(rng.randint(1, 4)):
                script.append(rng.choice(['U', 'U', 'K', 'R', 'S', 'WSuccess', 'O']))
        return {'ops': s.ops, 'kind': 'actors', 'actors': script, 'aseed': rng.randint(0, 10 ** 6)}
    if flavour == 'c05':
        for _ in range(rng.randint(5, 14)):
            r = rng.random()
            if r < 0.2:
                script.append('S')
            elif r < 0.32:
                script.append('J')
            elif r < 0.65:
                script.append('W' + rng.choice(['Failed', 'Error', 'Failed', 'Success']))
                if rng.random() < 0.6:
                    script.append('R')          # the canceller's ready loop gets there before the scheduler
            elif r < 0.85:
                script.append('R')
            elif r < 0.92:
                script.append(rng.choice(['U', 'O', 'D']))
            else:
                script.append(f'C{b} {rng.choice(groups)}')
        return {'ops': s.ops, 'kind': 'actors', 'actors': script, 'aseed': rng.randint(0, 10 ** 6)}
    for _ in range(rng.randint(4, 16)):
        r = rng.random()
        if r < 0.26:
            script.append('S')
        elif r < 0.32:
            script.append('P')
        elif r < (0.40 if flavour == 'c10' else 0.33):
            script.append('Q')
        elif r < (0.46 if flavour == 'c10' else 0.35):
            script.append('E' + rng.choice(['503', '503', '500', '404', 'timeout', 'conn']))
        elif r < 0.50:
            script.append('J' if rng.random() < 0.6 else 'Jtimeout')
        elif r < 0.64:
            script.append('W' + rng.choice(['Success', 'Success', 'Failed', 'Error']))
        elif r < 0.71:
            script.append(rng.choice(['R', 'U', 'O']))
        elif r < 0.76:
            script.append('D')
        elif r < 0.81:
            script.append('X')              # orphan attempt; the orphan loop usually runs soon after
            if rng.random() < 0.7:
                script.append('O')
        elif r < 0.85:
            script.append('L')
        elif r < 0.91:
            script.append('F')
        else:
            g = rng.choice(groups)
            script.append(f'C{b} {g}')
            if g != 0 and rng.random() < 0.5:
                script.append('S')
                script.append(f'C{b} {rng.choice([a for a in s.ancestors(b, g) if a != g] or [0])}')
    if flavour == 'c10':
        # the driver's database calls commit ambiguously now and then (deactivate / activate / schedule_job / worker reports)
        script = [a + '~' if a[0] in 'FSJWPQ' and rng.random() < 0.3 else a for a in script]
    return {'ops': s.ops, 'kind': 'actors', 'actors': script, 'aseed': rng.randint(0, 10 ** 6)}


def commit_while_parent_busy(rng: random.Random) -> Dict[str, Any]:
    """C08 / C05: an update >= 2 is committed while a parent of one of its jobs, in an earlier committed update, is in every possible
    unfinished state — Ready, Creating (job-private, on a pending instance), Running — or already terminal; then everything runs to
    the end so that "can the committed batch finish" is observable"""
    s = Shadow(rng)
    s.deep_groups = 0.0
    b = s.create_batch(user=1)
    pool = s.new_instance(True)
    n1 = rng.randint(1, 3)
    u1 = s.open_update(b, n1, 0)
    kinds = [rng.choice(['jp', 'jp', 'pool']) for _ in range(n1)]
    s.emit(f'insertJobs {b} {u1["id"]} 1 ' + ' '.join(
        f'{k};;;0;0;0;{1000 if kinds[k - 1] == "jp" else rng.choice([250, 1000])};{2 if kinds[k - 1] == "jp" else 0}' for k in range(1, n1 + 1)),
        'insertJobs')
    s.emit(f'commit {b} {u1["id"]}', 'commit')
    n2 = rng.randint(1, 2)
    u2 = s.open_update(b, n2, 0)
    specs = []
    for k in range(1, n2 + 1):
        pars = sorted(rng.sample(range(1, n1 + 1), rng.randint(1, n1)))
        specs.append(f'{k};{",".join(map(str, pars))};;0;0;{rng.choice([0, 0, 1])};250;0')
    s.emit(f'insertJobs {b} {u2["id"]} 1 ' + ' '.join(specs), 'insertJobs')
    # bring the parents into assorted states
    att = 11
    placed = {}
    for j in range(1, n1 + 1):
        st = rng.choice(['Ready', 'Creating', 'Creating', 'Running', 'done'])
        ts = s.tick()
        if kinds[j - 1] == 'jp':
            if st == 'Ready':
                continue
            inst = s.new_instance(False, activate=False, cores=1000)
            s.emit(f'creating {b} {j} {att} {inst} {ts} {s.date}', 'creating')
            placed[j] = (att, inst, 'Creating')
            if st in ('Running', 'done'):
                s.emit(f'activate {inst}', 'activate')
                s.emit(f'schedule {b} {j} {att} {inst}', 'schedule')
                placed[j] = (att, inst, 'Running')
        else:
            if st in ('Ready', 'Creating'):
                continue
            s.emit(f'schedule {b} {j} {att} {pool}', 'schedule')
            placed[j] = (att, pool, 'Running')
        if st == 'done':
            s.emit(f'complete {b} {j} {att} {placed[j][1]} {rng.choice(["Success", "Success", "Failed"])} {ts} {s.tick()} completed {s.date}', 'complete')
            placed[j] = (att, placed[j][1], 'done')
        att += 1
    s.emit(f'commit {b} {u2["id"]}', 'commit:while-parents-busy')
    # everything finishes
    for j in range(1, n1 + 1):
        a, inst, st = placed.get(j, (None, None, 'Ready'))
        if st == 'done':
            continue
        if st == 'Ready':
            if kinds[j - 1] == 'jp':
                inst = s.new_instance(False, activate=False, cores=1000)
                a = att
                att += 1
                s.emit(f'creating {b} {j} {a} {inst} {s.tick()} {s.date}', 'creating')
                st = 'Creating'
            else:
                a, inst = att, pool
                att += 1
                s.emit(f'schedule {b} {j} {a} {inst}', 'schedule')
                st = 'Running'
        if st == 'Creating':
            s.emit(f'activate {inst}', 'activate')
            s.emit(f'schedule {b} {j} {a} {inst}', 'schedule')
        t0 = s.tick()
        s.emit(f'complete {b} {j} {a} {inst} Success {t0} {s.tick()} completed {s.date}', 'complete')
    for k in range(1, n2 + 1):
        j = n1 + k
        s.emit(f'schedule {b} {j} {att} {pool}', 'schedule')
        t0 = s.tick()
        s.emit(f'complete {b} {j} {att} {pool} Success {t0} {s.tick()} completed {s.date}', 'complete')
        att += 1
    return {'ops': s.ops, 'kind': 'history', 'shape': 'commit-while-parent-busy'}

"""The real batch service code over minisql, driven by the line protocol of harness/batchdb/SPEC.md.

    w = World(seed)                 # MiniDB (full schema + routines, n_tokens = 4) + real gear.Database + app stand-in
    w.apply('createBatch 1 1 1')    # -> 'ok 1' | 'err'        (one protocol op = one call of the REAL code)
    w.dump()                        # -> byte-identical to `dump` of lean/Driver/BatchDB.lean
    w.close()

Which real code runs for each op (all through gear.database.Database over minisql.fakepool):
  createBatch   front_end._create_batch            createUpdate  front_end._create_batch_update
  insertGroups  front_end._create_job_groups       insertJobs    front_end._create_jobs  (whole function: resource request block,
                                                                 select_inst_coll, spec writer, insert_jobs_into_db)
  commit        front_end._commit_update           cancel        batch.cancel_job_group_in_db      delete  front_end._delete_batch
  newInstance   driver.instance.Instance.create    activate / deactivate / markDeleted: Instance.activate / .deactivate / .mark_deleted
                when the in-memory state lets the method reach the database, otherwise (duplicate / stale message that the in-memory
                guard would absorb) the very CALL statement of that method, taken from the source by AST, is executed
  schedule      the `CALL schedule_job` statement of driver.job.schedule_job (the function itself asserts an active instance and talks
                to the worker first) + the in-memory adjustment it performs
  creating / started / complete   driver.job.mark_job_creating / mark_job_started / mark_job_complete
  unschedule    driver.job.unschedule_job (time_msecs patched to the op's end time; the function always reports reason 'cancelled')
  addResources  driver.job.add_attempt_resources   heartbeat  driver.main.billing_update_1
  cleanupStaging / cleanupCancellable / compact    the four background loop bodies of driver.main

Wire ids: users u<n>, billing projects bp<n>, instances inst<n>, attempts att<n>, tokens tok<n>/utok<n>, inst_colls = index into
INST_COLLS, resources = (deduped_)resource_id, dates = days after BASE_DAY.  `cores` of a job on the wire = jobs.cores_mcpu; only the
pairs (cores, inst_coll) that the real resource-request code of _create_jobs can produce are accepted (JOB_CORES); `cores` of an
instance = instances.cores_mcpu, a multiple of 1000.
"""
from __future__ import annotations

import ast
import asyncio
import datetime
import logging
import os
import random
from typing import Any, Dict, List, Optional, Tuple

from .. import loader
from ..minisql import batchapp
from ..minisql.sqlparse import MiniSQLError

INST_COLLS = ['standard', 'highcpu', 'job-private', 'highmem']
POOL_CORES = (250, 500, 1000, 2000, 4000, 8000, 16000)
JP_CORES = (1000, 2000, 4000, 8000)
JOB_CORES = {0: POOL_CORES, 1: POOL_CORES, 2: JP_CORES, 3: POOL_CORES}
_MEMORY = {0: 'standard', 1: 'lowmem', 3: 'highmem'}
_CPU = {250: '0.25', 500: '0.5', 1000: '1', 2000: '2', 4000: '4', 8000: '8', 16000: '16'}
N_USERS = 3
N_BPS = 2
BASE_DAY = datetime.date(2024, 1, 1)
_EPOCH = datetime.date(1970, 1, 1)


class MachineryFailure(Exception):
    """the harness itself could not run an op (not an answer of the service)"""


def user(n: int) -> str:
    return f'u{n}'


def userdata(n: int) -> Dict[str, Any]:
    u = user(n)
    return {'username': u, 'hail_credentials_secret_name': f'{u}-gsa-key', 'tokens_secret_name': f'{u}-tokens',
            'hail_identity': f'{u}@verif.invalid', 'login_id': u, 'is_developer': 0, 'is_service_account': 0, 'id': n,
            'system_roles': [], 'system_permissions': {}}


_sql_cache: Dict[Tuple[str, str, str], str] = {}


def sql_literal(repo: str, relpath: str, needle: str) -> str:
    """the SQL string literal of a batch source file that contains `needle` (so the harness never copies SQL text)"""
    key = (repo, relpath, needle)
    if key not in _sql_cache:
        path = os.path.join(repo, 'batch', 'batch', relpath)
        tree = ast.parse(open(path, encoding='utf-8').read())
        found = [n.value for n in ast.walk(tree) if isinstance(n, ast.Constant) and isinstance(n.value, str) and needle in n.value]
        if len(found) != 1:
            raise MachineryFailure(f'{relpath}: expected exactly one SQL literal containing {needle!r}, found {len(found)}')
        _sql_cache[key] = found[0]
    return _sql_cache[key]


class _Req(dict):
    def __init__(self, app, body):
        super().__init__()
        self.app = app
        import json
        self._body = json.dumps(body).encode()

    async def read(self):
        return self._body


class _Healthy:
    async def mark_healthy(self):
        return None


class _UnknownInstance:
    state = 'unknown'

    def __init__(self, name):
        self.name = name

    def adjust_free_cores_in_memory(self, delta):
        pass


def opt(tok: str) -> Optional[int]:
    return None if tok == 'N' else int(tok)


def ints(tok: str) -> List[int]:
    return [] if tok in ('', '-') else [int(x) for x in tok.split(',')]


class World:
    def __init__(self, seed: int = 0, repo: Optional[str] = None, n_tokens: int = 4):
        loader.install(repo)
        self.repo = repo or loader.repo_root()
        logging.disable(logging.CRITICAL)
        self.date = 0
        self.db = batchapp.seeded_db(random.Random(seed), clock=self._clock, repo=self.repo, n_tokens=n_tokens,
                                     users=tuple(user(i) for i in range(1, N_USERS + 1)),
                                     billing_projects=tuple(f'bp{i}' for i in range(1, N_BPS + 1)))
        self.loop = asyncio.new_event_loop()
        self.app = self.loop.run_until_complete(batchapp.make_driver_app(self.db))
        self.gdb = self.app['db']
        from batch.front_end import front_end as fe
        from batch.driver import job as dj
        from batch.driver import main as dm
        from batch import batch as bb
        from gear.database import CallError
        from aiohttp import web
        import pymysql.err
        self.fe, self.dj, self.dm, self.bb = fe, dj, dm, bb
        self.CallError, self.web, self.myerr = CallError, web, pymysql.err
        self.instances: Dict[str, Any] = {}       # name -> real batch.driver.instance.Instance (the in-memory mirror)
        self.last_error: Optional[BaseException] = None
        self.sql_errors: List[Tuple[str, int, str]] = []     # (op line, errno, message) of MySQL errors that are not client errors
        self.server_errors: List[Tuple[str, str]] = []       # (op line, repr) of exceptions a handler would turn into HTTP 500
        res = self.db.tables['resources']
        self.res_name = {r['deduped_resource_id']: r['resource'] for r in res if r['resource_id'] == r['deduped_resource_id']}
        # legacy versions of a resource (resource_id != deduped_resource_id): the workers of odd jobs report under the legacy name
        self.res_legacy = {r['deduped_resource_id']: r['resource'] for r in res if r['resource_id'] != r['deduped_resource_id']}

    # -- plumbing ------------------------------------------------------------------------------------
    def _clock(self) -> float:
        return ((BASE_DAY - _EPOCH).days + self.date) * 86400 + 3600.0

    def close(self):
        try:
            self.app['task_manager'].shutdown()
            try:
                self.app['async_worker_pool'].shutdown()
            except Exception:   # noqa: BLE001
                pass

            async def drain():
                pending = [t for t in asyncio.all_tasks() if t is not asyncio.current_task()]
                for t in pending:
                    t.cancel()
                await asyncio.gather(*pending, return_exceptions=True)
            self.loop.run_until_complete(drain())
        finally:
            self.loop.close()

    def run(self, coro):
        async def go():
            try:
                return await coro
            finally:
                for _ in range(3):      # let fire-and-forget tasks of the real code (callbacks, kill requests) run
                    await asyncio.sleep(0)
        return self.loop.run_until_complete(go())

    def query(self, sql, params=None):
        return self.db.query(sql, params)

    # -- the protocol -----------------------------------------------------------------------------------
    def apply(self, line: str) -> str:
        ws = line.split()
        if not ws:
            return 'bad-op'
        if ws[0] == 'dump':
            return self.dump()
        f = getattr(self, 'op_' + ws[0], None)
        if f is None:
            return 'bad-op'
        self.last_error = None
        try:
            rc = self.run(f(*ws[1:]))
            return f'ok {rc}'
        except MiniSQLError:
            raise
        except MachineryFailure:
            raise
        except self.web.HTTPException as e:
            self.last_error = e
            return 'err'
        except self.myerr.MySQLError as e:
            self.last_error = e
            self.sql_errors.append((line, e.args[0] if e.args else -1, str(e.args[1]) if len(e.args) > 1 else ''))
            return 'err'
        except self.bb.NonExistentJobGroupError as e:   # type: ignore[attr-defined]
            self.last_error = e
            return 'err'
        except (AssertionError, ValueError, self.CallError) as e:
            # what an aiohttp handler would answer with HTTP 500 (assertion of the real code, the ValueError wrapper of _create_jobs)
            self.last_error = e
            self.server_errors.append((line, repr(e)[:200]))
            return 'err'

    # front end ---------------------------------------------------------------------------------------
    async def op_createBatch(self, u, bp, token, n_jobs='0'):
        # n_jobs = what the client's batch spec announces (create / create-fast pass the spec through); the batch row itself starts empty
        return await self.fe._create_batch({'billing_project': f'bp{bp}', 'token': f'tok{token}', 'n_jobs': int(n_jobs)}, userdata(int(u)),
                                           self.gdb)

    async def op_createUpdate(self, b, token, n_jobs, n_groups, u):
        upd = await self.fe._create_batch_update(int(b), f'utok{token}', int(n_jobs), int(n_groups), user(int(u)), self.gdb)
        # the real function answers (update_id, start_job_group_id, start_job_id); protocol answer: ok <uid> <startJob> <startGroup>
        return f'{upd[0]} {upd[2]} {upd[1]}'

    async def op_insertGroups(self, b, upd, u, *specs):
        gs = []
        for t in specs:
            rel, absp, relp = t.split(';')
            d: Dict[str, Any] = {'job_group_id': int(rel)}
            if absp != 'N':
                d['absolute_parent_id'] = int(absp)
            else:
                d['in_update_parent_id'] = int(relp)
            gs.append(d)
        await self.fe._create_job_groups(self.gdb, int(b), int(upd), user(int(u)), gs)
        return 0

    @staticmethod
    def job_spec(tok: str) -> Dict[str, Any]:
        rel, absps, relps, absg, relg, ar, cores, ic = tok.split(';')
        cores, ic = int(cores), int(ic)
        if ic not in JOB_CORES or cores not in JOB_CORES[ic]:
            raise MachineryFailure(f'no resource request makes _create_jobs compute cores_mcpu={cores} in inst_coll #{ic}')
        if ic == 2:
            resources: Dict[str, Any] = {'machine_type': f'n1-standard-{cores // 1000}', 'storage': '0'}
        else:
            resources = {'cpu': _CPU[cores], 'memory': _MEMORY[ic], 'storage': '0'}
        s: Dict[str, Any] = {
            'job_id': int(rel), 'in_update_parent_ids': ints(relps), 'always_run': ar == '1',
            'process': {'type': 'docker', 'image': 'ubuntu:22.04', 'command': ['true'], 'mount_docker_socket': False},
            'resources': resources,
        }
        if absps.startswith('L'):
            s['parent_ids'] = ints(absps[1:])         # the deprecated spelling (old clients): validate.py renames it
        else:
            s['absolute_parent_ids'] = ints(absps)
        if absg != 'N':
            s['absolute_job_group_id'] = int(absg)
        else:
            s['in_update_job_group_id'] = int(relg)
        return s

    async def op_insertJobs(self, b, upd, u, *specs):
        js = [self.job_spec(t) for t in specs]
        # as the handlers create_jobs / create_jobs_for_update do: validate (and rewrite deprecated keys), then _create_jobs
        from batch.front_end.validate import validate_and_clean_jobs
        from hailtop.utils.validate import ValidationError
        from aiohttp import web
        try:
            validate_and_clean_jobs(js)
        except ValidationError as e:
            raise web.HTTPBadRequest(reason=e.reason)
        await self.fe._create_jobs(userdata(int(u)), js, int(b), int(upd), self.app)
        return 0

    async def op_commit(self, b, upd):
        rows = self.query('SELECT user FROM batches WHERE id = %s', (int(b),))
        usr = rows[0]['user'] if rows else user(1)
        try:
            await self.fe._commit_update(self.app, int(b), int(upd), usr, self.gdb)
        except self.CallError as e:
            return e.rv['rc']
        return 0

    async def op_cancel(self, b, g):
        await self.bb.cancel_job_group_in_db(self.gdb, int(b), int(g))
        return 0

    async def op_delete(self, b):
        await self.fe._delete_batch(self.app, int(b))
        return 0

    # instances ---------------------------------------------------------------------------------------
    async def op_newInstance(self, name, cores, is_pool):
        cores = int(cores)
        if cores % 1000:
            raise MachineryFailure('instance cores on the wire are cores_mcpu, a multiple of 1000')
        nm = f'inst{name}'
        inst = await batchapp.create_instance(self.app, nm, inst_coll='standard' if is_pool == '1' else 'job-private', cores=cores // 1000)
        self.instances[nm] = inst
        return 0

    async def _call(self, relpath, needle, args):
        rv = await self.gdb.execute_and_fetchone(sql_literal(self.repo, relpath, needle), args)
        return rv

    async def op_activate(self, name):
        nm = f'inst{name}'
        inst = self.instances.get(nm)
        if inst is not None and inst.state == 'pending':
            await inst.activate(f'10.0.0.{int(name) % 250}', 1000)
            return 0
        return (await self._call('driver/instance.py', 'CALL activate_instance', (nm, '10.0.0.1', 1000)))['rc']

    async def op_deactivate(self, name, reason, ts, date):
        self.date = int(date)
        nm = f'inst{name}'
        inst = self.instances.get(nm)
        if inst is not None and inst.state in ('pending', 'active'):
            await inst.deactivate(reason, int(ts))
            return 0
        return (await self._call('driver/instance.py', 'CALL deactivate_instance', (nm, reason, int(ts))))['rc']

    async def op_markDeleted(self, name):
        nm = f'inst{name}'
        inst = self.instances.get(nm)
        if inst is not None and inst.state == 'inactive':
            await inst.mark_deleted('deleted', 1000)
            return 0
        return (await self._call('driver/instance.py', 'CALL mark_instance_deleted', (nm,)))['rc']

    # driver / worker messages ----------------------------------------------------------------------------
    async def op_schedule(self, b, j, a, i):
        nm = f'inst{i}'
        inst = self.instances.get(nm)
        # PoolScheduler.schedule_loop_body reserves the cores in memory before it calls driver.job.schedule_job, and gives them
        # back when that raises; schedule_job applies the procedure's delta_cores_mcpu afterwards
        rows = self.query('SELECT cores_mcpu FROM jobs WHERE batch_id = %s AND job_id = %s', (int(b), int(j)))
        reserved = 0
        if inst is not None and inst.inst_coll.is_pool and inst.state == 'active' and rows:
            reserved = rows[0]['cores_mcpu']
            inst.adjust_free_cores_in_memory(-reserved)
        try:
            rv = await self._call('driver/job.py', 'CALL schedule_job', (int(b), int(j), f'att{a}', nm))
        except Exception:
            if reserved and inst.state == 'active':
                inst.adjust_free_cores_in_memory(reserved)
            raise
        if inst is not None and rv['delta_cores_mcpu'] != 0 and inst.state == 'active':     # as driver.job.schedule_job does
            inst.adjust_free_cores_in_memory(rv['delta_cores_mcpu'])
        return rv['rc']

    def _inst(self, i):
        inst = self.instances.get(f'inst{i}')
        if inst is None:
            # a worker message naming an instance that was never created (the HTTP layer of the driver rejects those; the
            # procedure is still exercised): only .name is meaningful
            return _UnknownInstance(f'inst{i}')
        return inst

    async def op_creating(self, b, j, a, i, ts, date):
        self.date = int(date)
        await self.dj.mark_job_creating(self.app, int(b), int(j), f'att{a}', self._inst(i), int(ts), [])
        return 0

    async def op_started(self, b, j, a, i, ts, date):
        self.date = int(date)
        await self.dj.mark_job_started(self.app, int(b), int(j), f'att{a}', self._inst(i), int(ts), [])
        return 0

    async def op_complete(self, b, j, a, i, new_state, start, end, reason, date):
        self.date = int(date)
        b, j = int(b), int(j)
        rows = self.query('SELECT job_group_id FROM jobs WHERE batch_id = %s AND job_id = %s', (b, j))
        gid = rows[0]['job_group_id'] if rows else 0
        att = None if a == 'N' else f'att{a}'
        inst = None if i == 'N' else f'inst{i}'
        # mark_job_complete returns nothing: read the procedure's rc from the statement log of the fake server
        n0 = len(self.gdb.pool.log)
        self._rc = None
        orig = self.gdb.execute_and_fetchone

        async def spy(sql, args=None, query_name=None):
            rv = await orig(sql, args, query_name)
            if 'CALL mark_job_complete' in sql:
                self._rc = rv['rc']
            return rv
        self.gdb.execute_and_fetchone = spy
        try:
            await self.dj.mark_job_complete(self.app, b, j, att, gid, inst, new_state, [0, 1], opt(start), opt(end), reason, [],
                                            marked_job_started=True)
        finally:
            del self.gdb.execute_and_fetchone
        del n0
        if self._rc is None:
            raise MachineryFailure('mark_job_complete did not call the procedure')
        return self._rc

    async def op_unschedule(self, b, j, a, i, end, reason, date):
        self.date = int(date)
        if reason != 'cancelled':
            raise MachineryFailure("driver.job.unschedule_job always reports reason 'cancelled' (generator restriction)")
        self._rc = None
        orig = self.gdb.execute_and_fetchone

        async def spy(sql, args=None, query_name=None):
            rv = await orig(sql, args, query_name)
            if 'CALL unschedule_job' in sql:
                self._rc = rv['rc']
            return rv
        self.gdb.execute_and_fetchone = spy
        saved = self.dj.time_msecs
        self.dj.time_msecs = lambda: int(end)
        try:
            await self.dj.unschedule_job(self.app, {'batch_id': int(b), 'job_id': int(j), 'attempt_id': f'att{a}', 'instance_name': f'inst{i}'})
        finally:
            self.dj.time_msecs = saved
            del self.gdb.execute_and_fetchone
        return self._rc

    async def op_addResources(self, b, j, a, date, *res):
        self.date = int(date)
        rs = []
        for t in res:
            r, q = t.split(':')
            name = self.res_name[int(r)]
            if int(r) in self.res_legacy and (int(b) + int(j)) % 2 == 1:
                name = self.res_legacy[int(r)]
            rs.append({'name': name, 'quantity': int(q)})
        await self.dj.add_attempt_resources(self.app, self.gdb, int(b), int(j), f'att{a}', rs)
        return 0

    async def op_heartbeat(self, ts, date, *atts):
        self.date = int(date)
        body = {'timestamp': int(ts), 'attempts': []}
        for t in atts:
            b, j, a = t.split(':')
            body['attempts'].append({'batch_id': int(b), 'job_id': int(j), 'attempt_id': f'att{a}'})
        await self.dm.billing_update_1(_Req(self.app, body), _Healthy())
        return 0

    async def op_cleanupStaging(self):
        await self.dm.delete_committed_job_groups_inst_coll_staging_records(self.gdb)
        return 0

    async def op_cleanupCancellable(self):
        await self.dm.delete_prev_cancelled_job_group_cancellable_resources_records(self.gdb)
        return 0

    async def op_compact(self, ts=None, date=None, *atts):
        if ts is None:
            await self.dm.compact_agg_billing_project_users_table(self.app, self.gdb)
            await self.dm.compact_agg_billing_project_users_by_date_table(self.app, self.gdb)
            return 0
        # the compaction loops run while ANOTHER connection commits billing updates for `atts`: one at each of the 2nd, 3rd and 4th
        # transaction the loops begin (timestamps ts+1, ts+2, ts+3: "after one transaction of the loop, before its next"), and a last
        # one with ts+3 when the loops are done, so that the attempts end with rollup_time = ts+3 however many transactions there were
        self.date = int(date)
        where, args = [], []
        for t in atts:
            b, j, a = t.split(':')
            where.append('(batch_id = %s AND job_id = %s AND attempt_id = %s)')
            args += [int(b), int(j), f'att{a}']
        sql = 'UPDATE attempts SET rollup_time = %s WHERE ' + ' OR '.join(where)      # the statement of driver/main.py billing_update_1
        pool = self.gdb.pool
        n = [0]

        def other_connection(i, stmt):
            if stmt == 'BEGIN' or stmt.lstrip().upper().startswith('START TRANSACTION'):
                n[0] += 1
                if 2 <= n[0] <= 4:
                    self.db.execute(sql, [int(ts) + n[0] - 1] + args)
            return None
        pool.faults = other_connection
        try:
            await self.dm.compact_agg_billing_project_users_table(self.app, self.gdb)
            await self.dm.compact_agg_billing_project_users_by_date_table(self.app, self.gdb)
        finally:
            pool.faults = None
        self.db.execute(sql, [int(ts) + 3] + args)
        return 0

    # -- dump ----------------------------------------------------------------------------------------------
    @staticmethod
    def _n(prefix: str, s: Optional[str]) -> str:
        if s is None:
            return 'N'
        assert s.startswith(prefix), (prefix, s)
        return s[len(prefix):]

    @staticmethod
    def _o(v) -> str:
        return 'N' if v is None else str(v)

    def dump(self) -> str:
        T = self.db.tables
        ic_ix = {n: i for i, n in enumerate(INST_COLLS)}
        buser = {r['id']: r['user'] for r in T['batches']}
        secs = []

        def sec(tag, rows):
            secs.append(tag + ':' + ';'.join(sorted(rows)))
        sec('B', [f"{r['id']},{self._n('u', r['user'])},{self._n('bp', r['billing_project'])},{r['state']},{r['n_jobs']},{r['deleted']}"
                  for r in T['batches']])
        sec('U', [f"{r['batch_id']},{r['update_id']},{r['start_job_id']},{r['n_jobs']},{r['start_job_group_id']},{r['n_job_groups']},{r['committed']}"
                  for r in T['batch_updates']])
        anc: Dict[Tuple[int, int], List[Tuple[int, int]]] = {}
        for r in T['job_group_self_and_ancestors']:
            anc.setdefault((r['batch_id'], r['job_group_id']), []).append((r['level'], r['ancestor_id']))
        tal = {(r['id'], r['job_group_id']): r for r in T['job_groups_n_jobs_in_complete_states']}
        zero = {'n_completed': 0, 'n_succeeded': 0, 'n_failed': 0, 'n_cancelled': 0}
        rows = []
        for g in T['job_groups']:
            k = (g['batch_id'], g['job_group_id'])
            t = tal.get(k, zero)
            a = '-'.join(str(x[1]) for x in sorted(anc.get(k, [])))
            rows.append(f"{k[0]},{k[1]},{a},{self._o(g['update_id'])},{g['state']},{g['n_jobs']},{t['n_completed']},{t['n_succeeded']},"
                        f"{t['n_failed']},{t['n_cancelled']}")
        sec('G', rows)
        sec('X', [f"{r['id']},{r['job_group_id']}" for r in T['job_groups_cancelled']])
        sec('J', [f"{r['batch_id']},{r['job_id']},{r['update_id']},{r['job_group_id']},{r['state']},{r['always_run']},{r['cores_mcpu']},"
                  f"{ic_ix[r['inst_coll']]},{r['n_pending_parents']},{r['cancelled']},{self._n('att', r['attempt_id'])}" for r in T['jobs']])
        sec('P', [f"{r['batch_id']},{r['job_id']},{r['parent_id']}" for r in T['job_parents']])
        sec('A', [f"{r['batch_id']},{r['job_id']},{self._n('att', r['attempt_id'])},{self._n('inst', r['instance_name'])},{self._o(r['start_time'])},"
                  f"{self._o(r['rollup_time'])},{self._o(r['end_time'])},{self._o(r['reason'])}" for r in T['attempts']])
        sec('R', [f"{r['batch_id']},{r['job_id']},{self._n('att', r['attempt_id'])},{r['deduped_resource_id']},{r['quantity']}"
                  for r in T['attempt_resources']])
        free = {r['name']: r['free_cores_mcpu'] for r in T['instances_free_cores_mcpu']}
        pool = {r['name']: r['is_pool'] for r in T['inst_colls']}
        sec('I', [f"{self._n('inst', r['name'])},{r['state']},{r['cores_mcpu']},{self._o(free.get(r['name']))},{pool.get(r['inst_coll'], 0)}"
                  for r in T['instances']])
        c: Dict[str, int] = {}

        def add(key, v):
            if v:
                c[key] = c.get(key, 0) + v
        for r in T['user_inst_coll_resources']:
            k = f"({self._n('u', r['user'])},{ic_ix[r['inst_coll']]})"
            for name, col in (('uReady', 'n_ready_jobs'), ('uReadyCores', 'ready_cores_mcpu'), ('uRunning', 'n_running_jobs'),
                              ('uRunningCores', 'running_cores_mcpu'), ('uCreating', 'n_creating_jobs'),
                              ('uCancReady', 'n_cancelled_ready_jobs'), ('uCancRunning', 'n_cancelled_running_jobs'),
                              ('uCancCreating', 'n_cancelled_creating_jobs')):
                add(name + k, r[col])
        for r in T['job_group_inst_coll_cancellable_resources']:
            k = f"({r['batch_id']},{r['update_id']},{r['job_group_id']},{ic_ix[r['inst_coll']]})"
            for name, col in (('cReady', 'n_ready_cancellable_jobs'), ('cReadyCores', 'ready_cancellable_cores_mcpu'),
                              ('cCreating', 'n_creating_cancellable_jobs'), ('cRunning', 'n_running_cancellable_jobs'),
                              ('cRunningCores', 'running_cancellable_cores_mcpu')):
                add(name + k, r[col])
        for r in T['job_groups_inst_coll_staging']:
            k = f"({r['batch_id']},{r['update_id']},{r['job_group_id']},{ic_ix[r['inst_coll']]})"
            for name, col in (('sJobs', 'n_jobs'), ('sReady', 'n_ready_jobs'), ('sReadyCores', 'ready_cores_mcpu')):
                add(name + k, r[col])
        for r in T['aggregated_job_resources_v3']:
            add(f"aJob({r['batch_id']},{r['job_id']},{r['resource_id']})", r['usage'])
        for r in T['aggregated_job_group_resources_v3']:
            add(f"aGroup({r['batch_id']},{r['job_group_id']},{r['resource_id']})", r['usage'])
        for r in T['aggregated_billing_project_user_resources_v3']:
            add(f"aBpUser({self._n('bp', r['billing_project'])},{self._n('u', r['user'])},{r['resource_id']})", r['usage'])
        for r in T['aggregated_billing_project_user_resources_by_date_v3']:
            d = (r['billing_date'] - BASE_DAY).days
            add(f"aByDate({d},{self._n('bp', r['billing_project'])},{self._n('u', r['user'])},{r['resource_id']})", r['usage'])
        del buser
        sec('C', [f'{k}={v}' for k, v in c.items() if v != 0])
        return '|'.join(secs)

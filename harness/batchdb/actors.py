"""C39: the driver's loops as actors over a World.

After a client-submission prefix (ordinary protocol ops, compared with the Lean model as in every E1 check) the REAL loop bodies act on
the database in a scripted order:

  S  PoolScheduler.schedule_loop_body for pool 'standard' (real fair share, real SELECTs, real driver.job.schedule_job incl. job_config)
  R  Canceller.cancel_cancelled_ready_jobs_loop_body      U  Canceller.cancel_cancelled_running_jobs_loop_body
  O  Canceller.cancel_orphaned_attempts_loop_body      K  Canceller.cancel_cancelled_creating_jobs_loop_body
  W<outcome>  a worker: one Running job reports job_started (maybe) and job_complete with the outcome (real mark_job_started / complete)
  D  a worker reports the completion of some job twice / late (duplicate of the last report)
  F  fault: the instance with most running jobs is deactivated (real Instance.deactivate) and replaced by a fresh active one
  C<g>  the client cancels job group g (real cancel_job_group_in_db)
  P  a scheduler pass (as S) during which the first instance a job is POSTed to is preempted while the request is in flight
  E<kind>  a scheduler pass (as S) whose first job-create POST is answered by the worker with HTTP 503 / 500 / 404, a timeout or a
     connection error (instance still active)
  Q  a scheduler pass (as S) during which the worker's job_started report of the attempt being scheduled is processed while the POST is
     in flight (real mark_job_started), before CALL schedule_job
  J  the job-private manager: REAL JobPrivateInstanceManager.create_instances_loop_body (only the VM creation is faked), the new
     instances activate, REAL schedule_jobs_loop_body; Jtimeout = the new instances are deactivated (activation_timeout) while pending
  <step>~  the same step with an ambiguous commit (applied, reported as error 2013) at the first COMMIT the driver issues in it
  X  a second attempt id of a Running job reports job_started from another instance (real mark_job_started): an orphan attempt for loop O
  L  late canceller message: real driver.job.unschedule_job for the attempt whose completion was reported last

then the system is run to quiescence fairly (rounds of S, R, U, O and workers finishing every Running job successfully) and the
liveness part of the property is read off the tables.  Safety (single current attempt) is checked after every actor step.
"""
from __future__ import annotations

import random
import types
from typing import Any, Dict, List, Optional, Tuple

from .oracles import TERMINAL, View, TABLES


class FakePool:
    """what PoolScheduler reads of its Pool"""

    def __init__(self, world, name='standard'):
        self.w = world
        self.name = name
        self.all_supported_regions = ['us-central1']
        import asyncio
        self.scheduler_state_changed = asyncio.Event()
        self.inst_coll_manager = types.SimpleNamespace(regions=['us-central1'])

    @property
    def healthy_instances_by_free_cores(self):
        # what Pool keeps incrementally (adjust_for_add/remove_instance): active, healthy instances sorted by in-memory free cores
        import sortedcontainers
        return sortedcontainers.SortedSet((i for i in self.w.instances.values() if i.state == 'active' and i.inst_coll.name == self.name),
                                          key=lambda instance: instance.free_cores_mcpu)

    def get_instance(self, cores_mcpu, regions):
        # the REAL placement rule (Pool.get_instance: bisect over the sorted set, region and version filter)
        from batch.driver.instance_collection.pool import Pool
        return Pool.get_instance(self, cores_mcpu, regions)

    def __str__(self):
        return f'pool {self.name}'


class Actors:
    def __init__(self, world, rng: random.Random):
        self.w = world
        self.rng = rng
        from batch.driver.instance_collection.pool import PoolScheduler
        from batch.driver.canceller import Canceller
        from batch.utils import ExceededSharesCounter
        self.pool = FakePool(world)
        s = object.__new__(PoolScheduler)       # __init__ would start the long-running loop task
        s.app = world.app
        s.scheduler_state_changed = self.pool.scheduler_state_changed
        s.db = world.gdb
        s.pool = self.pool
        s.async_worker_pool = world.app['async_worker_pool']
        s.exceeded_shares_counter = ExceededSharesCounter()
        self.scheduler = s
        self.canceller = Canceller(world.app)
        self.ts = 10000
        self.log: List[str] = []
        self.next_inst = 50
        self.last_complete: Optional[Tuple] = None
        self.n_orphans = 0
        self.preempted_in_flight = 0
        self.ambiguous_commits = 0
        self.worker_errors = 0
        self.started_in_flight = 0
        self.jp_timeouts = 0
        self._jpm = None
        self.jp_created: List[int] = []
        self.jp_scheduled = 0
        self.next_att = 500
        self.errors: List[str] = []

    def job_private_manager(self):
        if self._jpm is not None:
            return self._jpm
        import asyncio
        from batch.driver.instance_collection.job_private import JobPrivateInstanceManager
        from batch.utils import ExceededSharesCounter
        from ..minisql import batchapp
        w = self.w
        m = object.__new__(JobPrivateInstanceManager)     # __init__ wants a cloud resource manager and starts long-running tasks
        m.app = w.app
        m.db = w.gdb
        m.name = 'job-private'
        m.cloud = 'gcp'
        m.async_worker_pool = w.app['async_worker_pool']
        m.exceeded_shares_counter = ExceededSharesCounter()
        m.scheduler_state_changed = asyncio.Event()
        m.inst_coll_manager = types.SimpleNamespace(regions=['us-central1'])
        m.max_new_instances_per_autoscaler_loop = 10
        m.autoscaler_loop_period_secs = 0
        m.name_instance = w.instances
        m.max_instances_to_create = lambda: 50

        async def create_instance(machine_spec, regions):
            # stands for CloudResourceManager.create_vm + Instance.create: the real Instance.create runs, no VM
            self.next_inst += 1
            n = self.next_inst
            cores = int(str(machine_spec['machine_type']).rsplit('-', 1)[-1])
            inst = await batchapp.create_instance(w.app, f'inst{n}', inst_coll='job-private', cores=cores)
            w.instances[f'inst{n}'] = inst
            self.jp_created.append(n)
            return inst, []
        m.create_instance = create_instance
        self._jpm = m
        return m

    def view(self) -> View:
        T = self.w.db.tables
        return View({n: [dict(r) for r in T[n]] for n in TABLES})

    async def _safe(self, name, coro):
        try:
            return await coro
        except Exception as e:   # noqa: BLE001  (the real loops are wrapped by retry_long_running: an exception ends one iteration)
            self.errors.append(f'{name}: {type(e).__name__}: {str(e)[:120]}')
            return None

    def running_jobs(self):
        return [j for j in self.w.db.tables['jobs'] if j['state'] == 'Running' and j['attempt_id'] is not None]

    def step(self, a: str):
        if a.endswith('~'):
            # the same step with an AMBIGUOUS COMMIT: the first COMMIT the driver issues during the step is applied by the server and
            # reported as error 2013 (fakepool.commit_applied); gear.database re-runs the transaction / re-sends the CALL
            import pymysql
            import gear.database as gdbmod
            from ..minisql import fakepool
            pool = self.w.gdb.pool
            fired = []

            def hook(i, sql):
                if sql == 'COMMIT' and not fired:
                    fired.append(i)
                    calls = [x[2] for x in pool.log[-6:] if x[2].lstrip().upper().startswith('CALL')]
                    self.w.last_ambiguous_call = calls[-1].split('(')[0].split()[-1] if calls else 'transaction'
                    return fakepool.commit_applied(pymysql.err.OperationalError(2013, 'Lost connection to MySQL server during query'))
                return None

            async def no_sleep(_tries):
                return None
            saved = gdbmod.sleep_before_try
            gdbmod.sleep_before_try = no_sleep
            pool.faults = hook
            try:
                self.step(a[:-1])
            finally:
                pool.faults = None
                gdbmod.sleep_before_try = saved
            self.log[-1] = a
            if fired:
                self.ambiguous_commits += 1
            return
        w = self.w
        self.ts += 10
        self.log.append(a)
        k = a[0]
        if k == 'S':
            w.run(self._safe('scheduler', self.scheduler.schedule_loop_body()))
        elif k == 'R':
            w.run(self._safe('cancel-ready', self.canceller.cancel_cancelled_ready_jobs_loop_body()))
        elif k == 'U':
            v0 = self.view()
            rj = [j for j in v0.jobs.values() if j['state'] == 'Running' and not j['always_run']]
            if any(v0.marked(j) for j in rj) and any(not v0.marked(j) for j in rj):
                self.u_with_outsiders = getattr(self, 'u_with_outsiders', 0) + 1
            w.run(self._safe('cancel-running', self.canceller.cancel_cancelled_running_jobs_loop_body()))
        elif k == 'O':
            w.run(self._safe('orphans', self.canceller.cancel_orphaned_attempts_loop_body()))
        elif k == 'K':
            w.run(self._safe('cancel-creating', self.canceller.cancel_cancelled_creating_jobs_loop_body()))
        elif k == 'W':
            rj = self.running_jobs()
            if rj:
                j = self.rng.choice(rj)
                att = [x for x in w.db.tables['attempts'] if x['batch_id'] == j['batch_id'] and x['job_id'] == j['job_id'] and
                       x['attempt_id'] == j['attempt_id']]
                inst = w.instances.get(att[0]['instance_name']) if att else None
                if inst is not None and inst.state == 'active':      # @active_instances_only
                    outcome = a[1:] or 'Success'
                    if self.rng.random() < 0.6:
                        w.run(self._safe('job_started', w.dj.mark_job_started(w.app, j['batch_id'], j['job_id'], j['attempt_id'], inst, self.ts - 5, [])))
                    args = (w.app, j['batch_id'], j['job_id'], j['attempt_id'], j['job_group_id'], inst.name, outcome, [0, 5], self.ts - 5, self.ts,
                            'completed', [])
                    self.last_complete = args
                    w.run(self._safe('job_complete', w.dj.mark_job_complete(*args)))
        elif k == 'D':
            if self.last_complete is not None:
                w.run(self._safe('job_complete(dup)', w.dj.mark_job_complete(*self.last_complete)))
        elif k == 'F':
            live = [i for i in w.instances.values() if i.state == 'active']
            if live:
                def load(i):
                    return sum(1 for x in w.db.tables['attempts'] if x['instance_name'] == i.name and x['end_time'] is None)
                victim = max(live, key=load)
                w.run(self._safe('deactivate', victim.deactivate('preempted', self.ts)))
                self.next_inst += 1
                w.apply(f'newInstance {self.next_inst} 4000 1')
                w.apply(f'activate {self.next_inst}')
        elif k == 'C':
            w.apply(f'cancel {a[1:]}')
        elif k == 'P':
            # one scheduler pass during which the instance the job is being POSTed to is preempted: driver.job.schedule_job has passed its
            # `assert instance.state == 'active'`, the worker request is in flight, the instance is deactivated (real Instance.deactivate),
            # then the real code goes on to CALL schedule_job
            session = w.app['client_session']
            fired = []

            async def preempt(name, a, kw):
                if name != 'post' or fired or not a or '/jobs/create' not in str(a[0]):
                    return
                for inst in w.instances.values():
                    if inst.state == 'active' and f'//{inst.ip_address}:' in str(a[0]):
                        fired.append(inst.name)
                        await inst.deactivate('preempted', self.ts)
                        return
            session.hook = preempt
            try:
                w.run(self._safe('scheduler', self.scheduler.schedule_loop_body()))
            finally:
                session.hook = None
            if fired:
                self.preempted_in_flight += 1
                self.next_inst += 1
                w.apply(f'newInstance {self.next_inst} 4000 1')
                w.apply(f'activate {self.next_inst}')
        elif k == 'E':
            # a scheduler pass (the REAL schedule_loop_body with its error wrapper) during which the worker answers the first job-create
            # POST with an error while its instance stays active: E503 / E500 / E404 / Etimeout / Econn
            import aiohttp
            import asyncio
            session = w.app['client_session']
            fired = []
            kind = a[1:] or '503'

            async def worker_error(name, args, kw):
                if name != 'post' or fired or not args or '/jobs/create' not in str(args[0]):
                    return
                fired.append(kind)
                if kind == 'timeout':
                    raise asyncio.TimeoutError()
                if kind == 'conn':
                    raise aiohttp.ClientConnectionError('connection reset by peer')
                raise aiohttp.ClientResponseError(None, (), status=int(kind), message='worker says no')
            session.hook = worker_error
            try:
                w.run(self._safe('scheduler', self.scheduler.schedule_loop_body()))
            finally:
                session.hook = None
            if fired:
                self.worker_errors += 1
        elif k == 'Q':
            # one scheduler pass during which the worker's job_started report of the very attempt being scheduled is processed while
            # driver.job.schedule_job still awaits its POST (real mark_job_started), so that CALL schedule_job afterwards finds the job Running
            session = w.app['client_session']
            fired = []

            async def started_first(name, a, kw):
                if name != 'post' or fired or not a or '/jobs/create' not in str(a[0]):
                    return
                body = kw.get('json') or {}
                att = (body.get('job_spec') or {}).get('attempt_id')
                inst = next((i for i in w.instances.values() if i.state == 'active' and f'//{i.ip_address}:' in str(a[0])), None)
                if att is None or inst is None:
                    return
                fired.append(att)
                try:
                    await w.dj.mark_job_started(w.app, body['batch_id'], body['job_id'], att, inst, self.ts - 1, [])
                except Exception as e:   # noqa: BLE001
                    self.errors.append(f'job_started(in flight): {type(e).__name__}: {str(e)[:120]}')
            session.hook = started_first
            try:
                w.run(self._safe('scheduler', self.scheduler.schedule_loop_body()))
            finally:
                session.hook = None
            if fired:
                self.started_in_flight += 1
        elif k == 'J':
            # the job-private manager: REAL create_instances_loop_body (fair share, its SELECTs of Ready jobs, mark_job_creating on the new
            # pending instance; only the cloud call that creates the VM is replaced), the new instances activate (Jtimeout: they are
            # deactivated while still pending = activation timeout), then the REAL schedule_jobs_loop_body (-> driver.job.schedule_job)
            m = self.job_private_manager()
            self.jp_created = []
            w.run(self._safe('jp-create-instances', m.create_instances_loop_body()))
            for n in self.jp_created:
                if a[1:] == 'timeout':
                    w.apply(f'deactivate {n} activation_timeout {self.ts + 1} 0')
                    self.jp_timeouts += 1
                else:
                    w.apply(f'activate {n}')
            before = sum(1 for j in w.db.tables['jobs'] if j['state'] == 'Running' and j['inst_coll'] == 'job-private')
            w.run(self._safe('jp-schedule-jobs', m.schedule_jobs_loop_body()))
            after = sum(1 for j in w.db.tables['jobs'] if j['state'] == 'Running' and j['inst_coll'] == 'job-private')
            self.jp_scheduled += max(0, after - before)
        elif k == 'X':
            # a second attempt of a Running job reports job_started (schedule_job posted the job to a worker, its procedure call was lost and
            # the job was scheduled again): the real mark_job_started records it as a non-current attempt = an orphan for loop O
            # (pool jobs only: a job-private instance belongs to exactly one attempt of one job)
            rj = [j for j in self.running_jobs() if j['inst_coll'] != 'job-private']
            live = [i for i in w.instances.values() if i.state == 'active']
            if rj and live:
                j = self.rng.choice(rj)
                cur = [x['instance_name'] for x in w.db.tables['attempts'] if (x['batch_id'], x['job_id'], x['attempt_id']) ==
                       (j['batch_id'], j['job_id'], j['attempt_id'])]
                # a job-private job only ever runs on job-private instances (one per attempt); a pool job on pool instances
                kind = [i for i in live if i.inst_coll.is_pool == (j['inst_coll'] != 'job-private')]
                other = [i for i in kind if i.name not in cur] or kind
                if not other:
                    return
                self.n_orphans += 1
                w.run(self._safe('job_started(orphan)', w.dj.mark_job_started(w.app, j['batch_id'], j['job_id'], f'orphan{self.n_orphans}',
                                                                           self.rng.choice(other), self.ts - 5, [])))
        elif k == 'L':
            # the canceller selected a Running job, the job completed, then its CALL unschedule_job for that attempt arrives
            if self.last_complete is not None:
                _, b, j, att, _, inst_name = self.last_complete[:6]
                saved = w.dj.time_msecs
                w.dj.time_msecs = lambda: self.ts
                try:
                    w.run(self._safe('unschedule(late)', w.dj.unschedule_job(w.app, {'batch_id': b, 'job_id': j, 'attempt_id': att,
                                                                                    'instance_name': inst_name})))
                finally:
                    w.dj.time_msecs = saved

    def quiesce(self, max_rounds=40) -> int:
        """fair completion: every loop runs, every Running job finishes successfully; until nothing changes"""
        for r in range(max_rounds):
            before = repr(self.w.db.dump(["jobs", "attempts", "job_groups", "batches", "instances", "job_groups_cancelled"]))
            for a in ('S', 'J', 'R', 'K', 'U', 'O'):
                self.step(a)
            for _ in range(len(self.running_jobs()) + 1):
                self.step('WSuccess')
            if repr(self.w.db.dump(["jobs", "attempts", "job_groups", "batches", "instances", "job_groups_cancelled"])) == before:
                return r
        return max_rounds


def safety(v: View) -> Optional[Tuple[str, str]]:
    """no job has two attempts both treated as current"""
    per: Dict[Tuple[int, int], List[dict]] = {}
    for a in v.attempts.values():
        inst = v.instances.get(a['instance_name']) if a['instance_name'] else None
        if a['end_time'] is None and inst is not None and inst['state'] in ('pending', 'active'):
            per.setdefault((a['batch_id'], a['job_id']), []).append(a)
    for k, j in v.jobs.items():
        open_atts = per.get(k, [])
        if j['state'] in ('Running', 'Creating'):
            cur = [a for a in open_atts if a['attempt_id'] == j['attempt_id']]
            if j['attempt_id'] is None or (k[0], k[1], j['attempt_id']) not in v.attempts:
                return ('running-job-without-attempt-row', f'job {k} is {j["state"]} with attempt_id {j["attempt_id"]} that has no attempt row')
            if not cur:
                a = v.attempts[(k[0], k[1], j['attempt_id'])]
                return ('running-job-whose-current-attempt-ended', f'job {k} is {j["state"]} but its current attempt {j["attempt_id"]} has end_time '
                                                                   f'{a["end_time"]} / instance {a["instance_name"]}')
    return None


def transition_safety(p: View, v: View) -> Optional[Tuple[str, str]]:
    """between two consecutive actor steps: terminal states are absorbing (a finished job never runs again) and a Running job falls back
    to Ready only when its current attempt was ended (otherwise two attempts of the job are live and both were treated as current)"""
    from .oracles import abandoned_attempt
    for k, o in p.jobs.items():
        j = v.jobs.get(k)
        if j is not None and o['state'] in TERMINAL and j['state'] != o['state']:
            return (f'terminal-not-absorbing:{o["state"]}->{j["state"]}', f'job {k} was {o["state"]} (terminal) and is now {j["state"]}')
    # one pass of an actor opens at most one attempt per job (the scheduler yields every runnable job once)
    fresh: Dict[Tuple[int, int], List[str]] = {}
    for k in v.attempts:
        if k not in p.attempts:
            fresh.setdefault((k[0], k[1]), []).append(k[2])
    for k, atts in fresh.items():
        if len(atts) > 1:
            return ('job-scheduled-twice-in-one-pass', f'one actor step recorded {len(atts)} new attempts {sorted(atts)} for job {k}: the job was '
                                                       f'handed to workers under several attempt ids at once')
    return abandoned_attempt(p, v)


def dependencies(v: View) -> Optional[Tuple[str, str]]:
    """C05 on the tables, for committed jobs with well-formed parents: not Pending => every parent terminal; a parent that did not
    succeed => the child is marked cancelled and, unless always_run, has not run; an always_run child is never Cancelled"""
    for k, j in v.jobs.items():
        if not v.committed(j['batch_id'], j['update_id']):
            continue
        ps = [v.jobs.get((k[0], p)) for p in v.parents.get(k, [])]
        if any(p is None for p in ps):
            continue
        live = [p for p in ps if p['state'] not in TERMINAL]
        if j['state'] != 'Pending' and live:
            return ('job-left-pending-before-parents-finished', f'job {k} is {j["state"]} although its parent {live[0]["job_id"]} is {live[0]["state"]}')
        if not live and any(p['state'] != 'Success' for p in ps) and ps:
            if not j['cancelled']:
                return ('child-of-failed-parent-not-marked-cancelled', f'job {k}: a parent did not succeed but cancelled = 0')
            if not j['always_run'] and j['state'] in ('Creating', 'Running', 'Success', 'Failed', 'Error'):
                return ('cancelled-child-ran', f'job {k} (always_run = 0) has a parent that did not succeed and is {j["state"]}')
        if j['always_run'] and j['state'] == 'Cancelled':
            return ('always-run-job-cancelled', f'always_run job {k} was marked Cancelled: it must run whatever its parents\' outcomes '
                                                f'(parents {[(p["job_id"], p["state"]) for p in ps]})')
    return None


def cancel_scope(w, p: View, v: View) -> Optional[Tuple[str, str]]:
    """C07 for the canceller's loops (steps R, K, U): they touch only jobs that ARE cancelled — non-always_run jobs that carry the
    cancelled mark or sit under a cancelled group; every other job row keeps its state and attempt"""
    step = getattr(w, 'last_actor_step', '')
    if step[:1] not in ('R', 'K', 'U'):
        return None
    for k, o in p.jobs.items():
        j = v.jobs.get(k)
        if j is None or (j['state'], j['attempt_id']) == (o['state'], o['attempt_id']):
            continue
        if o['state'] == 'Pending':
            continue            # a child released because the canceller finished (cancelled) its last parent
        if o['always_run'] or not p.marked(o):
            where = 'an always_run job' if o['always_run'] else 'a job that is not cancelled (no cancelled ancestor group, cancelled = 0)'
            return ('canceller-touched-job-outside-cancelled-subtree',
                    f'canceller loop {step!r} moved job {k} — {where}, group {o["job_group_id"]} — from {o["state"]} to {j["state"]} '
                    f'(cancelled groups: {sorted(p.cancelled)})')
    return None


def uncommitted_untouched(w, p: View, v: View) -> Optional[Tuple[str, str]]:
    """C41 for every step of the driver's loops: the job rows of updates that are not committed do not change, a batch without committed
    jobs keeps zero tallies, and the user's counters stay what a recount over the COMMITTED jobs gives"""
    from .oracles import recount_user, stored_user
    step = getattr(w, 'last_actor_step', '')
    for k, o in p.jobs.items():
        if p.committed(k[0], o['update_id']):
            continue
        j = v.jobs.get(k)
        if j is None or (j['state'], j['attempt_id'], j['cancelled'], j['n_pending_parents']) != \
                (o['state'], o['attempt_id'], o['cancelled'], o['n_pending_parents']):
            return ('driver-loop-touched-job-of-uncommitted-update',
                    f'step {step!r} changed job {k} of update {o["update_id"]}, which is not committed: '
                    f'{(o["state"], o["attempt_id"], o["cancelled"])} -> {(j["state"], j["attempt_id"], j["cancelled"]) if j else None}')
    for b, bt in v.batches.items():
        if bt['n_jobs'] == 0:
            for (bb, g), t in v.tallies.items():
                if bb == b and (t['n_completed'] or t['n_succeeded'] or t['n_failed'] or t['n_cancelled']):
                    return ('tallies-of-batch-without-committed-jobs', f'batch {b} has no committed job but group {g} tallies '
                                                                       f'{[t["n_completed"], t["n_succeeded"], t["n_failed"], t["n_cancelled"]]}')
    want, have = recount_user(v), stored_user(v)
    if want != have:
        kk = next(x for x in sorted(set(want) | set(have), key=str) if want.get(x) != have.get(x))
        return ('user-counters-moved-by-uncommitted-update', f'after step {step!r} user_inst_coll_resources{kk} = {have.get(kk)}, recount over '
                                                             f'committed jobs {want.get(kk)}')
    return None


def free_cores(w, v: View) -> Optional[Tuple[str, str]]:
    """C10 after a whole actor step: for every instance, the database row and the driver's in-memory Instance.free_cores_mcpu equal
    total cores minus the cores of the un-ended attempts placed on it (live instance) / all cores (inactive)"""
    used: Dict[str, int] = {}
    for a in v.attempts.values():
        if a['end_time'] is None and a['instance_name'] is not None:
            j = v.jobs.get((a['batch_id'], a['job_id']))
            used[a['instance_name']] = used.get(a['instance_name'], 0) + (j['cores_mcpu'] if j else 0)
    for name, inst in v.instances.items():
        free = v.free.get(name)
        want = inst['cores_mcpu'] - used.get(name, 0) if inst['state'] in ('pending', 'active') else inst['cores_mcpu']
        if free != want:
            cls = 'pending-instance-cores-not-released' if inst['state'] == 'pending' and free < want else f'{inst["state"]}-instance-free-cores-differ'
            return (cls, f'instance {name} ({inst["state"]}, {inst["cores_mcpu"]} mcpu): database free_cores_mcpu = {free}, expected {want}')
        mem = w.instances.get(name)
        step = getattr(w, 'last_actor_step', '')
        amb = f'-after-ambiguous-commit-of-{getattr(w, "last_ambiguous_call", "?")}' if step.endswith('~') else ''
        if mem is not None and mem.state != inst['state'] and inst['state'] in ('inactive', 'deleted') and mem.state in ('pending', 'active'):
            return ('in-memory-instance-state-stale' + amb, f'Instance {name} is {inst["state"]} in the database but still {mem.state} in the '
                                                           f'driver\'s memory after step {step!r} (in-memory free cores {mem.free_cores_mcpu})')
        if mem is not None and mem.state == inst['state'] and mem.state in ('pending', 'active', 'inactive') and mem.free_cores_mcpu != free:
            return ('in-memory-mirror-differs:' + inst['state'] + amb, f'Instance {name} ({inst["state"]}): in-memory free_cores_mcpu = '
                                                                f'{mem.free_cores_mcpu}, database {free}, total minus un-ended attempts {want}')
    return None


def liveness(v: View, ran: Dict[Tuple[int, int], bool]) -> Optional[Tuple[str, str]]:
    for k, j in v.jobs.items():
        if not v.committed(j['batch_id'], j['update_id']):
            continue
        if j['state'] not in TERMINAL:
            n = sum(1 for a in v.anc.get((k[0], j['job_group_id']), []) if (k[0], a) in v.cancelled)
            cls = 'job-under-two-cancelled-groups-never-finishes' if n >= 2 else f'committed-job-stuck-{j["state"]}'
            return (cls, f'after quiescence job {k} (always_run={j["always_run"]}, {n} cancelled ancestor groups) is still {j["state"]}')
        if j['always_run'] and j['state'] == 'Cancelled':
            return ('always-run-job-cancelled', f'always_run job {k} ended Cancelled')
    for b, bt in v.batches.items():
        if bt['n_jobs'] and bt['state'] != 'complete':
            return ('batch-not-complete-after-quiescence', f'batch {b} is {bt["state"]} after quiescence')
    for k, g in v.groups.items():
        if g['n_jobs'] and g['state'] != 'complete':
            return ('group-not-complete-after-quiescence', f'job group {k} is {g["state"]} after quiescence')
    # after quiescence nothing is left on the workers: no un-ended attempt on a live instance
    for a in v.attempts.values():
        inst = v.instances.get(a['instance_name']) if a['instance_name'] else None
        if a['end_time'] is None and inst is not None and inst['state'] == 'active':
            return ('orphan-attempt-survives-quiescence', f'attempt {a["attempt_id"]} of job {(a["batch_id"], a["job_id"])} is still open on active '
                                                          f'instance {a["instance_name"]}')
    return None


def run_actor_case(repo, c, step_checks, final_checks=()):
    """a submission prefix (protocol ops, compared with the Lean model by the caller) + the actor script + a fair run to quiescence;
    `step_checks`: functions (world, before: View, after: View) -> Optional[(class, message)] evaluated after every actor step and
    after every step of the quiescence run; `final_checks`: functions (world, view) evaluated at quiescence"""
    from .prop import RunResult
    from .world import World
    res = RunResult()
    w = World(0, repo)
    try:
        res.lines.append('ok')
        accepted = True
        for i, op in enumerate(c['ops']):
            ans = w.apply(op)
            res.lines.append(ans)
            res.lines.append(w.dump())
            res.n_ops = i + 1
            if op.startswith('commit') and ans != 'ok 0':
                accepted = False
        if not accepted:
            res.tags.append('prefix-with-refused-request')
            return res
        act = Actors(w, random.Random(c.get('aseed', 0)))
        fail = None

        def checked_step(a):
            nonlocal fail
            before = act.view()
            w.last_actor_step = a
            orig_step(a)
            after = act.view()
            if fail is None:
                for chk in step_checks:
                    f = chk(w, before, after)
                    if f:
                        fail = (f[0], f'after actor step {a!r} (steps so far {act.log}): {f[1]}')
                        break
        orig_step = act.step
        for a in c.get('actors', []):
            checked_step(a)
            if fail:
                break
        if fail is None:
            act.step = checked_step           # the quiescence run is checked step by step as well
            rounds = act.quiesce()
            act.step = orig_step
            if fail is None:
                v = act.view()
                for chk in final_checks:
                    f = chk(w, v)
                    if f:
                        fail = (f[0], f'after script {c.get("actors")} and {rounds} fair rounds: {f[1]}')
                        break
        for t, cond in (('cancel', any(a.startswith('C') for a in act.log)), ('preemption', 'F' in act.log),
                        ('scheduled-by-real-scheduler', any(x['instance_name'] for x in w.db.tables['attempts'])),
                        ('instance-preempted-while-job-in-flight', act.preempted_in_flight > 0),
                        ('job-started-while-schedule_job-in-flight', act.started_in_flight > 0),
                        ('ambiguous-commit-in-a-driver-call', act.ambiguous_commits > 0),
                        ('worker-answers-job-create-with-an-error', act.worker_errors > 0),
                        ('job-private-path', act.jp_scheduled > 0), ('job-private-activation-timeout', act.jp_timeouts > 0),
                        ('canceller-ready-loop-ran', 'R' in act.log),
                        ('canceller-running-loop-with-running-jobs-outside-the-cancelled-subtree', getattr(act, 'u_with_outsiders', 0) > 0),
                        ('failed-parent', any(j['state'] in ('Failed', 'Error') and (j['batch_id'], j['job_id']) in act.view().children
                                              for j in w.db.tables['jobs'])),
                        ('always-run-child-of-failed-parent', any(
                            j['always_run'] and j['cancelled'] for j in w.db.tables['jobs']))):
            if cond:
                res.tags.append(t)
        for e in sorted(set(x.split(':')[0] for x in act.errors)):
            res.tags.append('loop-error:' + e)
        if fail:
            res.failure = (max(res.n_ops - 1, 0), fail[0], fail[1])
    finally:
        w.close()
    return res

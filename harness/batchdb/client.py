"""C09 through the REAL client: hailtop.batch_client.aioclient.Batch submits 1-3 updates to the REAL front-end handlers
(create-fast / update-fast / updates/create / job-groups/create / jobs/create / commit, undecorated) over minisql, while the transport
loses responses: a request marked `dup` reaches the server twice and the client gets the answer of the second delivery (what
retry_transient_errors does after a dropped connection).

A case: {'kind': 'client', 'subs': [{'groups': n, 'jobs': [[group_index|None, [names of parent jobs]], ...], 'bunch': max_bunch_size|None}, ...],
         'dup': [0/1, ...], 'ambig': [0/1, ...]}
(dup is consumed cyclically, one entry per request; ambig likewise, one entry per delivery of a create / create-fast / updates/create /
update-fast / commit request: k >= 1 = the k-th COMMIT of that delivery is AMBIGUOUS — applied by the server, reported to the service as
error 2013 — so that gear.database.transaction re-runs the transaction body)

Checked after every submit() (all on the server tables, names are carried in a 'name' attribute):
  one batch; one update per submission with the declared sizes, committed; update job / group ranges contiguous, disjoint, in order;
  job ids exactly 1..N, n_jobs of batch and root group = N (nothing duplicated or double counted); ready counter = Ready jobs;
  a re-delivered request gets the same answer as its first delivery;
  client_ids_agree: the job / job-group ids the client computed equal the ids of the rows; dependencies follow the client's ids.
"""
from __future__ import annotations

import asyncio
import json
import logging
import random
import re
from typing import Any, Dict, List, Optional, Tuple


class _Req(dict):
    def __init__(self, app, match_info, body):
        super().__init__()
        self.app = app
        self.match_info = match_info
        self._body = body

    async def read(self):
        return self._body


class _Resp:
    def __init__(self, web_response):
        self.headers: Dict[str, str] = {}
        self._text = web_response.text

    async def json(self):
        return json.loads(self._text) if self._text else None


def _innermost(f):
    while hasattr(f, '__wrapped__'):
        f = f.__wrapped__
    return f


class Failure(Exception):
    def __init__(self, cls, msg):
        super().__init__(msg)
        self.cls = cls
        self.msg = msg


class LossySession:
    AMBIGUOUS_AT = ('create', 'create-fast', 'updates-create', 'update-fast', 'commit')

    def __init__(self, app, fe, userdata, dup: List[int], tags: List[str], ambig: Optional[List[int]] = None):
        self.app, self.fe, self.userdata = app, fe, userdata
        self.dup = dup or [0]
        self.ambig = ambig or [0]
        self.n_ambig = 0
        self.n = 0
        self.tags = tags
        self.lock = asyncio.Lock()      # one request at a time (whole transactions, as everywhere in E1)
        self.failure: Optional[Tuple[str, str]] = None

    def _route(self, method, path):
        fe = self.fe
        table = [
            ('POST', r'/api/v1alpha/batches/create-fast$', fe.create_batch_fast, 'create-fast'),
            ('POST', r'/api/v1alpha/batches/create$', fe.create_batch, 'create'),
            ('POST', r'/api/v1alpha/batches/(?P<batch_id>\d+)/update-fast$', fe.update_batch_fast, 'update-fast'),
            ('POST', r'/api/v1alpha/batches/(?P<batch_id>\d+)/updates/create$', fe.create_update, 'updates-create'),
            ('POST', r'/api/v1alpha/batches/(?P<batch_id>\d+)/updates/(?P<update_id>\d+)/jobs/create$', fe.create_jobs_for_update, 'jobs-create'),
            ('POST', r'/api/v1alpha/batches/(?P<batch_id>\d+)/updates/(?P<update_id>\d+)/job-groups/create$', fe.create_job_groups,
             'job-groups-create'),
            ('PATCH', r'/api/v1alpha/batches/(?P<batch_id>\d+)/updates/(?P<update_id>\d+)/commit$', fe.commit_update, 'commit'),
        ]
        for m, pat, handler, name in table:
            mo = re.match(pat, path)
            if m == method and mo:
                return handler, mo.groupdict(), name
        raise AssertionError(f'no route for {method} {path}')

    async def _deliver(self, method, path, body):
        handler, match_info, name = self._route(method, path)
        req = _Req(self.app, match_info, body)
        req['batch_telemetry'] = {}
        async with self.lock:
            pool = self.app['db'].pool
            if name in self.AMBIGUOUS_AT:
                flag = self.ambig[self.n_ambig % len(self.ambig)]
                self.n_ambig += 1
                if flag:
                    # AMBIGUOUS COMMIT at the first COMMIT of this request: the server applies it, the service sees 2013 (lost connection);
                    # gear.database.transaction re-runs the transaction body
                    import pymysql
                    from ..minisql import fakepool
                    fired = []

                    seen = [0]

                    def hook(i, sql):
                        if sql == 'COMMIT':
                            seen[0] += 1
                        if sql == 'COMMIT' and not fired and seen[0] == flag:     # the flag-th COMMIT the request issues
                            fired.append(i)
                            self.tags.append('ambiguous-commit:' + name)
                            return fakepool.commit_applied(pymysql.err.OperationalError(2013, 'Lost connection to MySQL server during query'))
                        return None
                    pool.faults = hook
            try:
                return await _innermost(handler)(req, self.userdata)
            finally:
                pool.faults = None

    async def _send(self, method, url, body):
        path = url[len('http://batch'):]
        name = self._route(method, path)[2]
        twice = self.dup[self.n % len(self.dup)]
        self.n += 1
        self.tags.append('request:' + name)
        first = await self._deliver(method, path, body)
        if not twice:
            return _Resp(first)
        self.tags.append('redelivered:' + name)
        try:
            second = await self._deliver(method, path, body)
        except Exception as e:   # noqa: BLE001
            if name == 'job-groups-create' and getattr(e, 'reason', None) == 'job group specs were not submitted in order':
                # the unchanged repository answers 400 to a replayed job-group bunch; nothing is created twice (state checked below)
                self.tags.append('redelivered-group-bunch-answered-400')
                return _Resp(first)
            if self.failure is None:
                self.failure = (f're-delivered-{name}-failed', f'{method} {path}: the re-delivered request failed: {type(e).__name__} '
                                                               f'{getattr(e, "reason", e)}')
            return _Resp(first)
        a = json.loads(first.text) if first.text else None
        b = json.loads(second.text) if second.text else None
        if a != b and self.failure is None:
            self.failure = (f're-delivered-{name}-answered-differently', f'{method} {path}: first delivery answered {a}, the re-delivery {b}')
        return _Resp(second)

    async def post(self, url, data=None, json=None, headers=None):   # noqa: A002
        import json as _json
        body = data._value if data is not None else _json.dumps(json).encode()
        return await self._send('POST', url, body)

    async def patch(self, url, headers=None):
        return await self._send('PATCH', url, b'')


def _check_server(db, bid, expected, where) -> Optional[Tuple[str, str]]:
    batches = list(db.tables['batches'])
    if len(batches) != 1:
        return ('second-batch-created', f'{where}: {len(batches)} batches exist for one (user, token): '
                                        f'{[(x["id"], x["user"], x["token"]) for x in batches]}')
    ups = sorted((u for u in db.tables['batch_updates'] if u['batch_id'] == bid), key=lambda u: u['update_id'])
    if [(u['n_jobs'], u['n_job_groups']) for u in ups] != expected:
        return ('updates-differ-from-submissions', f'{where}: updates on the server {[(u["update_id"], u["n_jobs"], u["n_job_groups"]) for u in ups]}, '
                                                   f'submitted sizes {expected}')
    nj, ng = 1, 1
    for u in ups:
        if (u['start_job_id'], u['start_job_group_id']) != (nj, ng):
            return ('update-ranges-not-contiguous', f'{where}: update {u["update_id"]} starts at job {u["start_job_id"]} / group '
                                                    f'{u["start_job_group_id"]}, expected {nj} / {ng}')
        nj += u['n_jobs']
        ng += u['n_job_groups']
        if not u['committed']:
            return ('update-not-committed', f'{where}: update {u["update_id"]} is not committed after submit() returned')
    jobs = [j for j in db.tables['jobs'] if j['batch_id'] == bid]
    total = sum(n for n, _ in expected)
    if sorted(j['job_id'] for j in jobs) != list(range(1, total + 1)):
        return ('job-ids-not-1..N', f'{where}: job ids on the server {sorted(j["job_id"] for j in jobs)}, expected 1..{total}')
    if batches[0]['n_jobs'] != total:
        return ('batch-n_jobs-double-counted', f'{where}: batches.n_jobs = {batches[0]["n_jobs"]}, submitted {total}')
    root = [g for g in db.tables['job_groups'] if g['batch_id'] == bid and g['job_group_id'] == 0][0]
    if root['n_jobs'] != total:
        return ('root-group-n_jobs-double-counted', f'{where}: root job group n_jobs = {root["n_jobs"]}, submitted {total}')
    groups = sorted(g['job_group_id'] for g in db.tables['job_groups'] if g['batch_id'] == bid)
    if groups != list(range(0, sum(g for _, g in expected) + 1)):
        return ('group-ids-not-0..M', f'{where}: job group ids on the server {groups}')
    ready = sum(r['n_ready_jobs'] for r in db.tables['user_inst_coll_resources'])
    actual = sum(1 for j in jobs if j['state'] == 'Ready')
    if ready != actual:
        return ('ready-counter-double-counted', f'{where}: user_inst_coll_resources counts {ready} ready jobs, the jobs table has {actual}')
    return None


def _check_ids(db, bid, cj, cg, declared_parents, where) -> Optional[Tuple[str, str]]:
    names = {a['job_id']: a['value'] for a in db.tables['job_attributes'] if a['batch_id'] == bid and a['key'] == 'name'}
    gnames = {a['job_group_id']: a['value'] for a in db.tables['job_group_attributes'] if a['batch_id'] == bid and a['key'] == 'name'}
    by_name = {v: k for k, v in names.items() if not v.startswith('same')}
    for name, j in cj.items():
        if by_name.get(name) != j.job_id:
            return ('client-ids-disagree', f'{where}: the client believes job {name!r} has id {j.job_id}, the server stored it as job {by_name.get(name)}')
    g_by_name = {v: k for k, v in gnames.items()}
    for name, jg in cg.items():
        if g_by_name.get(name) != jg.job_group_id:
            return ('client-ids-disagree', f'{where}: the client believes job group {name!r} has id {jg.job_group_id}, the server stored it as '
                                           f'job group {g_by_name.get(name)}')
    parents = {(names.get(p['job_id']), names.get(p['parent_id'])) for p in db.tables['job_parents'] if p['batch_id'] == bid}
    if parents != declared_parents:
        return ('dependencies-differ', f'{where}: dependencies stored {sorted(parents, key=str)}, declared {sorted(declared_parents)}')
    jg = {names.get(j['job_id']): j['job_group_id'] for j in db.tables['jobs'] if j['batch_id'] == bid}
    for name, j in cj.items():
        want = getattr(j, '_verif_group', None)
        want_id = 0 if want is None else g_by_name.get(want)
        if jg.get(name) != want_id:
            return ('job-in-wrong-group', f'{where}: job {name!r} was declared in group {want!r} (id {want_id}), the server stored it in group '
                                          f'{jg.get(name)}')
    return None


def _check_repeats(db, bid, cj, reps, where) -> Optional[Tuple[str, str]]:
    """every Job object the client created stands for its own job row: ids pairwise distinct, the row exists and carries the job's name"""
    ids = [j.job_id for j in cj.values()] + [j.job_id for _, j in reps]
    if len(set(ids)) != len(ids):
        dup = sorted({i for i in ids if ids.count(i) > 1})
        return ('two-client-jobs-share-one-id', f'{where}: the client holds several Job objects with the same id {dup}')
    names = {a['job_id']: a['value'] for a in db.tables['job_attributes'] if a['batch_id'] == bid and a['key'] == 'name'}
    rows = {j['job_id'] for j in db.tables['jobs'] if j['batch_id'] == bid}
    for name, j in reps:
        if j.job_id not in rows:
            return ('client-job-was-never-created', f'{where}: the client believes job {name!r} has id {j.job_id}; no such job row exists')
        if names.get(j.job_id) != name:
            return ('client-ids-disagree', f'{where}: job id {j.job_id} is {names.get(j.job_id)!r} on the server, the client believes it is {name!r}')
    return None


async def _run(repo, case, tags: List[str]) -> Optional[Tuple[str, str]]:
    from ..minisql import batchapp
    t = [1700000000.0]
    db = batchapp.seeded_db(random.Random(0), clock=lambda: t[0], repo=repo)
    app = await batchapp.make_app(db)
    try:
        from batch.front_end import front_end as fe
        from hailtop.batch_client.aioclient import BatchClient
        session = LossySession(app, fe, batchapp.USERDATA, list(case.get('dup') or [0]), tags, list(case.get('ambig') or [0]))
        client = BatchClient(batchapp.BILLING_PROJECT, 'http://batch', session, {})
        b = client.create_batch(attributes={'name': 'verif'}, token='batch-token-1')
        cj: Dict[str, Any] = {}
        cg: Dict[str, Any] = {}
        declared = set()
        expected: List[Tuple[int, int]] = []
        glist: List[Any] = []
        reps: List[Tuple[str, Any]] = []
        for si, sub in enumerate(case['subs']):
            for i in range(sub.get('same', 0)):
                # the same independent job is added again in a separate submit(): byte-identical spec lists in different updates
                reps.append((f'same{i + 1}', b.create_job('ubuntu:22.04', ['true'], attributes={'name': f'same{i + 1}'})))
            if sub.get('same'):
                tags.append('identical-spec-list-submitted-again' if any(x.get('same') == sub['same'] for x in case['subs'][:si])
                            else 'spec-list-that-will-be-repeated')
            for _ in range(sub['groups']):
                name = f'g{len(cg) + 1}'
                cg[name] = b.create_job_group(attributes={'name': name})
                glist.append((name, cg[name]))
            for gi, pars in sub['jobs']:
                name = f'j{len(cj) + 1}'
                pars = [p for p in pars if p in cj]
                kw: Dict[str, Any] = {}
                if pars:
                    kw['parents'] = [cj[p] for p in pars]
                target = b
                gname = None
                if gi is not None and glist:
                    gname, target = glist[gi % len(glist)]
                cj[name] = target.create_job('ubuntu:22.04', ['true'], attributes={'name': name}, **kw)
                cj[name]._verif_group = gname
                for p in pars:
                    declared.add((name, p))
            expected.append((len(sub['jobs']) + sub.get('same', 0), sub['groups']))
            if len(sub['jobs']) and sub['groups'] and len({sum(e[0] for e in expected[:-1]), sum(e[1] for e in expected[:-1])}) == 2:
                tags.append('update-with-different-start-ids')
            kw2: Dict[str, Any] = {'disable_progress_bar': True}
            if sub.get('bunch'):
                kw2['max_bunch_size'] = sub['bunch']
            try:
                await b.submit(**kw2)
            except Exception as e:    # noqa: BLE001
                if session.failure:
                    return session.failure
                if getattr(e, 'reason', None) == 'job group specs were not submitted in order' and any(t.startswith('ambiguous-commit') for t in tags):
                    # the unchanged repository: _create_job_groups is not idempotent, so when ITS transaction commits ambiguously the retry of
                    # the transaction body inside the service answers 400 although the groups were created.  Nothing is duplicated (the
                    # property's subject); the submission is abandoned here and not judged further.  Same oddity as the replayed group bunch.
                    tags.append('ambiguous-commit-of-job-groups-transaction-answered-400')
                    return None
                return ('submit-failed', f'submit #{si + 1} raised {type(e).__name__}: {str(getattr(e, "reason", e))[:200]}')
            if session.failure:
                return session.failure
            where = f'after submit #{si + 1}'
            f = _check_server(db, b.id, expected, where) or _check_ids(db, b.id, cj, cg, declared, where) or \
                _check_repeats(db, b.id, cj, reps, where)
            if f:
                return f
        return None
    finally:
        try:
            app['task_manager'].shutdown()
            await asyncio.sleep(0)
        except Exception:   # noqa: BLE001
            pass


def run_client_case(repo, case) -> Tuple[Optional[Tuple[str, str]], List[str]]:
    tags: List[str] = []
    prev = logging.root.manager.disable
    logging.disable(logging.CRITICAL)
    from .. import aloop
    loop = aloop.VLoop()          # virtual clock: the back-off sleeps of retry_transient_mysql_errors cost no wall time
    try:
        f = loop.run_until_complete(_run(repo, case, tags))
    finally:
        try:
            pending = [t for t in asyncio.all_tasks(loop) if not t.done()]
            for t in pending:
                t.cancel()
            if pending:
                loop.run_until_complete(asyncio.gather(*pending, return_exceptions=True))
        finally:
            loop.close()
            logging.disable(prev)
    return f, sorted(set(tags))


def gen_client_case(rng: random.Random) -> Dict[str, Any]:
    subs = []
    n_jobs_so_far = 0
    for k in range(rng.randint(1, 3)):
        groups = rng.choice([0, 0, 1, 2, 3])
        n = rng.randint(0 if groups else 1, 5)
        jobs = []
        for i in range(n):
            me = n_jobs_so_far + i + 1
            pars = sorted({f'j{p}' for p in range(1, me) if rng.random() < 0.25})
            jobs.append([rng.randrange(6) if rng.random() < 0.5 else None, pars])
        n_jobs_so_far += n
        subs.append({'groups': groups, 'jobs': jobs, 'bunch': rng.choice([None, None, 1, 2, 3])})
    if rng.random() < 0.3:
        # the same independent job(s) submitted again in a later, separate submit(): identical spec lists in two updates after the first
        m = rng.choice([1, 1, 2])
        bunch = rng.choice([None, None, 1])
        rep = {'groups': 0, 'jobs': [], 'same': m, 'bunch': bunch}
        subs = subs[:2] if len(subs) > 1 else subs
        pos = rng.randint(1, len(subs))
        subs = subs[:pos] + [dict(rep)] + subs[pos:] + [dict(rep)]
    mode = rng.random()
    dup = [1] if mode < 0.4 else [rng.randint(0, 1) for _ in range(rng.randint(2, 7))]
    c = {'kind': 'client', 'subs': subs, 'dup': dup, 'ops': []}
    if rng.random() < 0.5:
        # some transactions commit ambiguously (commit applied, connection error reported)
        c['ambig'] = [rng.choice([1, 2, 3])] if rng.random() < 0.3 else [rng.choice([0, 0, 1, 2, 3]) for _ in range(rng.randint(2, 6))]
        if rng.random() < 0.5:
            c['dup'] = [0]          # ... also without any re-delivery: the retry inside the service is enough
    return c

"""Evaluate ONE `BEFORE UPDATE` trigger of the repository on (OLD row, requested NEW row) pairs through the minisql interpreter.

`before_update_evaluator(repo, table, trigger)` returns `f(old: dict, new: dict) -> dict`: the column values the row holds after
`UPDATE <table> SET <every column of new> = <value>` ran against a one-row table holding `old`, with only the named trigger
installed (the verbatim text of the latest migration defining it).  Columns missing from `old` get a type-appropriate filler
(or NULL when the column is nullable); FOREIGN KEYs are not enforced (the table stands alone).  Used by property C03.
"""
from __future__ import annotations

from typing import Any, Callable, Dict

from . import extract
from .engine import MiniDB


def _filler(col) -> Any:
    if col.tclass in ('int', 'bigint', 'double', 'boolean', 'decimal'):
        return 0
    if col.tclass == 'enum' and col.enum_values:
        return col.enum_values[0]
    if col.tclass == 'date':
        return '2024-01-01'
    return 'x'


def before_update_evaluator(repo, table: str, trigger: str) -> Callable[[Dict[str, Any], Dict[str, Any]], Dict[str, Any]]:
    schema, routines = extract.load(repo)[:2]
    rs = routines if isinstance(routines, dict) else {r.name: r for r in routines}
    r = rs[trigger]
    tschema = schema[table]
    if r.kind != 'TRIGGER' or not __import__('re').search(r'BEFORE\s+UPDATE\s+ON\s+`?%s`?\b' % table, r.sql, __import__('re').I):
        raise ValueError(f'{trigger} is not a BEFORE UPDATE trigger of {table}')
    db = MiniDB({table: tschema}, {trigger: r})
    db.enforce_foreign_keys = False
    cols = tschema.colnames()
    meta = {c.name: c for c in tschema.columns}
    snap = db.snapshot()

    def run(old: Dict[str, Any], new: Dict[str, Any]) -> Dict[str, Any]:
        db.restore(snap)
        row = {}
        for c in cols:
            if c in old:
                row[c] = old[c]
            else:
                m = meta[c]
                row[c] = _filler(m) if m.not_null else None
        names = list(row)
        db.execute(f'INSERT INTO `{table}` ({", ".join("`%s`" % n for n in names)}) VALUES ({", ".join(["%s"] * len(names))})',
                   tuple(row[n] for n in names))
        keys = list(new)
        db.execute(f'UPDATE `{table}` SET ' + ', '.join(f'`{k}` = %s' for k in keys), tuple(new[k] for k in keys))
        rows = db.tables[table]
        assert len(rows) == 1
        return dict(rows[0])

    return run

"""Evaluate ONE `BEFORE UPDATE` trigger of the repository on (OLD row, requested NEW row) pairs through the minisql interpreter.

`before_update_evaluator(repo, table, trigger)` returns `f(old: dict, new: dict) -> dict`: the column values the row holds after
`UPDATE <table> SET <every column of new> = <value>` ran against a one-row table holding `old`, with only the named trigger
installed (the verbatim text of the latest migration defining it).  Columns missing from `old` get a type-appropriate filler
(or NULL when the column is nullable); FOREIGN KEYs are not enforced (the table stands alone).  Used by property C03.
"""
from __future__ import annotations

from typing import Any, Callable, Dict

from . import extract
from .engine import MiniDB


def _filler(col) -> Any:
    if col.tclass in ('int', 'bigint', 'double', 'boolean', 'decimal'):
        return 0
    if col.tclass == 'enum' and col.enum_values:
        return col.enum_values[0]
    if col.tclass == 'date':
        return '2024-01-01'
    return 'x'


def before_update_evaluator(repo, table: str, trigger: str) -> Callable[[Dict[str, Any], Dict[str, Any]], Dict[str, Any]]:
    schema, routines = extract.load(repo)[:2]
    rs = routines if isinstance(routines, dict) else {r.name: r for r in routines}
    r = rs[trigger]
    tschema = schema[table]
    if r.kind != 'TRIGGER' or not __import__('re').search(r'BEFORE\s+UPDATE\s+ON\s+`?%s`?\b' % table, r.sql, __import__('re').I):
        raise ValueError(f'{trigger} is not a BEFORE UPDATE trigger of {table}')
    db = MiniDB({table: tschema}, {trigger: r})
    db.enforce_foreign_keys = False
    cols = tschema.colnames()
    meta = {c.name: c for c in tschema.columns}
    snap = db.snapshot()

    def run(old: Dict[str, Any], new: Dict[str, Any]) -> Dict[str, Any]:
        db.restore(snap)
        row = {}
        for c in cols:
            if c in old:
                row[c] = old[c]
            else:
                m = meta[c]
                row[c] = _filler(m) if m.not_null else None
        names = list(row)
        db.execute(f'INSERT INTO `{table}` ({", ".join("`%s`" % n for n in names)}) VALUES ({", ".join(["%s"] * len(names))})',
                   tuple(row[n] for n in names))
        keys = list(new)
        db.execute(f'UPDATE `{table}` SET ' + ', '.join(f'`{k}` = %s' for k in keys), tuple(new[k] for k in keys))
        rows = db.tables[table]
        assert len(rows) == 1
        return dict(rows[0])

    return run


AGG_TABLES = ('aggregated_job_resources_v3', 'aggregated_job_group_resources_v3',
              'aggregated_billing_project_user_resources_v3', 'aggregated_billing_project_user_resources_by_date_v3')


def attempt_billing_evaluator(repo):
    """The three billing triggers of `attempts` / `attempt_resources` (verbatim text of the latest migrations defining
    `attempts_before_update`, `attempts_after_update`, `attempt_resources_after_insert`) executed by minisql on ONE attempt of one job.

    Returns `f(old: dict, new: dict, quantities: list[int]) -> (accepted row dict, usage_after_insert, usage_after_update)` where
      1. the attempts row is seeded with the `old` times / reason (no trigger: that row is the stored state the case starts from),
      2. one `attempt_resources` row per quantity is INSERTed (resource ids 1..n) -> `attempt_resources_after_insert` bills the old row,
      3. `UPDATE attempts SET start_time, rollup_time, end_time, reason = <new>` runs -> before + after update triggers,
    and each usage is `{table: [SUM(usage) of resource i over all shards / rows, for i = 1..n]}` for the four aggregated_*_v3 tables.
    The tables the triggers read (`globals`, `batches`, `jobs`, `job_group_self_and_ancestors`) hold one filler row each; FOREIGN KEYs
    are not enforced (the tables stand alone).  Used by property C03."""
    import random

    schema, routines = extract.load(repo)[:2]
    rs = routines if isinstance(routines, dict) else {r.name: r for r in routines}
    names = ['attempts', 'attempt_resources', 'globals', 'batches', 'jobs', 'job_group_self_and_ancestors'] + list(AGG_TABLES)
    trigs = ['attempts_before_update', 'attempts_after_update', 'attempt_resources_after_insert']
    db = MiniDB({n: schema[n] for n in names}, {t: rs[t] for t in trigs}, rng=random.Random(0), clock=lambda: 1704067200.0)
    db.enforce_foreign_keys = False

    def fill(table, given):
        row = {}
        for c in schema[table].columns:
            if c.name in given:
                row[c.name] = given[c.name]
            elif c.not_null and not getattr(c, 'auto_increment', False):
                row[c.name] = _filler(c)
        return row

    db.load_rows('globals', [fill('globals', {'n_tokens': 3})])
    db.load_rows('batches', [fill('batches', {'id': 1, 'user': 'u1', 'billing_project': 'bp1'})])
    db.load_rows('jobs', [fill('jobs', {'batch_id': 1, 'job_id': 1, 'job_group_id': 0, 'cores_mcpu': 1000})])
    db.load_rows('job_group_self_and_ancestors', [fill('job_group_self_and_ancestors', {'batch_id': 1, 'job_group_id': 0, 'ancestor_id': 0, 'level': 0})])
    snap = db.snapshot()

    def usage(n):
        out = {}
        for t in AGG_TABLES:
            tot = [0] * n
            for r in db.tables[t]:
                tot[r['resource_id'] - 1] += r['usage']
            out[t] = tot
        return out

    def run(old, new, quantities):
        db.restore(snap)
        db.load_rows('attempts', [fill('attempts', {'batch_id': 1, 'job_id': 1, 'attempt_id': 'a', **old})])
        for i, q in enumerate(quantities):
            db.execute('INSERT INTO attempt_resources (batch_id, job_id, attempt_id, resource_id, deduped_resource_id, quantity) '
                       'VALUES (%s, %s, %s, %s, %s, %s)', (1, 1, 'a', i + 1, i + 1, q))
        u0 = usage(len(quantities))
        keys = list(new)
        db.execute('UPDATE attempts SET ' + ', '.join(f'`{k}` = %s' for k in keys) + ' WHERE batch_id = 1 AND job_id = 1 AND attempt_id = %s',
                   tuple(new[k] for k in keys) + ('a',))
        (row,) = db.tables['attempts']
        return dict(row), u0, usage(len(quantities))

    return run

"""Environment variables that the batch modules read at import time (/repo/batch/batch/batch_configuration.py and friends)."""
import os

BATCH_ENV = {
    'KUBERNETES_SERVER_URL': 'https://kubernetes.invalid',
    'HAIL_DOCKER_PREFIX': 'docker.invalid/hail',
    'HAIL_DOCKER_ROOT_IMAGE': 'docker.invalid/hail/ubuntu:22.04',
    'HAIL_DEFAULT_NAMESPACE': 'default',
    'HAIL_SCOPE': 'test',
    'CLOUD': 'gcp',
    'HAIL_BATCH_STORAGE_URI': 'gs://verif-batch',
    'HAIL_BATCH_PODS_NAMESPACE': 'default',
    'HAIL_SHA': 'verif',
    'HAIL_DOMAIN': 'hail.invalid',
    'HAIL_BATCH_GCP_REGIONS': '["us-central1"]',
    'HAIL_GCP_PROJECT': 'verif-project',
    'HAIL_GCP_REGION': 'us-central1',
    'HAIL_GCP_ZONE': 'us-central1-a',
    'HAIL_QUERY_STORAGE_URI': 'gs://verif-query',
    'HAIL_QUERY_ACCEPTABLE_JAR_SUBFOLDER': '/jars',
    'INTERNAL_GATEWAY_IP': '10.0.0.1',
    'HAIL_TEST_STORAGE_URI': 'gs://verif-test',
    'HAIL_BATCH_WORKER_IMAGE': 'docker.invalid/hail/batch-worker:verif',
    'HAIL_DEPLOY_CONFIG_FILE': '',
}


def set_batch_env(extra=None):
    for k, v in BATCH_ENV.items():
        os.environ.setdefault(k, v)
    for k, v in (extra or {}).items():
        os.environ[k] = v

"""Value model of minisql: NULL = None, booleans = 0/1, ints, floats (DOUBLE), Decimal (DECIMAL / SUM of ints), str, date.

Comparison, three-valued logic, arithmetic and store-coercion (strict sql_mode) helpers.
"""
from __future__ import annotations

import datetime
import json
import math
import re
import unicodedata
from decimal import Decimal, ROUND_HALF_UP, InvalidOperation
from typing import Any, Optional


class SQLError(Exception):
    """A MySQL server error (errno, sqlstate, message). Converted to the pymysql exception class at the API boundary."""

    def __init__(self, errno: int, msg: str, sqlstate: str = 'HY000'):
        super().__init__(errno, msg)
        self.errno = errno
        self.msg = msg
        self.sqlstate = sqlstate


_ci_cache: dict = {}


def ci_key(s: str) -> str:
    """collation key approximating utf8mb4_0900_ai_ci / utf8_general_ci: case- and accent-insensitive"""
    k = _ci_cache.get(s)
    if k is None:
        if s.isascii():
            k = s.lower()
        else:
            k = ''.join(c for c in unicodedata.normalize('NFD', s) if not unicodedata.combining(c)).casefold()
        if len(_ci_cache) > 200000:
            _ci_cache.clear()
        _ci_cache[s] = k
    return k


_NUM_PREFIX = re.compile(r'\s*([+-]?(?:\d+\.?\d*(?:[eE][+-]?\d+)?|\.\d+(?:[eE][+-]?\d+)?))')


def str_to_number(s: str) -> float:
    """MySQL implicit string -> DOUBLE conversion: longest numeric prefix, else 0"""
    m = _NUM_PREFIX.match(s)
    if not m:
        return 0.0
    return float(m.group(1))


def to_date(v: Any) -> Optional[datetime.date]:
    if isinstance(v, datetime.datetime):
        return v.date()
    if isinstance(v, datetime.date):
        return v
    if isinstance(v, str):
        m = re.fullmatch(r'\s*(\d{4})-(\d{1,2})-(\d{1,2})(?:[ T].*)?\s*', v)
        if m:
            try:
                return datetime.date(int(m.group(1)), int(m.group(2)), int(m.group(3)))
            except ValueError:
                return None
        m = re.fullmatch(r'\s*(\d{4})(\d{2})(\d{2})\s*', v)
        if m:
            try:
                return datetime.date(int(m.group(1)), int(m.group(2)), int(m.group(3)))
            except ValueError:
                return None
    return None


def truth(v: Any) -> Optional[bool]:
    """SQL truth value of a scalar: None = UNKNOWN"""
    if v is None:
        return None
    if isinstance(v, str):
        return str_to_number(v) != 0
    if isinstance(v, (datetime.date, datetime.datetime)):
        return True
    return v != 0


def b3(v: Optional[bool]) -> Optional[int]:
    return None if v is None else (1 if v else 0)


def cmp_prepare(a: Any, b: Any, cs: bool = False):
    """bring two non-NULL values to a comparable pair (MySQL comparison type rules)"""
    ta = type(a)
    tb = type(b)
    if ta is tb:
        if ta is str and not cs:
            return ci_key(a), ci_key(b)
        return a, b
    if ta is bool:
        a = int(a)
    if tb is bool:
        b = int(b)
    sa = isinstance(a, str)
    sb = isinstance(b, str)
    if sa and sb:
        return (a, b) if cs else (ci_key(a), ci_key(b))
    da = isinstance(a, (datetime.date, datetime.datetime))
    db = isinstance(b, (datetime.date, datetime.datetime))
    if da or db:
        x = to_date(a) if not isinstance(a, datetime.datetime) else a
        y = to_date(b) if not isinstance(b, datetime.datetime) else b
        if x is None or y is None:
            raise SQLError(1525, f'Incorrect DATE value: {a if x is None else b!r}')
        if isinstance(x, datetime.datetime) != isinstance(y, datetime.datetime):
            x = x if isinstance(x, datetime.datetime) else datetime.datetime(x.year, x.month, x.day)
            y = y if isinstance(y, datetime.datetime) else datetime.datetime(y.year, y.month, y.day)
        return x, y
    if sa:
        return str_to_number(a), float(b)
    if sb:
        return float(a), str_to_number(b)
    if isinstance(a, float) and isinstance(b, Decimal):
        return a, float(b)
    if isinstance(b, float) and isinstance(a, Decimal):
        return float(a), b
    return a, b


def compare(op: str, a: Any, b: Any, cs: bool = False) -> Optional[int]:
    if a is None or b is None:
        if op == '<=>':
            return 1 if (a is None and b is None) else 0
        return None
    if isinstance(a, tuple) or isinstance(b, tuple):
        return compare_rows(op, a, b, cs)
    x, y = cmp_prepare(a, b, cs)
    if op == '=' or op == '<=>':
        return 1 if x == y else 0
    if op == '<>':
        return 1 if x != y else 0
    if op == '<':
        return 1 if x < y else 0
    if op == '<=':
        return 1 if x <= y else 0
    if op == '>':
        return 1 if x > y else 0
    if op == '>=':
        return 1 if x >= y else 0
    raise AssertionError(op)


def compare_rows(op: str, a: Any, b: Any, cs: bool) -> Optional[int]:
    if not (isinstance(a, tuple) and isinstance(b, tuple)) or len(a) != len(b):
        raise SQLError(1241, f'Operand should contain {len(a) if isinstance(a, tuple) else 1} column(s)', '21000')
    if op in ('=', '<>', '<=>'):
        unknown = False
        for x, y in zip(a, b):
            r = compare('<=>' if op == '<=>' else '=', x, y, cs)
            if r is None:
                unknown = True
            elif r == 0:
                return 0 if op != '<>' else 1
        if unknown:
            return None
        return 1 if op != '<>' else 0
    raise SQLError(1235, 'row ordering comparison is not supported by minisql')


def sort_key(v: Any):
    """total order used by ORDER BY / PK scans: NULL first, then numbers / strings (collation key) / dates"""
    if v is None:
        return (0, 0)
    if isinstance(v, str):
        return (2, ci_key(v), v)
    if isinstance(v, (datetime.date, datetime.datetime)):
        return (3, v.isoformat())
    if isinstance(v, bytes):
        return (4, v)
    return (1, v)


def norm_key(v: Any, cs: bool = False):
    """hashable equality key (GROUP BY, DISTINCT, unique indexes)"""
    if isinstance(v, str):
        return v if cs else ci_key(v)
    if isinstance(v, bool):
        return int(v)
    if isinstance(v, Decimal) and v == v.to_integral_value():
        return int(v)
    if isinstance(v, float) and v.is_integer():
        return int(v)
    return v


# --------------------------------------------------------------------------------------------------
# arithmetic


def _num(v: Any):
    if isinstance(v, bool):
        return int(v)
    if isinstance(v, (int, float, Decimal)):
        return v
    if isinstance(v, str):
        return str_to_number(v)
    if isinstance(v, (datetime.date, datetime.datetime)):
        return int(v.strftime('%Y%m%d'))
    raise SQLError(1105, f'cannot use {type(v).__name__} in arithmetic')


def arith(op: str, a: Any, b: Any) -> Any:
    if a is None or b is None:
        return None
    x = _num(a)
    y = _num(b)
    if isinstance(x, float) or isinstance(y, float):
        x = float(x)
        y = float(y)
    if op == '+':
        return x + y
    if op == '-':
        return x - y
    if op == '*':
        return x * y
    if op == '/':
        if y == 0:
            return None
        if isinstance(x, float):
            return x / y
        # exact-value division: scale = scale(x) + 4 (div_precision_increment)
        dx = Decimal(x)
        dy = Decimal(y)
        scale = max(0, -dx.as_tuple().exponent) + 4
        q = (dx / dy).quantize(Decimal(1).scaleb(-scale), rounding=ROUND_HALF_UP)
        return q
    if op == 'DIV':
        if y == 0:
            return None
        if isinstance(x, float):
            return int(math.trunc(x / y))
        q = Decimal(x) / Decimal(y)
        return int(q.to_integral_value(rounding='ROUND_DOWN'))
    if op == '%':
        if y == 0:
            return None
        if isinstance(x, float):
            return math.fmod(x, y)
        r = abs(x) % abs(y)
        return -r if x < 0 else r
    raise AssertionError(op)


def round_half_away(x) -> int:
    if isinstance(x, Decimal):
        return int(x.quantize(Decimal(1), rounding=ROUND_HALF_UP))
    if isinstance(x, float):
        if math.isnan(x) or math.isinf(x):
            raise SQLError(1264, 'Out of range value')
        # MySQL converts DOUBLE to integer with rint(): round-half-even
        return int(round(x))
    return int(x)


# --------------------------------------------------------------------------------------------------
# store coercion (strict mode)

_INT_RANGES = {
    'TINYINT': (-128, 127), 'SMALLINT': (-32768, 32767), 'MEDIUMINT': (-8388608, 8388607),
    'INT': (-2 ** 31, 2 ** 31 - 1), 'INTEGER': (-2 ** 31, 2 ** 31 - 1), 'BIGINT': (-2 ** 63, 2 ** 63 - 1),
    'BOOLEAN': (-128, 127), 'BOOL': (-128, 127),
}
_TEXT_LIMITS = {'TINYTEXT': 255, 'TEXT': 65535, 'MEDIUMTEXT': 16777215, 'LONGTEXT': 4294967295}


class TypeInfo:
    """parsed column / variable type"""
    __slots__ = ('raw', 'base', 'tclass', 'length', 'enum', 'lo', 'hi', 'cs', 'scale')

    def __init__(self, raw: str, enum=None, collation: Optional[str] = None):
        self.raw = raw
        u = raw.upper()
        m = re.match(r'[A-Z]+', u)
        self.base = m.group(0)
        self.length = None
        self.scale = None
        mm = re.match(r'[A-Z]+\((\d+)(?:,(\d+))?\)', u)
        if mm:
            self.length = int(mm.group(1))
            self.scale = int(mm.group(2)) if mm.group(2) else 0
        b = self.base
        self.enum = enum
        self.lo = self.hi = None
        if b in ('BOOLEAN', 'BOOL') or u.startswith('TINYINT(1)'):
            self.tclass = 'boolean'
            self.lo, self.hi = -128, 127
        elif b in _INT_RANGES:
            self.tclass = 'bigint' if b == 'BIGINT' else 'int'
            self.lo, self.hi = _INT_RANGES[b]
            if 'UNSIGNED' in u:
                self.lo, self.hi = 0, self.hi * 2 + 1
        elif b in ('DOUBLE', 'FLOAT', 'REAL'):
            self.tclass = 'double'
        elif b in ('DECIMAL', 'NUMERIC'):
            self.tclass = 'decimal'
        elif b in ('VARCHAR', 'CHAR'):
            self.tclass = 'varchar'
            if self.length is None:
                self.length = 1
        elif b in _TEXT_LIMITS:
            self.tclass = 'text'
            self.length = _TEXT_LIMITS[b]
        elif b in ('BLOB', 'MEDIUMBLOB', 'LONGBLOB', 'TINYBLOB', 'VARBINARY', 'BINARY'):
            self.tclass = 'blob'
        elif b == 'JSON':
            self.tclass = 'json'
        elif b == 'ENUM':
            self.tclass = 'enum'
            if enum is None:
                self.enum = re.findall(r"'((?:[^']|'')*)'", raw)
        elif b in ('DATE',):
            self.tclass = 'date'
        elif b in ('DATETIME', 'TIMESTAMP'):
            self.tclass = 'datetime'
        else:
            raise ValueError(f'unknown type {raw!r}')
        self.cs = bool(collation and (collation.endswith('_cs') or collation.endswith('_bin')))


def coerce(v: Any, t: TypeInfo, what: str) -> Any:
    """value as stored in a column / variable of type t. `what` names the column for messages."""
    if v is None:
        return None
    c = t.tclass
    if c in ('int', 'bigint', 'boolean'):
        if isinstance(v, bool):
            v = int(v)
        elif isinstance(v, int):
            pass
        elif isinstance(v, (float, Decimal)):
            v = round_half_away(v)
        elif isinstance(v, str):
            s = v.strip()
            if not re.fullmatch(r'[+-]?(?:\d+\.?\d*(?:[eE][+-]?\d+)?|\.\d+(?:[eE][+-]?\d+)?)', s):
                raise SQLError(1366, f"Incorrect integer value: '{v}' for column '{what}' at row 1")
            v = round_half_away(Decimal(s)) if not re.search(r'[eE]', s) else round_half_away(float(s))
        else:
            raise SQLError(1366, f"Incorrect integer value: {v!r} for column '{what}' at row 1")
        if v < t.lo or v > t.hi:
            raise SQLError(1264, f"Out of range value for column '{what}' at row 1", '22003')
        return v
    if c == 'double':
        if isinstance(v, str):
            s = v.strip()
            try:
                return float(s)
            except ValueError:
                raise SQLError(1265, f"Data truncated for column '{what}' at row 1", '01000')
        if isinstance(v, (int, float, Decimal)):
            return float(v)
        raise SQLError(1366, f"Incorrect double value: {v!r} for column '{what}'")
    if c == 'decimal':
        try:
            d = Decimal(str(v)) if not isinstance(v, Decimal) else v
        except InvalidOperation:
            raise SQLError(1366, f"Incorrect decimal value: {v!r} for column '{what}'")
        if t.length is not None:
            d = d.quantize(Decimal(1).scaleb(-(t.scale or 0)), rounding=ROUND_HALF_UP)
        return d
    if c in ('varchar', 'text'):
        if isinstance(v, str):
            s = v
        elif isinstance(v, bool):
            s = str(int(v))
        elif isinstance(v, (int, Decimal)):
            s = str(v)
        elif isinstance(v, float):
            s = repr(v) if not v.is_integer() else str(int(v))
        elif isinstance(v, (datetime.date, datetime.datetime)):
            s = v.isoformat(sep=' ') if isinstance(v, datetime.datetime) else v.isoformat()
        elif isinstance(v, bytes):
            s = v.decode('utf-8')
        else:
            raise SQLError(1366, f"Incorrect string value: {v!r} for column '{what}'")
        if c == 'varchar':
            if len(s) > t.length:
                raise SQLError(1406, f"Data too long for column '{what}' at row 1", '22001')
        elif len(s.encode('utf-8')) > t.length:
            raise SQLError(1406, f"Data too long for column '{what}' at row 1", '22001')
        return s
    if c == 'enum':
        if isinstance(v, str):
            k = ci_key(v)
            for e in t.enum:
                if ci_key(e) == k:
                    return e
        elif isinstance(v, int) and 1 <= v <= len(t.enum):
            return t.enum[v - 1]
        raise SQLError(1265, f"Data truncated for column '{what}' at row 1", '01000')
    if c == 'date':
        d = to_date(v)
        if d is None:
            raise SQLError(1292, f"Incorrect date value: {v!r} for column '{what}' at row 1", '22007')
        return d
    if c == 'datetime':
        if isinstance(v, datetime.datetime):
            return v
        if isinstance(v, datetime.date):
            return datetime.datetime(v.year, v.month, v.day)
        if isinstance(v, str):
            try:
                return datetime.datetime.fromisoformat(v.strip())
            except ValueError:
                pass
        raise SQLError(1292, f"Incorrect datetime value: {v!r} for column '{what}' at row 1", '22007')
    if c == 'json':
        if isinstance(v, str):
            try:
                json.loads(v)
            except ValueError:
                raise SQLError(3140, f"Invalid JSON text for column '{what}'", '22032')
            return v
        return json_text(v)
    if c == 'blob':
        if isinstance(v, str):
            return v.encode('utf-8')
        if isinstance(v, (bytes, bytearray)):
            return bytes(v)
        return str(v).encode()
    raise AssertionError(c)


# --------------------------------------------------------------------------------------------------
# JSON text as MySQL prints it: keys ordered by (length, bytes), ", " and ": " separators


def _json_norm(v: Any):
    if isinstance(v, Decimal):
        return int(v) if v == v.to_integral_value() and v.as_tuple().exponent >= 0 else float(v)
    if isinstance(v, dict):
        return {k: _json_norm(x) for k, x in sorted(v.items(), key=lambda kv: (len(kv[0].encode('utf-8')), kv[0].encode('utf-8')))}
    if isinstance(v, (list, tuple)):
        return [_json_norm(x) for x in v]
    if isinstance(v, (datetime.date, datetime.datetime)):
        return v.isoformat()
    return v


def json_text(v: Any) -> str:
    return json.dumps(_json_norm(v), separators=(', ', ': '), ensure_ascii=False)

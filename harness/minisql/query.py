"""SELECT executor of minisql (mixin of engine.MiniDB): nested-loop joins evaluated depth-first and lazily (so that
INSERT ... SELECT consumes rows one at a time, as MySQL does when it does not buffer), hash-index lookups for equality
conjuncts, GROUP BY / HAVING / ROW_NUMBER() / DISTINCT / ORDER BY / LIMIT / UNION / WITH."""
from __future__ import annotations

from typing import Any, Callable, Dict, Iterator, List, Optional, Tuple

from . import sqlparse as A
from .exprs import AMBIG, SchemaError, Scope, compile_expr, find_windows, has_aggregate, names_in
from .sqlparse import Unsupported
from .values import SQLError, norm_key, sort_key, str_to_number, to_date, truth
from decimal import Decimal


class Result:
    __slots__ = ('columns', 'rows')

    def __init__(self, columns: List[Tuple[str, str]], rows: List[tuple]):
        self.columns = columns      # [(name, table_alias)]
        self.rows = rows

    def colnames(self) -> List[str]:
        return [c[0].lower() for c in self.columns]

    def dict_rows(self) -> List[dict]:
        """as pymysql's DictCursor names them: a repeated name becomes 'table.name'"""
        keys: List[str] = []
        for name, tbl in self.columns:
            if name in keys:
                name = tbl + '.' + name
            keys.append(name)
        return [dict(zip(keys, r)) for r in self.rows]


class _Source:
    __slots__ = ('kind', 'alias', 'table', 'node', 'join', 'on', 'on_node', 'using', 'cols', 'rows', 'lateral', 'plan')

    def __init__(self):
        self.plan = None
        self.rows = None
        self.table = None
        self.on = None
        self.on_node = None
        self.using = None
        self.lateral = False


def _conjuncts(node, out):
    if isinstance(node, A.Binary) and node.op == 'AND':
        _conjuncts(node.l, out)
        _conjuncts(node.r, out)
    elif node is not None:
        out.append(node)


class _LazyAliases:
    """select-list aliases visible to GROUP BY (evaluated on demand for the current row)"""

    def __init__(self, items, X, sc):
        self.m = {}
        for e, alias, _ in items:
            if alias is not None and not isinstance(e, A.Star):
                self.m.setdefault(alias.lower(), e)
        for e, alias, _ in items:
            if alias is None and isinstance(e, A.Name):
                self.m.setdefault(e.parts[-1], e)
        self.X = X
        self.sc = sc

    def __contains__(self, k):
        return k in self.m

    def __getitem__(self, k):
        sc = self.sc
        mode = sc.alias_mode
        sc.alias_mode = 0
        try:
            return compile_expr(self.m[k])(self.X)
        finally:
            sc.alias_mode = mode


class QueryMixin:
    # ---------------------------------------------------------------------------------------------
    def run_subquery(self, q, X, exists_only=False) -> Result:
        return self.run_query(q, X)

    def run_query(self, q, X, sink=None) -> Result:
        """execute a query expression in the context X (X.scope = enclosing query level)"""
        t = type(q)
        if t is A.Select:
            return self.exec_select(q, X, sink)
        if t is A.With:
            frame = {}
            X.ctes.append(frame)
            try:
                for name, cols, cq in q.ctes:
                    res = self.run_query(cq, X)
                    if cols is not None:
                        if len(cols) != len(res.columns):
                            raise SQLError(1353, 'CTE column list length mismatch')
                        res = Result([(c, name) for c in cols], res.rows)
                    frame[name] = res
                return self.run_query(q.body, X, sink)
            finally:
                X.ctes.pop()
        if t is A.Union:
            return self.exec_union(q, X, sink)
        raise Unsupported('query node ' + t.__name__)

    def exec_union(self, u, X, sink) -> Result:
        results = [self.run_query(p, X) for p in u.parts]
        first = results[0]
        rows = list(first.rows)
        for res, is_all in zip(results[1:], u.alls):
            if len(res.columns) != len(first.columns):
                raise SQLError(1222, 'The used SELECT statements have a different number of columns', '21000')
            rows += res.rows
            if not is_all:
                rows = self._distinct(rows)
        cols = first.columns
        if u.order_by:
            names = [c[0].lower() for c in cols]
            keys = []
            for e, desc in u.order_by:
                if isinstance(e, A.Lit) and isinstance(e.value, int):
                    idx = e.value - 1
                elif isinstance(e, A.Name) and e.parts[-1] in names:
                    idx = names.index(e.parts[-1])
                elif isinstance(e, A.Unary) and e.op == '-' and isinstance(e.e, A.Name) and e.e.parts[-1] in names:
                    idx = names.index(e.e.parts[-1])
                    keys.append((idx, desc, True))
                    continue
                else:
                    raise Unsupported('ORDER BY expression on a UNION / parenthesised SELECT', repr(e))
                keys.append((idx, desc, False))
            for idx, desc, neg in reversed(keys):
                if neg:
                    rows.sort(key=lambda r: sort_key(None if r[idx] is None else -r[idx]), reverse=desc)
                else:
                    rows.sort(key=lambda r: sort_key(r[idx]), reverse=desc)
        rows = self._limit(rows, u.limit, u.offset, X)
        res = Result(cols, rows)
        if sink is not None:
            for r in rows:
                sink(r, None)
        return res

    @staticmethod
    def _distinct(rows):
        seen = set()
        out = []
        for r in rows:
            k = tuple(norm_key(v) for v in r)
            if k not in seen:
                seen.add(k)
                out.append(r)
        return out

    def _limit(self, rows, limit, offset, X):
        if limit is None:
            return rows
        n = compile_expr(limit)(X)
        o = compile_expr(offset)(X) if offset is not None else 0
        if not isinstance(n, int) or not isinstance(o, int) or n < 0 or o < 0:
            raise SQLError(1064, f'bad LIMIT value {n!r} OFFSET {o!r}', '42000')
        return rows[o:o + n]

    # ---------------------------------------------------------------------------------------------
    def query_columns(self, q, X) -> List[str]:
        """static output column names of a query (needed to register derived tables before they are materialised)"""
        if isinstance(q, A.With):
            frame = {}
            X.ctes.append(frame)
            try:
                for name, cols, cq in q.ctes:
                    frame[name] = Result([(c, name) for c in (cols or self.query_columns(cq, X))], [])
                return self.query_columns(q.body, X)
            finally:
                X.ctes.pop()
        if isinstance(q, A.Union):
            return self.query_columns(q.parts[0], X)
        out = []
        srcs = None
        for e, alias, text in q.items:
            if isinstance(e, A.Star):
                if srcs is None:
                    srcs = self._static_sources(q.from_, X)
                for a, cols, hidden in srcs:
                    if e.table is None or e.table == a:
                        out += [c for c in cols if c not in hidden or e.table is not None]
                if e.table is not None and not any(a == e.table for a, _, _ in srcs):
                    raise SchemaError(f"Unknown table '{e.table}' in {e.table}.*")
            elif alias is not None:
                out.append(alias.lower())
            elif isinstance(e, A.Name):
                out.append(e.parts[-1])
            else:
                out.append(text.lower())
        return out

    def _static_sources(self, node, X, out=None):
        if out is None:
            out = []
        if node is None:
            return out
        if isinstance(node, A.Join):
            self._static_sources(node.left, X, out)
            n0 = len(out)
            self._static_sources(node.right, X, out)
            if node.using:
                a, cols, hidden = out[n0]
                out[n0] = (a, cols, set(hidden) | set(node.using))
        elif isinstance(node, A.TableRef):
            cte = self._find_cte(node.name, X)
            if cte is not None:
                out.append((node.alias or node.name, cte.colnames(), set()))
            else:
                out.append((node.alias or node.name, self.table(node.name).cols, set()))
        else:
            out.append((node.alias, self.query_columns(node.q, X), set()))
        return out

    @staticmethod
    def _find_cte(name, X):
        for frame in reversed(X.ctes):
            r = frame.get(name)
            if r is not None:
                return r
        return None

    # ---------------------------------------------------------------------------------------------
    def _flatten(self, node, out, join=None):
        if isinstance(node, A.Join):
            self._flatten(node.left, out, join)
            self._flatten(node.right, out, node)
        else:
            out.append((node, join))

    def build_sources(self, from_, X, sc: Scope) -> List[_Source]:
        """register the FROM clause in scope sc; materialise non-lateral derived tables (in the enclosing scope)"""
        flat: List[Tuple[Any, Any]] = []
        if from_ is not None:
            self._flatten(from_, flat)
        srcs: List[_Source] = []
        for node, join in flat:
            s = _Source()
            s.node = node
            s.join = join.kind if join is not None else None
            if isinstance(node, A.TableRef):
                s.alias = node.alias or node.name
                cte = self._find_cte(node.name, X)
                if cte is not None:
                    s.kind = 'rows'
                    s.cols = cte.colnames()
                    self._check_dup_cols(s.cols, s.alias)
                    s.rows = [dict(zip(s.cols, r)) for r in cte.rows]
                else:
                    s.kind = 'table'
                    s.table = self.table(node.name)
                    s.cols = s.table.cols
                    self._read_guard(s.table, X.sess)
            else:
                s.alias = node.alias
                s.lateral = bool(node.lateral)
                s.cols = self.query_columns(node.q, X)
                self._check_dup_cols(s.cols, s.alias)
                if s.lateral:
                    s.kind = 'lateral'
                else:
                    s.kind = 'rows'
                    saved = X.scope
                    X.scope = sc.parent
                    try:
                        res = self.run_query(node.q, X)
                    finally:
                        X.scope = saved
                    s.rows = [dict(zip(s.cols, r)) for r in res.rows]
            sc.add_source(s.alias, s.cols, s.table)
            if join is not None:
                if join.on is not None:
                    s.on_node = join.on
                    s.on = compile_expr(join.on)
                elif join.using:
                    s.using = join.using
                    left_aliases = [x.alias for x in srcs]
                    pairs = []
                    for c in join.using:
                        la = next((a for a in left_aliases if c in sc.cols[a]), None)
                        if la is None or c not in s.cols:
                            raise SchemaError(f"Unknown column '{c}' in USING")
                        pairs.append((la, c))
                        sc.colmap[c] = la      # unqualified reference resolves to the left column
                    alias = s.alias

                    def on_using(X, pairs=pairs, alias=alias):
                        rows = X.scope.rows
                        for la, c in pairs:
                            lrow = rows.get(la)
                            rrow = rows.get(alias)
                            if lrow is None or rrow is None:
                                return 0
                            a, b = lrow[c], rrow[c]
                            if a is None or b is None or norm_key(a) != norm_key(b):
                                return 0
                        return 1
                    s.on = on_using
            srcs.append(s)
        return srcs

    @staticmethod
    def _check_dup_cols(cols, alias):
        if len(set(cols)) != len(cols):
            d = next(c for c in cols if cols.count(c) > 1)
            raise SQLError(1060, f"Duplicate column name '{d}' (derived table / CTE {alias})", '42S21')

    # -- index planning ----------------------------------------------------------------------------
    def _plan_lookup(self, s: _Source, idx: int, srcs: List[_Source], cond, X, sc: Scope):
        """equality conjuncts `s.col = <expr not depending on s or later sources>` usable for a hash lookup"""
        if cond is None or s.kind != 'table':
            return None
        cache = getattr(s.node, '_plan', None)
        if cache is None:
            cache = s.node._plan = {}
        ck = (id(cond), idx)
        if ck in cache:
            return cache[ck]
        cache[ck] = res = self._plan_lookup_uncached(s, idx, srcs, cond, X, sc)
        return res

    def _plan_lookup_uncached(self, s: _Source, idx: int, srcs: List[_Source], cond, X, sc: Scope):
        conj: List[Any] = []
        _conjuncts(cond, conj)
        allowed = {x.alias for x in srcs[:idx]}
        this = s.alias
        fr = X.frame
        plan = []
        for c in conj:
            if not (isinstance(c, A.Binary) and c.op == '='):
                continue
            for a, b in ((c.l, c.r), (c.r, c.l)):
                if not isinstance(a, A.Name):
                    continue
                col = a.parts[-1]
                if len(a.parts) == 2:
                    if a.parts[0] != this:
                        continue
                    # a closer scope could shadow the alias only at this level, which is where we are
                else:
                    if fr is not None and fr.lookup(col) is not None:
                        continue
                    if sc.colmap.get(col) != this:
                        continue
                if col not in s.table.types:
                    continue
                names: List[Any] = []
                if not names_in(b, names):
                    continue
                ok = True
                for nm in names:
                    if len(nm.parts) == 2:
                        q = nm.parts[0]
                        if q in sc.cols and q not in allowed:
                            ok = False
                    else:
                        n1 = nm.parts[0]
                        if fr is not None and fr.lookup(n1) is not None:
                            continue
                        al = sc.colmap.get(n1)
                        if al is not None and (al is AMBIG or al not in allowed):
                            ok = False
                    if not ok:
                        break
                if ok:
                    plan.append((col, compile_expr(b)))
                    break
        if not plan:
            return None
        # one conjunct per column
        seen = set()
        uniq = []
        for col, f in plan:
            if col not in seen:
                seen.add(col)
                uniq.append((col, f))
        uniq.sort(key=lambda x: x[0])
        return uniq

    def _lookup(self, s: _Source, X) -> List[dict]:
        """candidate rows of base table s for the current left row (X.scope.rows)"""
        t = s.table
        plan = s.plan
        if plan is None:
            return t.scan()
        cols = []
        key = []
        for col, f in plan:
            v = f(X)
            if v is None:
                return []
            tc = t.types[col].tclass
            if isinstance(v, tuple):
                continue
            if tc in ('int', 'bigint', 'boolean', 'double', 'decimal'):
                if isinstance(v, str):
                    v = str_to_number(v)
                elif not isinstance(v, (int, float, Decimal)):
                    continue
            elif tc in ('varchar', 'text', 'enum'):
                if not isinstance(v, str):
                    continue
            elif tc == 'date':
                d = to_date(v)
                if d is None:
                    continue
                v = d
            else:
                continue
            cols.append(col)
            key.append(norm_key(v, t.cs[col]))
        if not cols:
            return t.scan()
        lst = t.index(tuple(cols)).get(tuple(key))
        if not lst:
            return []
        return t.order(list(lst))

    # -- the join ------------------------------------------------------------------------------------
    def join_rows(self, srcs: List[_Source], where, X, sc: Scope) -> Iterator[Dict[str, Optional[dict]]]:
        """lazily yields row maps {alias: row|None} satisfying the joins and WHERE (depth-first nested loops)"""
        n = len(srcs)
        wheref = compile_expr(where) if where is not None else None
        if n == 0:
            sc.rows = {}
            if wheref is None or truth(wheref(X)):
                yield {}
            return
        for i, s in enumerate(srcs):
            cond = s.on_node if i > 0 else None
            if i == 0 or (s.join in ('INNER', 'CROSS') and s.on_node is None):
                cond = where if i == 0 else None
            s.plan = self._plan_lookup(s, i, srcs, cond, X, sc)
            if s.plan is None and i > 0 and s.join in ('INNER', 'CROSS') and where is not None:
                s.plan = self._plan_lookup(s, i, srcs, where, X, sc)

        def rec(i, rm):
            if i == n:
                sc.rows = rm
                if wheref is None or truth(wheref(X)):
                    yield rm
                return
            s = srcs[i]
            sc.rows = rm
            if s.kind == 'table':
                cands = self._lookup(s, X)
            elif s.kind == 'rows':
                cands = s.rows
            else:  # lateral: re-materialised for every left row, sees the left row and the current table contents
                saved = X.scope
                X.scope = sc
                try:
                    res = self.run_query(s.node.q, X)
                finally:
                    X.scope = saved
                cands = [dict(zip(s.cols, r)) for r in res.rows]
            on = s.on
            alias = s.alias
            matched = False
            for r in cands:
                rm2 = dict(rm)
                rm2[alias] = r
                if on is not None:
                    sc.rows = rm2
                    if not truth(on(X)):
                        continue
                matched = True
                yield from rec(i + 1, rm2)
            if not matched and s.join == 'LEFT':
                rm2 = dict(rm)
                rm2[alias] = None
                yield from rec(i + 1, rm2)

        yield from rec(0, {})

    # -- SELECT --------------------------------------------------------------------------------------
    def exec_select(self, sel, X, sink=None) -> Result:
        parent = X.scope
        sc = Scope(parent)
        srcs = self.build_sources(sel.from_, X, sc)
        X.scope = sc
        try:
            return self._exec_select_in(sel, X, sc, srcs, sink)
        finally:
            X.scope = parent

    def _expand_items(self, sel, sc: Scope, srcs: List[_Source]):
        """[(fn, name, table_alias, alias_key)]"""
        out = []
        for e, alias, text in sel.items:
            if isinstance(e, A.Star):
                found = False
                for s in srcs:
                    if e.table is None or e.table == s.alias:
                        found = True
                        for c in s.cols:
                            if e.table is None and s.using and c in s.using:
                                continue
                            a = s.alias
                            out.append(((lambda X, a=a, c=c: (X.scope.rows.get(a) or _NULLROW)[c]), self._decl_name(s, c), a, None, c))
                if not found:
                    raise SchemaError(f"Unknown table '{e.table}' in {e.table}.*")
                continue
            f = compile_expr(e)
            tbl = ''
            if isinstance(e, A.Name):
                name = e.parts[-1]
                if len(e.parts) == 2:
                    tbl = e.parts[0]
                else:
                    a = sc.colmap.get(name)
                    tbl = a if isinstance(a, str) else ''
                s = next((x for x in srcs if x.alias == tbl), None)
                if s is not None:
                    name = self._decl_name(s, name)
            else:
                name = text
            if alias is not None:
                name = alias
            out.append((f, name, tbl, alias.lower() if alias is not None else None,
                        e.parts[-1] if (alias is None and isinstance(e, A.Name)) else None))
        return out

    @staticmethod
    def _decl_name(s: _Source, c: str) -> str:
        if s.table is not None:
            cd = s.table.coldefs.get(c)
            if cd is not None:
                return cd.name
        return c

    def check_names(self, nodes, X, sc: Scope, aliases=()):
        """MySQL resolves every column reference when it prepares a statement; do the same so that an unknown column is
        reported even when no row is evaluated"""
        names: List[Any] = []
        names_in(nodes, names)
        fr = X.frame
        for nm in names:
            parts = nm.parts
            s = sc
            if len(parts) == 1:
                n1 = parts[0]
                if (fr is not None and fr.lookup(n1) is not None) or n1 in aliases:
                    continue
                while s is not None and n1 not in s.colmap:
                    s = s.parent
                if s is None:
                    raise SchemaError(f"Unknown column '{n1}' (1054)")
            else:
                tb, c = parts
                while s is not None and tb not in s.cols:
                    s = s.parent
                if s is None:
                    if fr is not None and tb in ('new', 'old') and fr.pseudo(tb) is not None:
                        if c not in fr.pseudo(tb):
                            raise SchemaError(f"Unknown column '{tb}.{c}' (1054)")
                        continue
                    raise SchemaError(f"Unknown table '{tb}' in field list ({tb}.{c}) (1054)")
                if c not in s.cols[tb]:
                    raise SchemaError(f"Unknown column '{tb}.{c}' (1054)")

    def _exec_select_in(self, sel, X, sc: Scope, srcs, sink) -> Result:
        plan = getattr(sel, '_plan', None)
        if plan is None:
            al = {a.lower() for _, a, _ in sel.items if a is not None}
            self.check_names([[e for e, _, _ in sel.items if not isinstance(e, A.Star)], sel.where,
                              [s.on_node for s in srcs if s.on_node is not None]], X, sc)
            self.check_names([sel.group_by, sel.having, [e for e, _ in (sel.order_by or [])]], X, sc, al)
            wins: List[Any] = []
            find_windows([e for e, _, _ in sel.items], wins)
            plan = sel._plan = {
                'grouped': bool(sel.group_by) or any(has_aggregate(e) for e, _, _ in sel.items) or has_aggregate(sel.having)
                or has_aggregate([e for e, _ in (sel.order_by or [])]),
                'windows': wins,
            }
        items = self._expand_items(sel, sc, srcs)
        columns = [(name, tbl) for _, name, tbl, _, _ in items]
        fns = [f for f, _, _, _, _ in items]
        alias_keys = [(i, k) for i, (_, _, _, k, _) in enumerate(items) if k is not None]
        _seen = {k for _, k in alias_keys}
        # non-aliased plain columns (also those expanded from *) are addressable by their name too, after real aliases
        for i, (_, _, _, _, cn) in enumerate(items):
            if cn is not None and cn not in _seen:
                _seen.add(cn)
                alias_keys.append((i, cn))
        grouped = plan['grouped']
        windows = plan['windows']
        order = sel.order_by
        ordf = None
        if order:
            ordf = []
            for e, desc in order:
                if isinstance(e, A.Lit) and isinstance(e.value, int):
                    pos = e.value - 1
                    if not 0 <= pos < len(fns):
                        raise SQLError(1054, f"Unknown column '{e.value}' in 'order clause'")
                    ordf.append((('pos', pos), desc))
                else:
                    ordf.append((compile_expr(e), desc))
        havingf = compile_expr(sel.having) if sel.having is not None else None
        streaming = sink is not None and not order and not sel.distinct and sel.limit is None and not windows
        out_rows: List[tuple] = []
        out_keys: List[tuple] = []
        out_maps: List[Any] = []

        def emit(rm):
            """evaluate the select list for the current sc.rows / sc.group"""
            vals = tuple(f(X) for f in fns)
            if havingf is not None or ordf:
                sc.sel_vals = {k: vals[i] for i, k in alias_keys}
                sc.alias_mode = 1
                try:
                    if havingf is not None and not truth(havingf(X)):
                        return
                    if ordf:
                        out_keys.append(tuple(vals[f[1]] if isinstance(f, tuple) else f(X) for f, _ in ordf))
                finally:
                    sc.alias_mode = 0
                    sc.sel_vals = None
            if streaming:
                sink(vals, rm)
            else:
                out_rows.append(vals)
                out_maps.append(rm)

        rowmaps = self.join_rows(srcs, sel.where, X, sc)
        if grouped:
            if windows:
                raise Unsupported('window function together with GROUP BY / aggregates', sel.text or '')
            groups: Dict[tuple, List[dict]] = {}
            if sel.group_by:
                gfs = []
                gnames = []
                for g in sel.group_by:
                    if isinstance(g, A.Lit) and isinstance(g.value, int):
                        gfs.append(fns[g.value - 1])
                    else:
                        gfs.append(compile_expr(g))
                    if isinstance(g, A.Name):
                        gnames.append(g.parts[-1])
                lazy = _LazyAliases(sel.items, X, sc)
                for rm in rowmaps:
                    sc.rows = rm
                    sc.sel_vals = lazy
                    sc.alias_mode = 2
                    try:
                        k = tuple(norm_key(f(X)) for f in gfs)
                    finally:
                        sc.alias_mode = 0
                        sc.sel_vals = None
                    groups.setdefault(k, []).append(rm)
                sc.group_names = tuple(n for n in gnames if n in sc.colmap)
                glist = list(groups.values())
            else:
                glist = [list(rowmaps)]
            nullmap = {s.alias: None for s in srcs}
            for g in glist:
                sc.group = g
                sc.rows = g[0] if g else nullmap
                try:
                    emit(sc.rows)
                finally:
                    sc.group = None
            sc.group_names = ()
        elif windows:
            rms = list(rowmaps)
            wvals: List[Dict[int, Any]] = [dict() for _ in rms]
            for w in windows:
                pf = [compile_expr(p) for p in (w.partition or [])]
                of = [(compile_expr(e), d) for e, d in (w.order or [])]
                idxs = list(range(len(rms)))
                keys = {}
                for i in idxs:
                    sc.rows = rms[i]
                    keys[i] = (tuple(norm_key(f(X)) for f in pf), [f(X) for f, _ in of])
                for j in reversed(range(len(of))):
                    idxs.sort(key=lambda i: sort_key(keys[i][1][j]), reverse=of[j][1])
                counters: Dict[tuple, int] = {}
                for i in idxs:
                    p = keys[i][0]
                    counters[p] = counters.get(p, 0) + 1
                    wvals[i][id(w)] = counters[p]
            for i, rm in enumerate(rms):
                sc.rows = rm
                sc.windows = wvals[i]
                try:
                    emit(rm)
                finally:
                    sc.windows = None
        else:
            for rm in rowmaps:
                sc.rows = rm
                emit(rm)
        if streaming:
            return Result(columns, [])
        rows = out_rows
        maps = out_maps
        if ordf:
            idxs = list(range(len(rows)))
            for j in reversed(range(len(ordf))):
                idxs.sort(key=lambda i: sort_key(out_keys[i][j]), reverse=ordf[j][1])
            rows = [rows[i] for i in idxs]
            maps = [maps[i] for i in idxs]
        if sel.distinct:
            seen = set()
            r2 = []
            m2 = []
            for r, m in zip(rows, maps):
                k = tuple(norm_key(v) for v in r)
                if k not in seen:
                    seen.add(k)
                    r2.append(r)
                    m2.append(m)
            rows, maps = r2, m2
        if sel.limit is not None:
            n0 = len(rows)
            rows = self._limit(rows, sel.limit, sel.offset, X)
            if len(rows) != n0:
                o = compile_expr(sel.offset)(X) if sel.offset is not None else 0
                maps = maps[o:o + len(rows)]
        if sink is not None:
            for r, m in zip(rows, maps):
                sink(r, m)
            return Result(columns, [])
        return Result(columns, rows)


class _NullRow(dict):
    def __missing__(self, k):
        return None


_NULLROW = _NullRow()

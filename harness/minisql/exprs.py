"""Expression compiler of minisql: AST node -> python closure f(X) -> value.

X is the execution context (`engine.Ctx`): X.db, X.sess, X.frame (stored-program frame or None), X.scope (current query
level `Scope`, chained through .parent to outer query levels), X.params, X.values_row (row proposed for insertion, read by
VALUES(col) in ON DUPLICATE KEY UPDATE).
"""
from __future__ import annotations

import datetime
import math
import re
from decimal import Decimal
from typing import Any, Callable, Dict, List, Optional

from . import sqlparse as A
from .sqlparse import Unsupported, MiniSQLError
from .values import (SQLError, arith, b3, ci_key, compare, json_text, norm_key, round_half_away, sort_key, str_to_number,
                     to_date, truth)


class SchemaError(MiniSQLError):
    """unknown table / column / routine: the SQL does not fit the extracted schema (machinery error, exit 2)"""


AMBIG = object()


class Scope:
    """one query level while its rows are being evaluated"""
    __slots__ = ('rows', 'colmap', 'cols', 'parent', 'group', 'sel_vals', 'alias_mode', 'group_names', 'windows', 'tables')

    def __init__(self, parent=None):
        self.rows: Dict[str, Optional[dict]] = {}
        self.colmap: Dict[str, Any] = {}      # column -> alias | AMBIG
        self.cols: Dict[str, List[str]] = {}  # alias -> ordered column names
        self.tables: Dict[str, Any] = {}      # alias -> storage.Table (base tables only)
        self.parent = parent
        self.group = None
        self.sel_vals = None
        self.alias_mode = 0                   # 0: columns only, 1: aliases first (ORDER BY / HAVING), 2: aliases last (GROUP BY)
        self.group_names = ()
        self.windows = None

    def add_source(self, alias: str, cols: List[str], table=None):
        if alias in self.cols:
            raise SQLError(1066, f"Not unique table/alias: '{alias}'", '42000')
        self.cols[alias] = cols
        if table is not None:
            self.tables[alias] = table
        cm = self.colmap
        for c in cols:
            if c in cm:
                cm[c] = AMBIG
            else:
                cm[c] = alias


def lookup_unqualified(X, name: str):
    fr = X.frame
    if fr is not None:
        cell = fr.lookup(name)
        if cell is not None:
            return cell[0]
    sc = X.scope
    while sc is not None:
        mode = sc.alias_mode
        if mode == 1 and sc.sel_vals is not None and name in sc.sel_vals and name not in sc.group_names:
            return sc.sel_vals[name]
        a = sc.colmap.get(name)
        if a is not None:
            if a is AMBIG:
                if mode and sc.sel_vals is not None and name in sc.sel_vals:
                    # GROUP BY / ORDER BY: a name that is ambiguous in FROM resolves to the select-list item of that name
                    return sc.sel_vals[name]
                raise SQLError(1052, f"Column '{name}' in field list is ambiguous", '23000')
            row = sc.rows.get(a)
            return None if row is None else row[name]
        if mode and sc.sel_vals is not None and name in sc.sel_vals:
            return sc.sel_vals[name]
        sc = sc.parent
    raise SchemaError(f"Unknown column '{name}' (1054)")


def lookup_qualified(X, tbl: str, col: str):
    sc = X.scope
    while sc is not None:
        if tbl in sc.cols:
            row = sc.rows.get(tbl)
            if row is None:
                if col not in sc.colmap and col not in sc.cols[tbl]:
                    raise SchemaError(f"Unknown column '{tbl}.{col}' (1054)")
                return None
            try:
                return row[col]
            except KeyError:
                raise SchemaError(f"Unknown column '{tbl}.{col}' (1054)")
        sc = sc.parent
    fr = X.frame
    if fr is not None and tbl in ('new', 'old'):
        row = fr.pseudo(tbl)
        if row is not None:
            try:
                return row[col]
            except KeyError:
                raise SchemaError(f"Unknown column '{tbl}.{col}' (1054)")
    raise SchemaError(f"Unknown table '{tbl}' in field list ({tbl}.{col}) (1054)")


def py_to_sql(v: Any) -> Any:
    if v is None or isinstance(v, (int, float, str, Decimal, datetime.date, datetime.datetime, bytes)):
        return int(v) if isinstance(v, bool) else v
    if isinstance(v, (list, tuple, set, frozenset)):
        return tuple(py_to_sql(x) for x in v)
    raise Unsupported(f'python parameter of type {type(v).__name__}', repr(v)[:80])


def get_param(X, key: str):
    ps = X.params
    if ps is None:
        raise TypeError('not enough arguments for format string')
    if key.startswith('n:'):
        if not isinstance(ps, dict):
            raise TypeError('format requires a mapping')
        return py_to_sql(ps[key[2:]])
    if isinstance(ps, dict):
        raise TypeError('not enough arguments for format string')
    i = int(key)
    if not isinstance(ps, (tuple, list)):
        ps = (ps,)
    if i >= len(ps):
        raise TypeError('not enough arguments for format string')
    return py_to_sql(ps[i])


def names_in(node, out: list, into_subqueries=False):
    """collect Name nodes of an expression tree; returns False if a subquery was met (and not entered)"""
    ok = True
    if isinstance(node, A.Name):
        out.append(node)
        return True
    if isinstance(node, (A.Subquery, A.Exists, A.InSub)):
        if isinstance(node, A.InSub):
            names_in(node.e, out)
        return False
    if isinstance(node, A.Node):
        for cls in type(node).__mro__:
            for s in getattr(cls, '__slots__', ()):
                if s.startswith('_'):
                    continue
                v = getattr(node, s, None)
                ok = names_in(v, out) and ok
        return ok
    if isinstance(node, (list, tuple)):
        for v in node:
            ok = names_in(v, out) and ok
    return ok


def has_aggregate(node) -> bool:
    if isinstance(node, A.Func) and node.name in A.AGGREGATES:
        return True
    if isinstance(node, (A.Subquery, A.Exists, A.Select, A.Union, A.With)):
        return False
    if isinstance(node, A.InSub):
        return has_aggregate(node.e)
    if isinstance(node, A.Window):
        return False
    if isinstance(node, A.Node):
        for cls in type(node).__mro__:
            for s in getattr(cls, '__slots__', ()):
                if not s.startswith('_') and has_aggregate(getattr(node, s, None)):
                    return True
        return False
    if isinstance(node, (list, tuple)):
        return any(has_aggregate(v) for v in node)
    return False


def find_windows(node, out: list):
    if isinstance(node, A.Window):
        out.append(node)
        return
    if isinstance(node, (A.Subquery, A.Exists, A.Select, A.Union, A.With)):
        return
    if isinstance(node, A.Node):
        for cls in type(node).__mro__:
            for s in getattr(cls, '__slots__', ()):
                if not s.startswith('_'):
                    find_windows(getattr(node, s, None), out)
    elif isinstance(node, (list, tuple)):
        for v in node:
            find_windows(v, out)


def like_to_regex(pat: str) -> 're.Pattern':
    out = []
    i = 0
    while i < len(pat):
        c = pat[i]
        if c == '\\' and i + 1 < len(pat):
            out.append(re.escape(pat[i + 1]))
            i += 2
            continue
        if c == '%':
            out.append('.*')
        elif c == '_':
            out.append('.')
        else:
            out.append(re.escape(c))
        i += 1
    return re.compile(''.join(out), re.S)


def compile_expr(node) -> Callable:
    f = getattr(node, '_c', None)
    if f is None:
        f = _compile(node)
        node._c = f
    return f


def _cs_names(*nodes):
    return frozenset(n.parts[-1] for n in nodes if isinstance(n, A.Name))


def _compile(node) -> Callable:
    t = type(node)
    if t is A.Lit:
        v = node.value
        return lambda X: v
    if t is A.Param:
        key = node.key
        return lambda X: get_param(X, key)
    if t is A.Name:
        parts = node.parts
        if len(parts) == 1:
            n = parts[0]
            return lambda X: lookup_unqualified(X, n)
        a, b = parts
        return lambda X: lookup_qualified(X, a, b)
    if t is A.UserVar:
        name = node.name
        return lambda X: X.sess.uvars.get(name)
    if t is A.UserVarAssign:
        name = node.name
        ef = compile_expr(node.expr)

        def f_uassign(X):
            v = ef(X)
            X.sess.uvars[name] = v
            return v
        return f_uassign
    if t is A.Unary:
        ef = compile_expr(node.e)
        if node.op == '-':
            def f_neg(X):
                v = ef(X)
                if v is None:
                    return None
                if isinstance(v, str):
                    v = str_to_number(v)
                return -v
            return f_neg
        if node.op == 'NOT':
            def f_not(X):
                v = truth(ef(X))
                return None if v is None else (0 if v else 1)
            return f_not
        raise Unsupported('unary ' + node.op)
    if t is A.Binary:
        op = node.op
        lf = compile_expr(node.l)
        rf = compile_expr(node.r)
        if op == 'AND':
            def f_and(X):
                a = truth(lf(X))
                if a is False:
                    return 0
                b = truth(rf(X))
                if b is False:
                    return 0
                if a is None or b is None:
                    return None
                return 1
            return f_and
        if op == 'OR':
            def f_or(X):
                a = truth(lf(X))
                if a is True:
                    return 1
                b = truth(rf(X))
                if b is True:
                    return 1
                if a is None or b is None:
                    return None
                return 0
            return f_or
        if op == 'XOR':
            def f_xor(X):
                a = truth(lf(X))
                b = truth(rf(X))
                if a is None or b is None:
                    return None
                return 1 if a != b else 0
            return f_xor
        if op in ('=', '<>', '<', '<=', '>', '>=', '<=>'):
            names = _cs_names(node.l, node.r)
            state = [None]

            def f_cmp(X):
                cs = state[0]
                if cs is None:
                    cs = state[0] = bool(names & X.db.cs_columns)
                return compare(op, lf(X), rf(X), cs)
            return f_cmp
        if op in ('+', '-', '*', '/', 'DIV', '%'):
            return lambda X: arith(op, lf(X), rf(X))
        raise Unsupported('operator ' + op)
    if t is A.IsNull:
        ef = compile_expr(node.e)
        if node.neg:
            return lambda X: 0 if ef(X) is None else 1
        return lambda X: 1 if ef(X) is None else 0
    if t is A.IsBool:
        ef = compile_expr(node.e)
        want = bool(node.val)
        neg = node.neg

        def f_isbool(X):
            v = truth(ef(X))
            r = (v is not None and v == want)
            return 1 if r != bool(neg) else 0
        return f_isbool
    if t is A.InList:
        ef = compile_expr(node.e)
        fs = [compile_expr(i) for i in node.items]
        neg = node.neg
        names = _cs_names(node.e)

        def f_in(X):
            v = ef(X)
            if v is None:
                return None
            cs = bool(names & X.db.cs_columns)
            unknown = False
            for g in fs:
                r = compare('=', v, g(X), cs)
                if r is None:
                    unknown = True
                elif r:
                    return 0 if neg else 1
            if unknown:
                return None
            return 1 if neg else 0
        return f_in
    if t is A.InSub:
        ef = compile_expr(node.e)
        q = node.q
        neg = node.neg
        is_row = isinstance(node.e, A.Row)

        def f_insub(X):
            v = ef(X)
            res = X.db.run_subquery(q, X)
            width = len(v) if is_row else 1
            if len(res.columns) != width:
                raise SQLError(1241, f'Operand should contain {width} column(s)', '21000')
            if v is None:
                return None if res.rows else (1 if neg else 0)
            unknown = False
            for r in res.rows:
                c = compare('=', v, tuple(r) if is_row else r[0])
                if c is None:
                    unknown = True
                elif c:
                    return 0 if neg else 1
            if unknown:
                return None
            return 1 if neg else 0
        return f_insub
    if t is A.Between:
        ef = compile_expr(node.e)
        lo = compile_expr(node.lo)
        hi = compile_expr(node.hi)
        neg = node.neg

        def f_between(X):
            v = ef(X)
            a = compare('>=', v, lo(X))
            b = compare('<=', v, hi(X))
            if a == 0 or b == 0:
                r = 0
            elif a is None or b is None:
                return None
            else:
                r = 1
            return (1 - r) if neg else r
        return f_between
    if t is A.Like:
        ef = compile_expr(node.e)
        pf = compile_expr(node.pat)
        neg = node.neg
        names = _cs_names(node.e)
        cache: Dict[Any, Any] = {}

        def f_like(X):
            v = ef(X)
            p = pf(X)
            if v is None or p is None:
                return None
            cs = bool(names & X.db.cs_columns)
            v = str(v)
            p = str(p)
            if not cs:
                v = ci_key(v)
                p = ci_key(p)
            rx = cache.get(p)
            if rx is None:
                rx = cache[p] = like_to_regex(p)
            r = 1 if rx.fullmatch(v) else 0
            return (1 - r) if neg else r
        return f_like
    if t is A.Case:
        of = compile_expr(node.operand) if node.operand is not None else None
        whens = [(compile_expr(c), compile_expr(v)) for c, v in node.whens]
        elsf = compile_expr(node.els) if node.els is not None else None

        def f_case(X):
            if of is not None:
                o = of(X)
                for c, v in whens:
                    if compare('=', o, c(X)):
                        return v(X)
            else:
                for c, v in whens:
                    if truth(c(X)):
                        return v(X)
            return elsf(X) if elsf is not None else None
        return f_case
    if t is A.Cast:
        ef = compile_expr(node.e)
        typ = node.type
        return lambda X: cast_value(ef(X), typ)
    if t is A.Exists:
        q = node.q
        return lambda X: 1 if X.db.run_subquery(q, X, exists_only=True).rows else 0
    if t is A.Subquery:
        q = node.q

        def f_subq(X):
            res = X.db.run_subquery(q, X)
            if len(res.rows) > 1:
                raise SQLError(1242, 'Subquery returns more than 1 row', '21000')
            if not res.rows:
                return None
            if len(res.columns) != 1:
                return tuple(res.rows[0])
            return res.rows[0][0]
        return f_subq
    if t is A.Row:
        fs = [compile_expr(i) for i in node.items]
        return lambda X: tuple(g(X) for g in fs)
    if t is A.ValuesRef:
        col = node.col

        def f_values(X):
            vr = X.values_row
            if vr is None:
                return None
            try:
                return vr[col]
            except KeyError:
                raise SchemaError(f"Unknown column '{col}' in VALUES() (1054)")
        return f_values
    if t is A.Window:
        key = id(node)

        def f_window(X):
            w = X.scope.windows
            if w is None or key not in w:
                raise SQLError(3593, 'window function used outside the select list')
            return w[key]
        return f_window
    if t is A.Func:
        return _compile_func(node)
    if t is A.Star:
        raise SQLError(1064, "'*' is not an expression here", '42000')
    raise Unsupported('expression node ' + t.__name__)


def cast_value(v, typ: str):
    if v is None:
        return None
    if typ in ('SIGNED', 'UNSIGNED'):
        if isinstance(v, bool):
            r = int(v)
        elif isinstance(v, int):
            r = v
        elif isinstance(v, (float, Decimal)):
            r = round_half_away(v)
        elif isinstance(v, str):
            m = re.match(r'\s*([+-]?\d+)', v)
            r = int(m.group(1)) if m else 0
        elif isinstance(v, (datetime.date, datetime.datetime)):
            r = int(v.strftime('%Y%m%d'))
        else:
            raise Unsupported('CAST AS SIGNED of ' + type(v).__name__)
        if typ == 'UNSIGNED' and r < 0:
            r += 2 ** 64
        return r
    if typ == 'DATE':
        return to_date(v)
    if typ == 'DOUBLE':
        return float(str_to_number(v)) if isinstance(v, str) else float(v)
    if typ == 'CHAR':
        if isinstance(v, str):
            return v
        if isinstance(v, float):
            return repr(v) if not v.is_integer() else str(int(v))
        if isinstance(v, (datetime.date, datetime.datetime)):
            return v.isoformat(sep=' ') if isinstance(v, datetime.datetime) else v.isoformat()
        return str(v)
    if typ.startswith('DECIMAL'):
        d = Decimal(str(str_to_number(v))) if isinstance(v, str) else Decimal(str(v)) if isinstance(v, float) else Decimal(v)
        m = re.match(r'DECIMAL\((\d+)(?:,(\d+))?\)', typ)
        scale = int(m.group(2) or 0) if m else 0
        return d.quantize(Decimal(1).scaleb(-scale), rounding='ROUND_HALF_UP')
    if typ == 'JSON':
        if isinstance(v, str):
            return v
        return json_text(v)
    raise Unsupported('CAST AS ' + typ)


def _agg_rows(X, argfs, distinct):
    """evaluate the argument tuple for every row of the current group"""
    sc = X.scope
    g = sc.group
    if g is None:
        raise SQLError(1111, 'Invalid use of group function')
    saved = sc.rows
    sc.group = None
    out = []
    try:
        for rm in g:
            sc.rows = rm
            out.append(tuple(f(X) for f in argfs))
    finally:
        sc.rows = saved
        sc.group = g
    if distinct:
        seen = set()
        res = []
        for tup in out:
            if any(v is None for v in tup):
                continue
            k = tuple(norm_key(v) for v in tup)
            if k not in seen:
                seen.add(k)
                res.append(tup)
        return res
    return out


def _compile_func(node) -> Callable:
    name = node.name
    argfs = [compile_expr(a) for a in node.args]
    n = len(argfs)

    def need(*counts):
        if n not in counts:
            raise SQLError(1582, f"Incorrect parameter count in the call to native function '{name}'", '42000')

    if name in A.AGGREGATES:
        distinct = bool(node.distinct)
        if name == 'COUNT':
            if node.star:
                def f_count_star(X):
                    g = X.scope.group
                    if g is None:
                        raise SQLError(1111, 'Invalid use of group function')
                    return len(g)
                return f_count_star

            def f_count(X):
                return sum(1 for tup in _agg_rows(X, argfs, distinct) if all(v is not None for v in tup))
            return f_count
        if name == 'SUM' or name == 'AVG':
            need(1)

            def f_sum(X):
                vals = [tup[0] for tup in _agg_rows(X, argfs, distinct) if tup[0] is not None]
                if not vals:
                    return None
                isf = False
                acc: Any = Decimal(0)
                for v in vals:
                    if isinstance(v, bool):
                        v = int(v)
                    if isinstance(v, str):
                        v = str_to_number(v)
                    if isinstance(v, float):
                        if not isf:
                            acc = float(acc)
                            isf = True
                        acc += v
                    else:
                        acc = acc + (float(v) if isf else (v if isinstance(v, Decimal) else Decimal(v)))
                if name == 'AVG':
                    if isf:
                        return acc / len(vals)
                    return arith('/', acc, len(vals))
                return acc
            return f_sum
        if name in ('MAX', 'MIN'):
            need(1)

            def f_minmax(X):
                vals = [tup[0] for tup in _agg_rows(X, argfs, distinct) if tup[0] is not None]
                if not vals:
                    return None
                best = vals[0]
                for v in vals[1:]:
                    if compare('>' if name == 'MAX' else '<', v, best):
                        best = v
                return best
            return f_minmax
        if name == 'JSON_OBJECTAGG':
            need(2)

            def f_objagg(X):
                rows = _agg_rows(X, argfs, False)
                if not rows:
                    return None
                d = {}
                for k, v in rows:
                    if k is None:
                        raise SQLError(3158, 'JSON documents may not contain NULL member names.', '22032')
                    d[str(k)] = v
                return json_text(d)
            return f_objagg
        if name == 'JSON_ARRAYAGG':
            need(1)

            def f_arragg(X):
                rows = _agg_rows(X, argfs, False)
                if not rows:
                    return None
                return json_text([r[0] for r in rows])
            return f_arragg
        raise Unsupported('aggregate ' + name)

    if name == 'COALESCE':
        def f_coalesce(X):
            for g in argfs:
                v = g(X)
                if v is not None:
                    return v
            return None
        return f_coalesce
    if name == 'IFNULL':
        need(2)
        a, b = argfs

        def f_ifnull(X):
            v = a(X)
            return v if v is not None else b(X)
        return f_ifnull
    if name == 'NULLIF':
        need(2)
        a, b = argfs

        def f_nullif(X):
            v = a(X)
            return None if compare('=', v, b(X)) else v
        return f_nullif
    if name == 'IF':
        need(3)
        c, a, b = argfs
        return lambda X: a(X) if truth(c(X)) else b(X)
    if name in ('GREATEST', 'LEAST'):
        if n < 2:
            need(2)
        op = '>' if name == 'GREATEST' else '<'

        def f_greatest(X):
            vals = [g(X) for g in argfs]
            if any(v is None for v in vals):
                return None
            best = vals[0]
            for v in vals[1:]:
                if compare(op, v, best):
                    best = v
            return best
        return f_greatest
    if name in ('FLOOR', 'CEIL', 'CEILING'):
        need(1)
        a = argfs[0]
        fn = math.floor if name == 'FLOOR' else math.ceil

        def f_floor(X):
            v = a(X)
            if v is None:
                return None
            if isinstance(v, str):
                v = str_to_number(v)
            if isinstance(v, float):
                return float(fn(v))
            if isinstance(v, Decimal):
                return int(v.to_integral_value(rounding='ROUND_FLOOR' if name == 'FLOOR' else 'ROUND_CEILING'))
            return int(v)
        return f_floor
    if name == 'ABS':
        need(1)
        a = argfs[0]

        def f_abs(X):
            v = a(X)
            return None if v is None else abs(str_to_number(v) if isinstance(v, str) else v)
        return f_abs
    if name == 'ROUND':
        need(1, 2)

        def f_round(X):
            v = argfs[0](X)
            d = argfs[1](X) if n == 2 else 0
            if v is None or d is None:
                return None
            if isinstance(v, float):
                return float(round(v, int(d)))
            q = Decimal(v).quantize(Decimal(1).scaleb(-int(d)), rounding='ROUND_HALF_UP')
            return int(q) if int(d) <= 0 and not isinstance(v, Decimal) else q
        return f_round
    if name == 'RAND':
        need(0)
        return lambda X: X.db.rng.random()
    if name == 'UNIX_TIMESTAMP':
        need(0)
        return lambda X: int(X.db.clock())
    if name in ('NOW', 'CURRENT_TIMESTAMP', 'LOCALTIME', 'LOCALTIMESTAMP', 'UTC_TIMESTAMP', 'SYSDATE'):
        return lambda X: datetime.datetime.fromtimestamp(X.db.clock(), datetime.timezone.utc).replace(tzinfo=None, microsecond=0)
    if name in ('UTC_DATE', 'CURRENT_DATE', 'CURDATE'):
        need(0)
        return lambda X: datetime.datetime.fromtimestamp(X.db.clock(), datetime.timezone.utc).date()
    if name == 'DATE':
        need(1)
        a = argfs[0]
        return lambda X: to_date(a(X))
    if name == 'CONCAT':
        def f_concat(X):
            out = []
            for g in argfs:
                v = g(X)
                if v is None:
                    return None
                out.append(cast_value(v, 'CHAR'))
            return ''.join(out)
        return f_concat
    if name in ('LOWER', 'LCASE', 'UPPER', 'UCASE'):
        need(1)
        a = argfs[0]
        lower = name in ('LOWER', 'LCASE')

        def f_lower(X):
            v = a(X)
            if v is None:
                return None
            s = cast_value(v, 'CHAR')
            return s.lower() if lower else s.upper()
        return f_lower
    if name in ('LENGTH', 'CHAR_LENGTH', 'CHARACTER_LENGTH'):
        need(1)
        a = argfs[0]

        def f_len(X):
            v = a(X)
            if v is None:
                return None
            s = cast_value(v, 'CHAR') if not isinstance(v, bytes) else v
            return len(s.encode('utf-8')) if name == 'LENGTH' and isinstance(s, str) else len(s)
        return f_len
    if name == 'ROW_COUNT':
        need(0)
        return lambda X: X.sess.row_count
    if name == 'LAST_INSERT_ID':
        need(0)
        return lambda X: X.sess.last_insert_id
    if name == 'FOUND_ROWS':
        raise Unsupported('FOUND_ROWS()')
    if name == 'JSON_OBJECT':
        if n % 2:
            need(n + 1)

        def f_jsonobj(X):
            d = {}
            for i in range(0, n, 2):
                k = argfs[i](X)
                if k is None:
                    raise SQLError(3158, 'JSON documents may not contain NULL member names.', '22032')
                d[str(k)] = argfs[i + 1](X)
            return json_text(d)
        return f_jsonobj
    if name == 'JSON_QUOTE':
        # MySQL 8.0 ref. 14.17.2: "Quotes a string as a JSON value by wrapping it with double quote characters and escaping interior
        # quote and other characters, then returning the result as a utf8mb4 string. Returns NULL if the argument is NULL."
        need(1)
        a = argfs[0]

        def f_jsonquote(X):
            v = a(X)
            if v is None:
                return None
            import json as _json
            return _json.dumps(cast_value(v, 'CHAR'), ensure_ascii=False)
        return f_jsonquote
    if name == 'JSON_CONTAINS':
        # MySQL 8.0 ref. 14.17.3 JSON_CONTAINS(target, candidate[, path]); the path form is not implemented
        if n == 3:
            raise Unsupported('JSON_CONTAINS with a path argument')
        need(2)

        def f_jsoncontains(X):
            t, c = argfs[0](X), argfs[1](X)
            if t is None or c is None:
                return None
            import json as _json
            docs = []
            for i, v in enumerate((t, c)):
                try:
                    docs.append(_json.loads(v if isinstance(v, (str, bytes)) else json_text(v)))
                except (ValueError, TypeError):
                    raise SQLError(3141, f'Invalid JSON text in argument {i + 1} to function json_contains', '22032')
            return 1 if json_contains(docs[0], docs[1]) else 0
        return f_jsoncontains
    if name.startswith('JSON_'):
        raise Unsupported('JSON function ' + name)
    if name in ('VALUES',):
        raise Unsupported('VALUES() outside ON DUPLICATE KEY UPDATE')

    # user-defined stored function
    lname = name.lower()

    def f_udf(X):
        return X.db.call_function(lname, [g(X) for g in argfs], X)
    return f_udf


def _json_scalar_type(v: Any) -> str:
    if v is None:
        return 'NULL'
    if isinstance(v, bool):
        return 'BOOLEAN'
    if isinstance(v, (int, float, Decimal)):
        return 'NUMBER'          # "values of types INTEGER and DECIMAL are also comparable to each other"
    return 'STRING'


def json_contains(target: Any, candidate: Any) -> bool:
    """MySQL's containment relation of JSON_CONTAINS (ref. manual 14.17.3):
    * a candidate scalar is contained in a target scalar iff they are comparable (same JSON type; numbers with numbers) and equal
      (strings compare case-sensitively: JSON strings use the utf8mb4_bin collation);
    * a candidate array is contained in a target array iff every element of the candidate is contained in some element of the target;
    * a candidate non-array is contained in a target array iff it is contained in some element of the target;
    * a candidate object is contained in a target object iff for each key of the candidate the target has that key and the
      candidate's value is contained in the target's value."""
    if isinstance(candidate, list):
        if isinstance(target, list):
            return all(any(json_contains(te, ce) for te in target) for ce in candidate)
        return False
    if isinstance(target, list):
        return any(json_contains(te, candidate) for te in target)
    if isinstance(candidate, dict):
        return isinstance(target, dict) and all(k in target and json_contains(target[k], v) for k, v in candidate.items())
    if isinstance(target, dict):
        return False
    return _json_scalar_type(target) == _json_scalar_type(candidate) and target == candidate

"""Unit tests of every semantic item of minisql + an end-to-end smoke test driving the REAL batch python functions.

    /venv/bin/python -m harness.minisql.tests_minisql            (from /verif)
"""
from __future__ import annotations

import asyncio
import json
import logging
import os
import random
import sys
import traceback
from decimal import Decimal

HERE = os.path.dirname(os.path.abspath(__file__))
VERIF = os.path.dirname(os.path.dirname(HERE))
if VERIF not in sys.path:
    sys.path.insert(0, VERIF)

from harness import loader  # noqa: E402

loader.install()

import pymysql  # noqa: E402  (functional shim)

from harness import minisql  # noqa: E402
from harness.minisql import batchapp, extract, fakepool, sqlparse  # noqa: E402
from harness.minisql.engine import MiniDB  # noqa: E402

TESTS = []


def test(f):
    TESTS.append(f)
    return f


def q1(db, sql, params=None):
    rows = db.execute(sql, params)[0]
    assert len(rows) == 1, rows
    return list(rows[0].values())


def small_db() -> MiniDB:
    db = MiniDB(rng=random.Random(0), clock=lambda: 1700000000.0)
    db.create_table("""
CREATE TABLE t (id INT NOT NULL AUTO_INCREMENT, k VARCHAR(10) NOT NULL, v INT DEFAULT 0, PRIMARY KEY (id), UNIQUE KEY k (k));
CREATE TABLE u (a INT NOT NULL, b INT, c VARCHAR(20), PRIMARY KEY (a));
CREATE TABLE log (n INT NOT NULL AUTO_INCREMENT PRIMARY KEY, what VARCHAR(100));
CREATE TABLE tot (name VARCHAR(10) NOT NULL PRIMARY KEY, s BIGINT NOT NULL DEFAULT 0);
""")
    return db


# -- NULL logic ---------------------------------------------------------------------------------------


@test
def null_logic():
    db = small_db()
    assert q1(db, 'SELECT NULL = 1, NULL <> 1, NULL <=> NULL, 1 <=> NULL, NULL IS NULL, 1 IS NOT NULL') == [None, None, 1, 0, 1, 1]
    assert q1(db, 'SELECT NULL AND 0, NULL AND 1, NULL OR 1, NULL OR 0, NOT NULL, 0 AND NULL, 1 OR NULL') == [0, None, 1, None, None, 0, 1]
    assert q1(db, 'SELECT 1 + NULL, NULL * 0, -NULL, 5 DIV NULL, 5 / 0, 5 % 0') == [None, None, None, None, None, None]
    assert q1(db, 'SELECT GREATEST(1, NULL, 3), LEAST(NULL, 2), GREATEST(1, 5, 3), LEAST(4, 2)') == [None, None, 5, 2]
    assert q1(db, 'SELECT COALESCE(NULL, NULL, 3), IFNULL(NULL, 2), IFNULL(1, 2), IF(NULL, 1, 2), IF(0, 1, 2), IF(7, 1, 2)') == [3, 2, 1, 2, 2, 1]
    assert q1(db, 'SELECT 1 IN (2, NULL), 1 IN (1, NULL), 1 NOT IN (2, NULL), NULL IN (1), 2 IN (1, 3)') == [None, 1, None, None, 0]
    assert q1(db, "SELECT CASE WHEN NULL THEN 1 WHEN 0 THEN 2 ELSE 3 END, CASE 2 WHEN 1 THEN 'a' WHEN 2 THEN 'b' END, CASE 9 WHEN 1 THEN 'a' END") \
        == [3, 'b', None]
    assert q1(db, "SELECT TRUE, FALSE, 1 = 1, 'a' = 'A', 'a' < 'B', 2 BETWEEN 1 AND 3, NULL BETWEEN 1 AND 3, 'abc' LIKE 'a%', 'abc' LIKE '_c'") \
        == [1, 0, 1, 1, 1, 1, None, 1, 0]
    assert q1(db, "SELECT '10' = 10, '1x' = 1, 'x' = 0, CAST('12abc' AS SIGNED), CAST(3.5 AS SIGNED), CAST(-3.5 AS SIGNED), CAST(NULL AS SIGNED)") \
        == [1, 1, 1, 12, 4, -4, None]
    assert q1(db, 'SELECT 7 DIV 2, 7 / 2, 7 % 3, -7 % 3, FLOOR(2.7), FLOOR(-2.5), 2 * 3.5') == [3, Decimal('3.5000'), 1, -1, 2, -3, Decimal('7.0')]
    db.execute("INSERT INTO u (a, b, c) VALUES (1, NULL, 'x'), (2, 5, NULL), (3, 5, 'y')")
    assert q1(db, 'SELECT COUNT(*), COUNT(b), COUNT(DISTINCT b), SUM(b), MAX(b), MIN(c), SUM(b = 5), AVG(b) FROM u') \
        == [3, 2, 1, Decimal(10), 5, 'x', Decimal(2), Decimal('5.0000')]
    assert q1(db, 'SELECT COUNT(*), SUM(b), MAX(b), COALESCE(SUM(b), 0) FROM u WHERE a > 10') == [0, None, None, 0]
    assert [r['a'] for r in db.query('SELECT a FROM u WHERE b = 5 OR NULL')] == [2, 3]
    assert [r['a'] for r in db.query('SELECT a FROM u WHERE NOT (b = 5)')] == []
    assert [r['a'] for r in db.query('SELECT a FROM u ORDER BY b DESC, a DESC')] == [3, 2, 1]
    assert [r['a'] for r in db.query('SELECT a FROM u ORDER BY b, a')] == [1, 2, 3]     # NULL sorts first ascending


# -- INSERT / ODKU / ROW_COUNT ------------------------------------------------------------------------


@test
def odku_and_row_count():
    db = small_db()
    assert db.execute("INSERT INTO t (k, v) VALUES ('a', 1)") == ([], 1, 1)
    assert q1(db, 'SELECT ROW_COUNT(), LAST_INSERT_ID()') == [-1, 1] or True
    assert db.execute("INSERT INTO t (k, v) VALUES ('a', 5) ON DUPLICATE KEY UPDATE v = v + VALUES(v)")[1] == 2
    assert db.query("SELECT v FROM t WHERE k = 'a'") == [{'v': 6}]
    assert db.execute("INSERT INTO t (k, v) VALUES ('a', 5) ON DUPLICATE KEY UPDATE v = v")[1] == 0
    assert db.execute("INSERT INTO t (k, v) VALUES ('b', 1), ('a', 1), ('c', 1) ON DUPLICATE KEY UPDATE v = v + 10, k = k")[1] == 4
    assert db.query('SELECT k, v FROM t ORDER BY k') == [{'k': 'a', 'v': 16}, {'k': 'b', 'v': 1}, {'k': 'c', 'v': 1}]
    # later assignments see earlier ones
    db.execute("INSERT INTO t (k, v) VALUES ('b', 7) ON DUPLICATE KEY UPDATE v = VALUES(v), k = IF(v = 7, 'B2', 'no')")
    assert db.query("SELECT k FROM t WHERE v = 7") == [{'k': 'B2'}]
    # ROW_COUNT() inside a procedure, as add_attempt uses it
    db.add_routine("""CREATE PROCEDURE p(IN kk VARCHAR(10))
BEGIN
  INSERT INTO t (k, v) VALUES (kk, 0) ON DUPLICATE KEY UPDATE k = k;
  IF ROW_COUNT() = 1 THEN SELECT 'inserted' AS r; ELSE SELECT 'existed' AS r, ROW_COUNT() AS rc; END IF;
END""")
    assert db.query("CALL p('z')") == [{'r': 'inserted'}]
    assert db.query("CALL p('z')") == [{'r': 'existed', 'rc': 0}]
    # duplicate key on plain insert, statement atomicity of a multi-row insert
    try:
        db.execute("INSERT INTO t (k, v) VALUES ('new1', 1), ('z', 1)")
        raise AssertionError('expected 1062')
    except pymysql.err.IntegrityError as e:
        assert e.args[0] == 1062, e
    assert db.query("SELECT COUNT(*) AS n FROM t WHERE k = 'new1'") == [{'n': 0}]
    assert db.execute("INSERT IGNORE INTO t (k, v) VALUES ('new1', 1), ('z', 1)")[1] == 1
    # INSERT ... SELECT with user variables assigned per row before ODKU reads them
    db.execute("INSERT INTO u (a, b) VALUES (1, 10), (2, 20), (3, 30)")
    db.execute("INSERT INTO tot (name, s) VALUES ('x', 100)")
    db.execute("INSERT INTO tot (name, s) SELECT 'x', @d := b FROM u ON DUPLICATE KEY UPDATE s = s + @d")
    assert db.query("SELECT s FROM tot") == [{'s': 160}]
    db.execute("INSERT INTO tot (name, s) SELECT c, -1 * (@q := COALESCE(SUM(b), 0)) FROM (SELECT 'x' AS c, b FROM u) AS w GROUP BY c "
               "ON DUPLICATE KEY UPDATE s = s - @q")
    assert db.query("SELECT s FROM tot") == [{'s': 100}]
    # strict mode
    for sql, code in (("INSERT INTO t (k, v) VALUES (NULL, 1)", 1048), ("INSERT INTO t (v) VALUES (1)", 1364),
                      ("INSERT INTO t (k, v) VALUES ('abcdefghijkl', 1)", 1406), ("INSERT INTO t (k, v) VALUES ('q', 'zz')", 1366),
                      ("INSERT INTO t (k, v) VALUES ('q', 99999999999)", 1264)):
        try:
            db.execute(sql)
            raise AssertionError(sql)
        except pymysql.err.MySQLError as e:
            assert e.args[0] == code, (sql, e)


# -- SELECT INTO ---------------------------------------------------------------------------------------


@test
def select_into_no_row():
    db = small_db()
    db.execute("INSERT INTO u (a, b) VALUES (1, 10), (2, 20)")
    db.add_routine("""CREATE PROCEDURE p(IN x INT)
BEGIN
  DECLARE v INT DEFAULT 77;
  DECLARE w INT;
  SELECT b INTO v FROM u WHERE a = x;
  SELECT b, a INTO w, v FROM u WHERE a = x + 100;
  SELECT v, w;
END""")
    assert db.query('CALL p(1)') == [{'v': 10, 'w': None}]
    assert db.query('CALL p(5)') == [{'v': 77, 'w': None}]
    db.add_routine("""CREATE PROCEDURE many() BEGIN DECLARE v INT; SELECT b INTO v FROM u; END""")
    try:
        db.execute('CALL many()')
        raise AssertionError('expected 1172')
    except pymysql.err.MySQLError as e:
        assert e.args[0] == 1172
    # local variable shadows a column of the same name
    db.add_routine("""CREATE FUNCTION f(a INT) RETURNS INT NOT DETERMINISTIC RETURN (SELECT COUNT(*) FROM u WHERE u.a = a)""")
    assert q1(db, 'SELECT f(1), f(9)') == [1, 0]
    # user variables
    db.execute('SELECT b INTO @x FROM u WHERE a = 2')
    assert q1(db, 'SELECT @x, @undefined') == [20, None]


# -- triggers -------------------------------------------------------------------------------------------


@test
def triggers_fire_on_unchanged_rows():
    db = small_db()
    db.add_routine("""CREATE TRIGGER u_bu BEFORE UPDATE ON u FOR EACH ROW
BEGIN
  IF NEW.b IS NOT NULL AND OLD.b IS NOT NULL AND NEW.b < OLD.b THEN SET NEW.b = OLD.b; END IF;
END""")
    db.add_routine("""CREATE TRIGGER u_au AFTER UPDATE ON u FOR EACH ROW
BEGIN
  INSERT INTO log (what) VALUES (CONCAT('upd ', OLD.a, ' ', COALESCE(OLD.b, 'null'), '->', COALESCE(NEW.b, 'null')));
END""")
    db.add_routine("""CREATE TRIGGER u_bi BEFORE INSERT ON u FOR EACH ROW
BEGIN
  IF NEW.c = 'bad' THEN SIGNAL SQLSTATE '45000' SET MESSAGE_TEXT = "no bad rows"; END IF;
  SET NEW.c = COALESCE(NEW.c, 'dflt');
END""")
    db.add_routine("""CREATE TRIGGER u_ai AFTER INSERT ON u FOR EACH ROW INSERT INTO log (what) VALUES (CONCAT('ins ', NEW.a))""")
    db.execute("INSERT INTO u (a, b) VALUES (1, 10), (2, 20)")
    assert [r['c'] for r in db.query('SELECT c FROM u')] == ['dflt', 'dflt']
    assert db.execute('UPDATE u SET b = b')[1] == 0                  # nothing changed ...
    assert [r['what'] for r in db.query('SELECT what FROM log ORDER BY n')] == ['ins 1', 'ins 2', 'upd 1 10->10', 'upd 2 20->20']
    assert db.execute('UPDATE u SET b = 5 WHERE a = 1')[1] == 0        # BEFORE trigger clamps NEW.b back
    assert db.execute('UPDATE u SET b = 50 WHERE a = 1')[1] == 1
    assert [r['what'] for r in db.query('SELECT what FROM log ORDER BY n')][-2:] == ['upd 1 10->10', 'upd 1 10->50']
    try:
        db.execute("INSERT INTO u (a, c) VALUES (7, 'ok'), (8, 'bad')")
        raise AssertionError('expected SIGNAL')
    except pymysql.err.OperationalError as e:
        assert e.args == (1644, 'no bad rows'), e.args
    assert db.query('SELECT COUNT(*) AS n FROM u') == [{'n': 2}]          # statement rolled back, including trigger side effects
    assert db.query("SELECT COUNT(*) AS n FROM log WHERE what = 'ins 7'") == [{'n': 0}]
    # ODKU path fires BEFORE UPDATE; AFTER UPDATE only when the row changed
    n0 = db.query('SELECT COUNT(*) AS n FROM log')[0]['n']
    db.execute('INSERT INTO u (a, b) VALUES (2, 1) ON DUPLICATE KEY UPDATE b = b')
    assert db.query('SELECT COUNT(*) AS n FROM log')[0]['n'] == n0
    db.execute('INSERT INTO u (a, b) VALUES (2, 1) ON DUPLICATE KEY UPDATE b = b + 1')
    assert db.query('SELECT what FROM log ORDER BY n DESC LIMIT 1') == [{'what': 'upd 2 20->21'}]
    # multi-table update: triggers per updated row, SET referencing the joined table
    db.execute("INSERT INTO t (k, v) VALUES ('a', 1), ('b', 2)")
    assert db.execute('UPDATE u INNER JOIN t ON t.id = u.a SET u.b = u.b + t.v, t.v = t.v * 100 WHERE t.k = %s', ('a',))[1] == 2
    assert db.query('SELECT b FROM u WHERE a = 1') == [{'b': 51}] and db.query("SELECT v FROM t WHERE k = 'a'") == [{'v': 100}]


# -- handlers / cursors / control flow --------------------------------------------------------------------


@test
def cursor_loop_with_not_found_handler():
    db = small_db()
    db.execute("INSERT INTO u (a, b) VALUES (1, 10), (2, 20), (3, 30)")
    db.add_routine("""CREATE PROCEDURE walk(IN lim INT)
BEGIN
  DECLARE x INT;
  DECLARE total INT DEFAULT 0;
  DECLARE n INT DEFAULT 0;
  DECLARE done BOOLEAN DEFAULT FALSE;
  DECLARE cur CURSOR FOR SELECT b FROM u WHERE a <= lim ORDER BY a ASC;
  DECLARE CONTINUE HANDLER FOR NOT FOUND SET done = TRUE;
  OPEN cur;
  the_loop: LOOP
    FETCH cur INTO x;
    IF done THEN
      LEAVE the_loop;
    END IF;
    SET total = total + x, n = n + 1;
  END LOOP;
  CLOSE cur;
  SELECT total, n;
END""")
    assert db.query('CALL walk(2)') == [{'total': 30, 'n': 2}]
    assert db.query('CALL walk(0)') == [{'total': 0, 'n': 0}]
    # the classic pitfall: a SELECT ... INTO without a row inside the loop also trips the NOT FOUND handler
    db.add_routine("""CREATE PROCEDURE pitfall()
BEGIN
  DECLARE x INT; DECLARE y INT; DECLARE n INT DEFAULT 0; DECLARE done BOOLEAN DEFAULT FALSE;
  DECLARE cur CURSOR FOR SELECT a FROM u ORDER BY a;
  DECLARE CONTINUE HANDLER FOR NOT FOUND SET done = TRUE;
  OPEN cur;
  l: LOOP
    FETCH cur INTO x;
    IF done THEN LEAVE l; END IF;
    SET n = n + 1;
    SELECT b INTO y FROM u WHERE a = x + 1000;
  END LOOP;
  CLOSE cur;
  SELECT n;
END""")
    assert db.query('CALL pitfall()') == [{'n': 1}]
    db.add_routine("""CREATE PROCEDURE flow(IN k INT)
BEGIN
  DECLARE i INT DEFAULT 0; DECLARE acc INT DEFAULT 0;
  WHILE i < k DO
    SET i = i + 1;
    IF i = 2 THEN SET acc = acc + 100; ELSEIF i = 3 THEN SET acc = acc + 1000; ELSE SET acc = acc + 1; END IF;
  END WHILE;
  w: LOOP
    SET i = i - 1;
    IF i > 0 THEN ITERATE w; END IF;
    LEAVE w;
  END LOOP w;
  SELECT acc, i;
END""")
    assert db.query('CALL flow(4)') == [{'acc': 1102, 'i': 0}]
    # OUT parameter
    db.add_routine("""CREATE PROCEDURE outp(IN a INT, OUT b INT) BEGIN SET b = IFNULL(b, 0) + a * 2; END""")
    db.add_routine("""CREATE PROCEDURE caller() BEGIN DECLARE r INT DEFAULT 5; CALL outp(21, r); SELECT r; END""")
    assert db.query('CALL caller()') == [{'r': 42}]


@test
def signal_and_exit_handler_with_rollback():
    db = small_db()
    db.add_routine("""CREATE PROCEDURE guarded(IN fail INT)
BEGIN
  DECLARE EXIT HANDLER FOR SQLEXCEPTION
  BEGIN
    ROLLBACK;
    RESIGNAL;
  END;
  START TRANSACTION;
  INSERT INTO u (a, b) VALUES (1, 1);
  IF fail THEN
    SIGNAL SQLSTATE '45000' SET MESSAGE_TEXT = 'boom';
  END IF;
  INSERT INTO u (a, b) VALUES (2, 2);
  COMMIT;
END""")
    try:
        db.execute('CALL guarded(1)')
        raise AssertionError('expected SIGNAL')
    except pymysql.err.OperationalError as e:
        assert e.args == (1644, 'boom')
    assert db.query('SELECT COUNT(*) AS n FROM u') == [{'n': 0}]
    db.execute('CALL guarded(0)')
    assert db.query('SELECT COUNT(*) AS n FROM u') == [{'n': 2}]
    try:
        db.execute('CALL guarded(0)')      # duplicate key inside -> handler rolls back and resignals 1062
        raise AssertionError('expected 1062')
    except pymysql.err.IntegrityError as e:
        assert e.args[0] == 1062
    db.add_routine("""CREATE PROCEDURE swallow() BEGIN
  DECLARE CONTINUE HANDLER FOR SQLEXCEPTION INSERT INTO log (what) VALUES ('caught');
  INSERT INTO u (a, b) VALUES (1, 1);
  INSERT INTO log (what) VALUES ('after');
END""")
    db.execute('CALL swallow()')
    assert [r['what'] for r in db.query('SELECT what FROM log ORDER BY n')] == ['caught', 'after']


# -- transactions -------------------------------------------------------------------------------------------


@test
def rollback_and_sessions():
    db = small_db()
    s = db.session(autocommit=False, name='c1')
    db.execute('START TRANSACTION', None, s)
    db.execute("INSERT INTO t (k, v) VALUES ('a', 1)", None, s)
    db.execute("UPDATE t SET v = 9 WHERE k = 'a'", None, s)
    db.execute("INSERT INTO u (a, b) VALUES (1, 1)", None, s)
    db.execute('ROLLBACK', None, s)
    assert db.dump(['t', 'u']) == {'t': [], 'u': []}
    db.execute("INSERT INTO t (k, v) VALUES ('a', 1)", None, s)
    db.execute('COMMIT', None, s)
    db.execute("DELETE FROM t WHERE k = 'a'", None, s)
    assert db.query('SELECT COUNT(*) AS n FROM u') == [{'n': 0}]
    try:
        db.execute('SELECT * FROM t')          # another session: uncommitted writes of c1 -> loud
        raise AssertionError('expected Unsupported')
    except minisql.Unsupported:
        pass
    s.rollback()
    assert [r['id'] for r in db.query('SELECT id FROM t')] == [2]      # AUTO_INCREMENT is not rolled back (id 1 was burnt)
    # a procedure's START TRANSACTION implicitly commits the caller's transaction; its ROLLBACK only undoes its own
    db.add_routine("""CREATE PROCEDURE pr(IN ok INT) BEGIN START TRANSACTION; INSERT INTO u (a, b) VALUES (5, 5);
IF ok THEN COMMIT; SELECT 0 AS rc; ELSE ROLLBACK; SELECT 1 AS rc; END IF; END""")
    db.execute('START TRANSACTION', None, s)
    db.execute("INSERT INTO u (a, b) VALUES (4, 4)", None, s)
    assert db.execute('CALL pr(0)', None, s)[0] == [{'rc': 1}]
    s.rollback()
    assert [r['a'] for r in db.query('SELECT a FROM u')] == [4]
    snap = db.snapshot()
    db.execute('DELETE FROM u')
    db.restore(snap)
    assert [r['a'] for r in db.query('SELECT a FROM u')] == [4]
    ro = db.session(autocommit=False)
    db.execute('START TRANSACTION READ ONLY', None, ro)
    try:
        db.execute('DELETE FROM u', None, ro)
        raise AssertionError('expected 1792')
    except pymysql.err.MySQLError as e:
        assert e.args[0] == 1792


# -- joins / derived / lateral / union / window / CTE --------------------------------------------------------


@test
def select_features():
    db = small_db()
    db.execute("INSERT INTO u (a, b, c) VALUES (1, 10, 'x'), (2, 20, 'y'), (3, 20, 'z')")
    db.execute("INSERT INTO t (k, v) VALUES ('x', 1), ('y', 2), ('q', 3)")
    assert db.query('SELECT u.a, t.id FROM u LEFT JOIN t ON t.k = u.c ORDER BY u.a') == [{'a': 1, 'id': 1}, {'a': 2, 'id': 2}, {'a': 3, 'id': None}]
    assert db.query('SELECT u.a FROM u INNER JOIN t ON t.k = u.c WHERE t.v > 1') == [{'a': 2}]
    assert db.query('SELECT b, COUNT(*) AS n, SUM(a) AS s FROM u GROUP BY b HAVING n > 1') == [{'b': 20, 'n': 2, 's': Decimal(5)}]
    assert db.query('SELECT s.b, s.n FROM (SELECT b, COUNT(*) AS n FROM u GROUP BY b) AS s WHERE s.n = 1') == [{'b': 10, 'n': 1}]
    assert db.query('SELECT u.a, w.m FROM u LEFT JOIN LATERAL (SELECT MAX(v) AS m FROM t WHERE t.id <= u.a) AS w ON TRUE ORDER BY a') \
        == [{'a': 1, 'm': 1}, {'a': 2, 'm': 2}, {'a': 3, 'm': 3}]
    assert db.query('SELECT u.a FROM u INNER JOIN LATERAL (SELECT 1 AS one FROM t WHERE t.k = u.c) AS w ON TRUE') == [{'a': 1}, {'a': 2}]
    assert [r['a'] for r in db.query('SELECT a FROM u WHERE EXISTS (SELECT 1 FROM t WHERE t.k = u.c)')] == [1, 2]
    assert [r['a'] for r in db.query('SELECT a FROM u WHERE c IN (SELECT k FROM t WHERE v < 2)')] == [1]
    assert [r['a'] for r in db.query('SELECT a FROM u WHERE (a, b) IN (SELECT id, v * 10 FROM t)')] == [1, 2]
    assert db.query('SELECT (SELECT v FROM t WHERE t.k = u.c) AS v FROM u ORDER BY a') == [{'v': 1}, {'v': 2}, {'v': None}]
    assert db.query('(SELECT a AS x FROM u WHERE a < 3 ORDER BY a DESC LIMIT 1) UNION (SELECT id FROM t WHERE id = 2) UNION ALL (SELECT 2)') \
        == [{'x': 2}, {'x': 2}]
    assert db.query('SELECT a, ROW_NUMBER() OVER (ORDER BY b DESC, a) DIV 2 AS it FROM u ORDER BY a') \
        == [{'a': 1, 'it': 1}, {'a': 2, 'it': 0}, {'a': 3, 'it': 1}]
    assert db.query('WITH w AS (SELECT a, b FROM u WHERE b = 20) SELECT COUNT(*) AS n, MIN(w.a) AS m FROM w') == [{'n': 2, 'm': 2}]
    assert db.query('SELECT DISTINCT b FROM u ORDER BY b DESC LIMIT 1 OFFSET 1') == [{'b': 10}]
    assert db.query("SELECT JSON_OBJECTAGG(c, b) AS j, JSON_ARRAYAGG(a) AS arr FROM u") == [{'j': '{"x": 10, "y": 20, "z": 20}', 'arr': '[1, 2, 3]'}]
    assert db.query("SELECT JSON_OBJECTAGG(c, b) AS j FROM u WHERE a > 5") == [{'j': None}]
    # pymysql DictCursor naming of duplicate columns
    assert list(db.query('SELECT * FROM u INNER JOIN t ON t.id = u.a WHERE a = 1')[0].keys()) == ['a', 'b', 'c', 'id', 'k', 'v']
    assert list(db.query('SELECT u.a, x.a FROM u INNER JOIN u AS x ON x.a = u.a WHERE u.a = 1')[0].keys()) == ['a', 'x.a']
    assert db.query('SELECT a FROM u FORCE INDEX (foo) STRAIGHT_JOIN t ON t.id = a WHERE a = 1 FOR UPDATE') == [{'a': 1}]
    assert db.execute('DELETE FROM u WHERE b = 20 ORDER BY a DESC LIMIT 1')[1] == 1 and [r['a'] for r in db.query('SELECT a FROM u')] == [1, 2]
    assert db.execute('DELETE u FROM u LEFT JOIN t ON t.k = u.c WHERE t.v = 2')[1] == 1
    # parameters
    assert db.query('SELECT %s AS a, %s AS b, %s AS c', (True, None, 'x')) == [{'a': 1, 'b': None, 'c': 'x'}]
    assert db.query('SELECT %(x)s + %(y)s AS s', {'x': 1, 'y': 2}) == [{'s': 3}]
    try:
        db.query('SELECT %s, %s', (1,))
        raise AssertionError('expected TypeError')
    except TypeError:
        pass


@test
def json_quote_and_contains():
    """JSON_QUOTE / JSON_CONTAINS as the MySQL 8.0 manual documents them (examples of section 14.17.2 / 14.17.3 where it gives any)"""
    db = small_db()

    def v(sql, params=None):
        return q1(db, sql, params)[0]
    assert v("SELECT JSON_QUOTE('null') AS j") == '"null"'
    assert v("""SELECT JSON_QUOTE('"null"') AS j""") == '"\\"null\\""'
    assert v("SELECT JSON_QUOTE('[1, 2, 3]') AS j") == '"[1, 2, 3]"'
    assert v("SELECT JSON_QUOTE(NULL) AS j") is None
    # manual: SET @j = '{"a": 1, "b": 2, "c": {"d": 4}}'; JSON_CONTAINS(@j, '1') -> 0 ; JSON_CONTAINS(@j, '{"d": 4}') -> 0 (top level)
    j = '{"a": 1, "b": 2, "c": {"d": 4}}'
    assert v("SELECT JSON_CONTAINS(%s, '1') AS r", (j,)) == 0
    assert v("SELECT JSON_CONTAINS(%s, %s) AS r", (j, '{"a": 1}')) == 1
    assert v("SELECT JSON_CONTAINS(%s, %s) AS r", (j, '{"d": 4}')) == 0
    assert v("SELECT JSON_CONTAINS(%s, %s) AS r", (j, '{"c": {"d": 4}}')) == 1
    # arrays: scalar in array, array in array (every element in some element), array not in scalar
    assert v("""SELECT JSON_CONTAINS('["alice", "bob"]', JSON_QUOTE('bob')) AS r""") == 1
    assert v("""SELECT JSON_CONTAINS('["alice", "bob"]', JSON_QUOTE('carol')) AS r""") == 0
    assert v("""SELECT JSON_CONTAINS('["alice", "bob"]', JSON_QUOTE('Alice')) AS r""") == 0      # JSON strings: case-sensitive
    assert v("""SELECT JSON_CONTAINS('["alice", "bob"]', JSON_QUOTE('ali')) AS r""") == 0
    assert v("SELECT JSON_CONTAINS('[1, 2, [3, 4]]', '[4, 1]') AS r") == 1      # 4 is contained in the element [3, 4], 1 in 1
    assert v("SELECT JSON_CONTAINS('[1, 2, [3, 4]]', '[4, 5]') AS r") == 0
    assert v("SELECT JSON_CONTAINS('[1, 2, [3, 4]]', '[2, 1]') AS r") == 1
    assert v("SELECT JSON_CONTAINS('[1, 2, [3, 4]]', '4') AS r") == 1
    assert v("SELECT JSON_CONTAINS('1', '[1]') AS r") == 0
    assert v("SELECT JSON_CONTAINS('1', '1.0') AS r") == 1 and v("""SELECT JSON_CONTAINS('1', '"1"') AS r""") == 0
    assert v("SELECT JSON_CONTAINS('true', '1') AS r") == 0
    assert v("SELECT JSON_CONTAINS(NULL, '1') AS r") is None and v("SELECT JSON_CONTAINS('[1]', NULL) AS r") is None
    try:
        v("SELECT JSON_CONTAINS('[1', '1') AS r")
        raise AssertionError('invalid JSON accepted')
    except Exception as e:      # converted to the pymysql exception class at the API boundary
        assert e.args[0] == 3141, e.args
    # with the aggregate the batch front end uses: members of a project as JSON_ARRAYAGG, membership test by JSON_CONTAINS
    db.execute("INSERT INTO u (a, b, c) VALUES (1, 10, 'x'), (2, 20, 'y'), (3, 20, 'z')")
    assert db.query("SELECT JSON_CONTAINS(JSON_ARRAYAGG(c), JSON_QUOTE('y')) AS r, JSON_CONTAINS(JSON_ARRAYAGG(c), JSON_QUOTE('Y')) AS r2 FROM u") \
        == [{'r': 1, 'r2': 0}]


@test
def unsupported_is_loud():
    db = small_db()
    for sql in ('SELECT a FROM u RIGHT JOIN t ON 1', 'SELECT 1 | 2', "SELECT DATE_ADD(NOW(), INTERVAL 1 DAY)", 'CREATE TABLE z (a INT)',
                'SELECT a FROM u WINDOW w AS ()', 'LOCK TABLES u WRITE', 'SELECT JSON_EXTRACT(\'{}\', \'$\')', 'SELECT nosuchfn(1)'):
        try:
            db.execute(sql)
        except minisql.Unsupported:
            continue
        raise AssertionError('expected Unsupported for ' + sql)
    for sql in ('SELECT nosuchcol FROM u', 'SELECT * FROM nosuchtable'):
        try:
            db.execute(sql)
        except minisql.SchemaError:
            continue
        raise AssertionError('expected SchemaError for ' + sql)


# -- the repository's SQL ---------------------------------------------------------------------------------------


@test
def every_routine_parses_and_loads():
    schema, routines = extract.load()
    failed = []
    for name, r in sorted(routines.items()):
        try:
            st = sqlparse.parse(r.sql)
            assert len(st) == 1 and st[0].name == name
        except Exception as e:   # noqa: BLE001
            failed.append((name, f'{type(e).__name__}: {e}'))
    print(f'    routines found: {len(routines)}; failing to parse: {failed or "none"}')
    for name, r in sorted(routines.items()):
        print(f'      {r.kind:9} {name:34} {r.source_file}' + (f'  [{r.timing} {r.event} ON {r.table}]' if r.table else ''))
    assert not failed
    must = {'add_attempt', 'attempts_before_update', 'attempts_after_update', 'attempt_resources_after_insert', 'jobs_before_insert',
            'jobs_after_update', 'instances_before_update', 'activate_instance', 'deactivate_instance', 'mark_instance_deleted',
            'commit_batch_update', 'mark_job_complete', 'mark_job_group_complete', 'mark_job_creating', 'mark_job_started', 'schedule_job',
            'unschedule_job', 'cancel_job_group', 'cancel_batch', 'is_job_cancelled', 'is_job_group_cancelled', 'is_batch_cancelled'}
    assert must <= set(routines), must - set(routines)
    # dropped by later migrations, hence correctly absent: attempt_resources_before_insert (059), recompute_incremental (103)
    assert 'attempt_resources_before_insert' not in routines and 'recompute_incremental' not in routines
    assert schema['jobs'].col('n_max_attempts') is not None and schema['jobs'].pk == ['batch_id', 'job_id']
    db = minisql.from_repo()
    assert len(db.routines) == len(routines)


class _Req(dict):
    """aiohttp request stand-in: .app, item access, .read()"""

    def __init__(self, app, body=None):
        super().__init__()
        self.app = app
        self._body = json.dumps(body).encode() if body is not None else b''

    async def read(self):
        return self._body


BATCH_PY_WITH_SQL = ['front_end/front_end.py', 'batch.py', 'driver/job.py', 'driver/main.py', 'driver/canceller.py',
                     'driver/instance_collection/pool.py', 'driver/instance_collection/job_private.py', 'driver/instance_collection/base.py',
                     'driver/instance.py', 'driver/billing_manager.py', 'inst_coll_config.py', 'utils.py', 'spec_writer.py', 'driver/driver.py']


def static_sql_strings():
    """every non-f-string literal of the batch python sources that is a complete SQL statement"""
    import ast
    import re
    from harness import framework
    out = []
    for rel in BATCH_PY_WITH_SQL:
        path = os.path.join(framework.repo_root(), 'batch', 'batch', rel)
        tree = ast.parse(open(path, encoding='utf-8').read())
        inside_f = set()
        for node in ast.walk(tree):
            if isinstance(node, ast.JoinedStr):
                for ch in ast.walk(node):
                    inside_f.add(id(ch))
        for node in ast.walk(tree):
            if isinstance(node, ast.Constant) and isinstance(node.value, str) and id(node) not in inside_f:
                sq = node.value.strip()
                if re.match(r'(SELECT|INSERT|UPDATE|DELETE|CALL|WITH)\b', sq) and re.search(r'\b(FROM|INTO|SET|CALL)\b', sq):
                    out.append((f'{rel}:{node.lineno}', sq))
    return out


def run_static_selects(db, params_for):
    """execute every static SELECT of the python sources against the (populated) database; returns (#run, #rows)"""
    n = rows = 0
    schema_errors = []
    for where, sq in static_sql_strings():
        if not sq.upper().startswith(('SELECT', 'WITH')):
            continue
        k = sq.count('%s')
        try:
            res = db.execute(sq, tuple(params_for(where, i) for i in range(k)))
        except minisql.SchemaError as e:
            schema_errors.append((where, str(e), sq))
            continue
        n += 1
        rows += len(res[0])
    # known defect of the repository (reported, not repaired here): the deprecated close_batch endpoint filters on `deleted`
    # without joining `batches` -> MySQL error 1054 on every call
    for where, msg, sq in schema_errors:
        print(f'    SQL that does not fit the schema: {where}: {msg}')
        assert 'NOT deleted' in sq and 'FROM job_groups\nLEFT JOIN LATERAL' in sq and 'batches' not in sq, (where, msg)
    return n, rows


async def _pool_queue_query(app, db):
    """the f-string autoscaler query of Pool.regions_to_ready_cores_mcpu_from_estimated_job_queue, run through the REAL method
    with a stand-in `self`"""
    import types
    from batch.driver.instance_collection.pool import Pool

    class Sched:
        async def _compute_fair_share(self, cores):
            return {batchapp.USER: {'allocated_cores_mcpu': 16000}, 'nobody': {'allocated_cores_mcpu': 0}}
    me = types.SimpleNamespace(autoscaler_loop_period_secs=15, max_new_instances_per_autoscaler_loop=10, worker_cores=16,
                               scheduler=Sched(), job_queue_scheduling_window_secs=150, db=app['db'], name='standard',
                               all_supported_regions=['us-central1'], app=app)
    return await Pool.regions_to_ready_cores_mcpu_from_estimated_job_queue(me)


async def _e2e():
    logging.disable(logging.CRITICAL)
    t = [1700000000.0]
    db = batchapp.seeded_db(random.Random(0), clock=lambda: t[0])
    app = await batchapp.make_driver_app(db)
    from batch.front_end import front_end as fe
    from batch.front_end.query import query_v1, query_v2
    from batch.driver import job as dj
    from batch.driver import main as dm
    from batch.driver.canceller import Canceller
    from batch.batch import cancel_job_group_in_db
    g = app['db']
    ran = []

    bid = await fe._create_batch({'billing_project': batchapp.BILLING_PROJECT, 'token': 'tok1', 'n_jobs': 5, 'attributes': {'name': 'b'}},
                                 batchapp.USERDATA, g)
    assert bid == await fe._create_batch({'billing_project': batchapp.BILLING_PROJECT, 'token': 'tok1', 'n_jobs': 5}, batchapp.USERDATA, g)
    upd = await fe._create_batch_update(bid, 'utok1', 5, 2, batchapp.USER, g)
    assert upd == (1, 1, 1) and upd == await fe._create_batch_update(bid, 'utok1', 5, 2, batchapp.USER, g)
    await fe._create_job_groups(g, bid, 1, batchapp.USER, [{'job_group_id': 1, 'absolute_parent_id': 0, 'attributes': {'k': 'v'}},
                                                            {'job_group_id': 2, 'in_update_parent_id': 1}])
    specs = [batchapp.job_spec(1, attributes={'name': 'first'}), batchapp.job_spec(2, parents=[1], in_update_job_group=1),
             batchapp.job_spec(3, parents=[1, 2], always_run=True), batchapp.job_spec(4, in_update_job_group=2),
             batchapp.job_spec(5, in_update_job_group=1, cpu='0.25')]
    await fe._create_jobs(batchapp.USERDATA, specs, bid, 1, app)
    await fe._create_jobs(batchapp.USERDATA, [batchapp.job_spec(1, attributes={'name': 'first'})], bid, 1, app)   # retried bunch: 1062 swallowed
    await fe._commit_update(app, bid, 1, batchapp.USER, g)
    await fe._commit_update(app, bid, 1, batchapp.USER, g)            # idempotent
    ran += ['front_end._create_batch', '_create_batch_update', '_create_job_groups', '_create_jobs', '_commit_update']
    b = await fe._get_batch(app, bid)
    assert b['state'] == 'running' and b['n_jobs'] == 5, b
    jg = await fe._get_job_group(app, bid, 2)
    assert jg['n_jobs'] == 1 and jg['state'] == 'running', jg
    ran += ['_get_batch', '_get_job_group']

    inst = await batchapp.create_instance(app, 'w1')
    await inst.activate('10.0.0.5', 1234)
    jp = await batchapp.create_instance(app, 'jp1', inst_coll='job-private', cores=1)
    ran += ['driver.instance.Instance.create', 'Instance.activate']
    res = [{'name': 'compute/n1-preemptible/1', 'quantity': 1000}, {'name': 'memory/n1-preemptible/1', 'quantity': 3840}]
    rv = await g.execute_and_fetchone('CALL schedule_job(%s, %s, %s, %s);', (bid, 1, 'att1', 'w1'))
    assert rv['rc'] == 0, rv
    await dj.mark_job_started(app, bid, 1, 'att1', inst, 5000, res)
    n_sel, n_rows = run_static_selects(db, lambda where, i: ('standard' if 'pool.py' in where and i in (0, 2) else 1))
    assert n_sel > 90 and n_rows > 20, (n_sel, n_rows)
    ran += [f'{n_sel} static SELECT statements of the python sources executed on the populated database ({n_rows} rows)']
    queue = await _pool_queue_query(app, db)
    assert queue == [(['us-central1'], 1250)], queue        # jobs 4 (1000 mcpu) and 5 (250 mcpu) are Ready in pool 'standard'
    ran += ['Pool.regions_to_ready_cores_mcpu_from_estimated_job_queue (f-string CTE/UNION/ROW_NUMBER query)']
    rv = await g.execute_and_fetchone('CALL mark_job_creating(%s, %s, %s, %s, %s);', (bid, 4, 'att4', 'jp1', 5100))
    assert rv['rc'] == 0
    await dj.mark_job_creating(app, bid, 5, 'att5', jp, 5200, res)
    await dj.unschedule_job(app, {'batch_id': bid, 'job_id': 5, 'attempt_id': 'att5', 'instance_name': 'jp1'})
    inst._last_updated = 0
    await dm.billing_update_1(_Req(app, {'timestamp': 7000, 'attempts': [{'batch_id': bid, 'job_id': 1, 'attempt_id': 'att1'},
                                                                       {'batch_id': bid, 'job_id': 4, 'attempt_id': 'att4'}]}), inst)
    assert [r['rollup_time'] for r in db.tables['attempts'] if r['attempt_id'] == 'att1'] == [7000]
    assert sum(r['usage'] for r in db.tables['aggregated_job_resources_v3'] if r['job_id'] == 1) == (7000 - 5000) * (1000 + 3840)
    ran += ['driver.main.billing_update_1 (f-string UPDATE attempts ... OR ...)', 'Instance.mark_healthy']
    await dj.mark_job_complete(app, bid, 1, 'att1', 0, 'w1', 'Success', [0, 4000], 5000, 9000, 'completed', res, marked_job_started=True)
    await dj.mark_job_complete(app, bid, 1, 'att1', 0, 'w1', 'Success', [0, 4000], 5000, 9000, 'completed', res, marked_job_started=True)  # duplicate message
    ran += ['driver.job.mark_job_started', 'mark_job_creating', 'unschedule_job', 'mark_job_complete', 'add_attempt_resources']
    await dm.check_resource_aggregation(g)
    await fe._cancel_job_group(app, bid, 1)
    await cancel_job_group_in_db(g, bid, 1)                           # second cancel: no-op
    ran += ['front_end._cancel_job_group', 'batch.cancel_job_group_in_db']
    c = Canceller(app)
    await c.cancel_cancelled_ready_jobs_loop_body()
    await c.cancel_cancelled_creating_jobs_loop_body()
    await c.cancel_cancelled_running_jobs_loop_body()
    await c.cancel_orphaned_attempts_loop_body()
    ran += ['Canceller.cancel_cancelled_{ready,creating,running}_jobs_loop_body', 'cancel_orphaned_attempts_loop_body']
    try:
        await fe._create_jobs(batchapp.USERDATA, [batchapp.job_spec(1, in_update_job_group=1)], bid, 1, app)
        raise AssertionError('update already committed')
    except Exception as e:   # noqa: BLE001
        assert type(e).__name__ == 'HTTPBadRequest', e
    states = {r['job_id']: (r['state'], r['cancelled']) for r in db.tables['jobs']}
    assert states[1] == ('Success', 0) and states[2][0] == 'Cancelled' and states[3] == ('Ready', 1) and states[5][0] == 'Cancelled', states
    await dj.schedule_job(app, await batchapp.scheduler_record(app, bid, 3, 'att3'), inst)      # REAL schedule_job incl. job_config
    assert [r['state'] for r in db.tables['jobs'] if r['job_id'] == 3] == ['Running']
    assert app['client_session'].calls[-1][0] == 'post' and app['client_session'].calls[-1][2]['json']['job_id'] == 3
    ran += ['driver.job.schedule_job (job_config, SpecWriter.get_token_start_id, CALL schedule_job)']
    await dj.mark_job_complete(app, bid, 3, 'att3', 0, 'w1', 'Failed', None, 9500, 9900, 'completed', res)
    b = await fe._get_batch(app, bid)
    assert b['complete'] and b['state'] == 'failure' and b['n_completed'] == 5 and b['n_cancelled'] == 3 and b['n_failed'] == 1, b
    assert b['cost'] > 0 and len(b['cost_breakdown']) == 2
    await dm.check_incremental(g)
    await dm.check_resource_aggregation(g)
    ran += ['driver.main.check_incremental', 'check_resource_aggregation']
    await dm.delete_committed_job_groups_inst_coll_staging_records(g)
    await dm.delete_prev_cancelled_job_group_cancellable_resources_records(g)
    await dm.compact_agg_billing_project_users_table(app, g)
    await dm.compact_agg_billing_project_users_by_date_table(app, g)
    await dm.check_resource_aggregation(g)
    assert not db.tables['job_groups_inst_coll_staging']
    assert all(r['token'] == 0 for r in db.tables['aggregated_billing_project_user_resources_v3'])
    ran += ['delete_committed_job_groups_inst_coll_staging_records', 'delete_prev_cancelled_job_group_cancellable_resources_records',
            'compact_agg_billing_project_users_table', 'compact_agg_billing_project_users_by_date_table']
    # a second update whose jobs depend on finished parents
    upd2 = await fe._create_batch_update(bid, 'utok2', 2, 0, batchapp.USER, g)
    await fe._create_jobs(batchapp.USERDATA, [batchapp.job_spec(1, absolute_parents=[1]), batchapp.job_spec(2, absolute_parents=[3])], bid, upd2[0], app)
    await fe._commit_update(app, bid, upd2[0], batchapp.USER, g)
    states = {r['job_id']: (r['state'], r['cancelled'], r['n_pending_parents']) for r in db.tables['jobs']}
    assert states[6] == ('Ready', 0, 0) and states[7] == ('Ready', 1, 0), states
    # list / search queries (f-string SQL built by the real query builders)
    req = _Req(app)
    for version in (1, 2):
        for qs in ('', 'name=first', 'state=success' if version == 1 else 'state = success', 'job_id >= 2' if version == 2 else 'k=v'):
            try:
                jobs, last = await fe._query_job_group_jobs(req, bid, 0, version, qs, None, True)
            except Exception as e:   # noqa: BLE001
                if type(e).__name__ == 'QueryError':
                    continue
                raise
            assert all('job_id' in j for j in jobs)
    jobs, _ = await fe._query_job_group_jobs(req, bid, 0, 1, '', None, True)
    assert len(jobs) == 7 and jobs[0]['name'] == 'first', jobs
    jobs, _ = await fe._query_job_group_jobs(req, bid, 1, 2, '', None, False)
    assert [j['job_id'] for j in jobs] == [2, 5], jobs
    for fn, args in ((query_v1.parse_list_batches_query_v1, (batchapp.USER, 'name=b', None)), (query_v2.parse_list_batches_query_v2, (batchapp.USER, 'name = b', None)),
                     (query_v1.parse_list_job_groups_query_v1, (bid, 0, None))):
        sql, sql_args = fn(*args)
        rows = [r async for r in g.select_and_fetchall(sql, sql_args)]
        assert rows, (fn.__name__, rows)
    ran += ['_query_job_group_jobs (query_v1 + query_v2 builders)', 'parse_list_batches_query_v1/v2', 'parse_list_job_groups_query_v1']
    await inst.deactivate('test')
    await inst.mark_deleted('test', 12345)
    ran += ['Instance.deactivate', 'Instance.mark_deleted']
    await fe._delete_batch(app, bid)
    assert db.tables['batches'][0]['deleted'] == 1
    ran += ['_delete_batch']
    app['task_manager'].shutdown()
    await asyncio.sleep(0)
    return db, ran


@test
def end_to_end_real_python_functions():
    db, ran = asyncio.run(_e2e())
    print('    real python functions that ran over minisql:')
    for r in ran:
        print('      ' + r)
    for t in ('batches', 'job_groups', 'jobs', 'attempts', 'instances_free_cores_mcpu', 'user_inst_coll_resources',
              'job_groups_n_jobs_in_complete_states', 'aggregated_job_resources_v3'):
        rows = db.dump([t])[t]
        print(f'    {t} ({len(rows)} rows)')
        for r in rows[:8]:
            r.pop('spec', None)
            r.pop('userdata', None)
            print('      ' + json.dumps(r)[:230])


# the invariant of driver/main.py::check_incremental (actual vs expected scheduler counters) with its LATERAL made single-row
CHECK = """
SELECT t.*, u.* FROM
(
  SELECT user, inst_coll,
    CAST(COALESCE(SUM(state = 'Ready' AND runnable), 0) AS SIGNED) AS actual_n_ready_jobs,
    CAST(COALESCE(SUM(cores_mcpu * (state = 'Ready' AND runnable)), 0) AS SIGNED) AS actual_ready_cores_mcpu,
    CAST(COALESCE(SUM(state = 'Running' AND (NOT cancelled)), 0) AS SIGNED) AS actual_n_running_jobs,
    CAST(COALESCE(SUM(cores_mcpu * (state = 'Running' AND (NOT cancelled))), 0) AS SIGNED) AS actual_running_cores_mcpu,
    CAST(COALESCE(SUM(state = 'Creating' AND (NOT cancelled)), 0) AS SIGNED) AS actual_n_creating_jobs,
    CAST(COALESCE(SUM(state = 'Ready' AND cancelled), 0) AS SIGNED) AS actual_n_cancelled_ready_jobs,
    CAST(COALESCE(SUM(state = 'Running' AND cancelled), 0) AS SIGNED) AS actual_n_cancelled_running_jobs,
    CAST(COALESCE(SUM(state = 'Creating' AND cancelled), 0) AS SIGNED) AS actual_n_cancelled_creating_jobs
  FROM
  (
    SELECT job_groups.user, jobs.state, jobs.cores_mcpu, jobs.inst_coll,
      (jobs.always_run OR NOT (jobs.cancelled OR t.cancelled IS NOT NULL)) AS runnable,
      (NOT jobs.always_run AND (jobs.cancelled OR t.cancelled IS NOT NULL)) AS cancelled
    FROM job_groups
    LEFT JOIN jobs ON job_groups.batch_id = jobs.batch_id AND job_groups.job_group_id = jobs.job_group_id
    LEFT JOIN LATERAL (
      SELECT 1 AS cancelled
      FROM job_group_self_and_ancestors
      INNER JOIN job_groups_cancelled
        ON job_group_self_and_ancestors.batch_id = job_groups_cancelled.id AND
           job_group_self_and_ancestors.ancestor_id = job_groups_cancelled.job_group_id
      WHERE job_groups.batch_id = job_group_self_and_ancestors.batch_id AND
            job_groups.job_group_id = job_group_self_and_ancestors.job_group_id
      LIMIT 1
    ) AS t ON TRUE
    WHERE job_groups.`state` = 'running'
  ) as v
  GROUP BY user, inst_coll
) as t
INNER JOIN
(
  SELECT user, inst_coll,
    CAST(COALESCE(SUM(n_ready_jobs), 0) AS SIGNED) AS expected_n_ready_jobs,
    CAST(COALESCE(SUM(ready_cores_mcpu), 0) AS SIGNED) AS expected_ready_cores_mcpu,
    CAST(COALESCE(SUM(n_running_jobs), 0) AS SIGNED) AS expected_n_running_jobs,
    CAST(COALESCE(SUM(running_cores_mcpu), 0) AS SIGNED) AS expected_running_cores_mcpu,
    CAST(COALESCE(SUM(n_creating_jobs), 0) AS SIGNED) AS expected_n_creating_jobs,
    CAST(COALESCE(SUM(n_cancelled_ready_jobs), 0) AS SIGNED) AS expected_n_cancelled_ready_jobs,
    CAST(COALESCE(SUM(n_cancelled_running_jobs), 0) AS SIGNED) AS expected_n_cancelled_running_jobs,
    CAST(COALESCE(SUM(n_cancelled_creating_jobs), 0) AS SIGNED) AS expected_n_cancelled_creating_jobs
  FROM user_inst_coll_resources
  GROUP BY user, inst_coll
) AS u
ON t.user = u.user AND t.inst_coll = u.inst_coll
WHERE actual_n_ready_jobs != expected_n_ready_jobs
   OR actual_ready_cores_mcpu != expected_ready_cores_mcpu
   OR actual_n_running_jobs != expected_n_running_jobs
   OR actual_running_cores_mcpu != expected_running_cores_mcpu
   OR actual_n_creating_jobs != expected_n_creating_jobs
   OR actual_n_cancelled_ready_jobs != expected_n_cancelled_ready_jobs
   OR actual_n_cancelled_running_jobs != expected_n_cancelled_running_jobs
   OR actual_n_cancelled_creating_jobs != expected_n_cancelled_creating_jobs
"""


E1242 = [0]


async def _history(seed):
    rng = random.Random(seed)
    t = [1700000000.0]
    db = batchapp.seeded_db(random.Random(seed), clock=lambda: t[0])
    app = await batchapp.make_driver_app(db)
    from batch.front_end import front_end as fe
    from batch.driver import job as dj
    from batch.driver import main as dm
    from batch.driver.canceller import Canceller
    g = app['db']
    bid = await fe._create_batch({'billing_project': batchapp.BILLING_PROJECT, 'token': f'tok{seed}', 'n_jobs': 0}, batchapp.USERDATA, g)
    insts = []
    for i in range(2):
        inst = await batchapp.create_instance(app, f'w{i}', cores=4)
        await inst.activate(f'10.0.0.{i}', 1000)
        insts.append(inst)
    res = [{'name': 'compute/n1-preemptible/1', 'quantity': 1000}]
    n_updates = 0; n_groups = 0; n_jobs = 0; att = 0
    ops = 0
    canc = Canceller(app)
    for step in range(rng.randint(10, 30)):
        r = rng.random(); ops += 1
        t[0] += 1
        if r < 0.2:
            nj = rng.randint(0, 4); ng = rng.randint(0, 2) if nj or rng.random()<0.5 else 1
            if nj == 0 and ng == 0: continue
            try: upd = await fe._create_batch_update(bid, f'u{seed}-{step}', nj, ng, batchapp.USER, g)
            except Exception as e:
                if type(e).__name__ != 'HTTPBadRequest': raise
                continue
            if ng:
                specs = []
                for k in range(ng):
                    if k > 0 and rng.random() < 0.5: specs.append({'job_group_id': k+1, 'in_update_parent_id': rng.randint(1, k)})
                    else: specs.append({'job_group_id': k+1, 'absolute_parent_id': rng.randint(0, n_groups)})
                try: await fe._create_job_groups(g, bid, upd[0], batchapp.USER, specs)
                except Exception as e:
                    if type(e).__name__ != 'HTTPBadRequest': raise
                    continue
            if nj:
                js = []
                for k in range(nj):
                    parents = [p for p in range(1, k+1) if rng.random() < 0.3]
                    absp = [p for p in range(1, n_jobs+1) if rng.random() < 0.15]
                    gid = rng.randint(0, n_groups + ng)
                    js.append(batchapp.job_spec(k+1, parents=parents, absolute_parents=absp, job_group=gid, always_run=rng.random()<0.2, cpu=rng.choice(['0.25','1','2'])))
                try: await fe._create_jobs(batchapp.USERDATA, js, bid, upd[0], app)
                except Exception as e:
                    if type(e).__name__ != 'HTTPBadRequest': raise
                    continue
            await fe._commit_update(app, bid, upd[0], batchapp.USER, g)
            n_groups += ng; n_jobs += nj
        elif r < 0.55:
            ready = [x for x in db.tables['jobs'] if x['state'] == 'Ready']
            if not ready: continue
            j = rng.choice(ready); inst = rng.choice(insts); att += 1
            try: rv = await g.execute_and_fetchone('CALL schedule_job(%s, %s, %s, %s);', (bid, j['job_id'], f'a{att}', inst.name))
            except Exception as e:
                if e.args[0] != 1242: raise
                E1242[0] += 1
                continue
            if rng.random() < 0.7:
                try: await dj.mark_job_started(app, bid, j['job_id'], f'a{att}', inst, int(t[0]*1000), res)
                except Exception as e:
                    if e.args[0] != 1242: raise
                    E1242[0] += 1
        elif r < 0.8:
            running = [x for x in db.tables['jobs'] if x['state'] in ('Running',)]
            if not running: continue
            j = rng.choice(running)
            a = [x for x in db.tables['attempts'] if x['job_id'] == j['job_id'] and x['attempt_id'] == j['attempt_id']][0]
            st = rng.choice(['Success','Success','Failed','Error'])
            await dj.mark_job_complete(app, bid, j['job_id'], a['attempt_id'], j['job_group_id'], a['instance_name'], st, [0, 5], int(t[0]*1000)-5, int(t[0]*1000), 'completed', res)
            if rng.random() < 0.2:  # duplicate message
                await dj.mark_job_complete(app, bid, j['job_id'], a['attempt_id'], j['job_group_id'], a['instance_name'], st, [0, 5], int(t[0]*1000)-5, int(t[0]*1000), 'completed', res)
        elif r < 0.88:
            gid = rng.randint(0, n_groups)
            try: await fe._cancel_job_group(app, bid, gid)
            except Exception as e:
                if type(e).__name__ != 'NonExistentJobGroupError': raise
        elif r < 0.95:
            await canc.cancel_cancelled_ready_jobs_loop_body()
            await canc.cancel_cancelled_running_jobs_loop_body()
        else:
            inst = rng.choice(insts)
            if inst.state == 'active':
                await inst.deactivate('preempted')
                i2 = await batchapp.create_instance(app, f'w{len(insts)}-{step}', cores=4); await i2.activate('10.0.1.1', 2000)
                insts[insts.index(inst)] = i2
        if False: print('step', step, 'r=%.2f' % r, [(x['job_id'], x['state'], x['cancelled'], x['always_run'], x['job_group_id'], x['n_pending_parents'], x['update_id']) for x in db.tables['jobs']], 'cancelled groups', [x['job_group_id'] for x in db.tables['job_groups_cancelled']], 'updates', [(x['update_id'], x['committed']) for x in db.tables['batch_updates']], 'groups', [(x['job_group_id'], x['state'], x['update_id']) for x in db.tables['job_groups']], 'anc', [(x['job_group_id'], x['ancestor_id']) for x in db.tables['job_group_self_and_ancestors']])
        bad = db.query(CHECK)
        if bad:
            return seed, step, bad
    await dm.check_resource_aggregation(g)
    await dm.delete_committed_job_groups_inst_coll_staging_records(g)
    await dm.delete_prev_cancelled_job_group_cancellable_resources_records(g)
    app['task_manager'].shutdown()
    return None



@test
def random_histories_keep_scheduler_counters_consistent():
    """random committed-update histories through the REAL python entry points; after every op the scheduler counters of
    user_inst_coll_resources must equal a recount from jobs (the repository's own audit query)"""
    async def go():
        bad = []
        for seed in range(40):
            r = await _history(seed)
            if r:
                bad.append(r)
        return bad
    bad = asyncio.run(go())
    print(f'    40 random histories; counter mismatches: {len(bad)}; statements failing with MySQL error 1242 (is_job_cancelled with two '
          f'cancelled ancestors, a defect of migration 119): {E1242[0]}')
    assert not bad, bad[:1]


@test
def doubly_cancelled_ancestor_behaviour():
    """cancel a sub-group, then the batch: with migration 119 alone is_job_cancelled() is a scalar subquery over one row per cancelled
    ancestor -> error 1242 in schedule_job; migration 121 (LIMIT 1 in the lateral subquery) answers.  minisql itself keeps raising 1242
    for any multi-row scalar subquery (checked here on 119's verbatim text and on a plain statement)."""
    async def go():
        db = batchapp.seeded_db(random.Random(0), clock=lambda: 1700000000.0)
        app = await batchapp.make_driver_app(db)
        from batch.front_end import front_end as fe
        g = app['db']
        bid = await fe._create_batch({'billing_project': batchapp.BILLING_PROJECT, 'token': 'tok1', 'n_jobs': 1}, batchapp.USERDATA, g)
        await fe._create_batch_update(bid, 'u1', 1, 1, batchapp.USER, g)
        await fe._create_job_groups(g, bid, 1, batchapp.USER, [{'job_group_id': 1, 'absolute_parent_id': 0}])
        await fe._create_jobs(batchapp.USERDATA, [batchapp.job_spec(1, in_update_job_group=1, always_run=True)], bid, 1, app)
        await fe._commit_update(app, bid, 1, batchapp.USER, g)
        inst = await batchapp.create_instance(app, 'w1')
        await inst.activate('10.0.0.1', 1)
        await fe._cancel_job_group(app, bid, 1)
        await fe._cancel_job_group(app, bid, 0)
        # (1) a multi-row scalar subquery is an error, in a plain statement ...
        try:
            await g.execute_and_fetchone('SELECT (SELECT job_group_id FROM job_groups_cancelled WHERE id = %s) AS x', (bid,))
            plain = 'no error'
        except pymysql.err.MySQLError as e:
            plain = e.args[0]
        assert plain == 1242, plain
        # (2) ... and in the function as migration 119 defined it (its verbatim text, when that file is in the tree)
        import re
        from harness.minisql import extract
        path119 = os.path.join(extract._repo_root(), 'batch', 'sql', '119-is-job-cancelled.sql')
        old = [stmt for stmt, _ in extract.split_script(open(path119, encoding='utf-8').read())
               if re.match(r'CREATE\s+FUNCTION\s+is_job_cancelled\b', stmt)] if os.path.exists(path119) else []
        snap = db.snapshot()
        try:
            rv = await g.execute_and_fetchone('CALL schedule_job(%s, %s, %s, %s);', (bid, 1, 'a1', 'w1'))
            out = f'rc={rv["rc"]}'
        except pymysql.err.MySQLError as e:
            out = f'{type(e).__name__}{e.args}'
        if db.routine_sources.get('is_job_cancelled', '').startswith('121-'):
            assert out == 'rc=0', out
            if old:
                db.restore(snap)
                db.add_routine(old[0], '119-is-job-cancelled.sql')
                try:
                    await g.execute_and_fetchone('CALL schedule_job(%s, %s, %s, %s);', (bid, 1, 'a2', 'w1'))
                    out119 = 'no error'
                except pymysql.err.MySQLError as e:
                    out119 = e.args[0]
                assert out119 == 1242, out119
                out += '; with the definition of 119 alone: error 1242'
        app['task_manager'].shutdown()
        return out
    print('    schedule_job of an always_run job whose group and batch are both cancelled ->', asyncio.run(go()))


@test
def fakepool_under_real_gear_database():
    db = small_db()

    async def go():
        g = await fakepool.make_database(db)
        from gear.database import transaction
        assert await g.execute_insertone("INSERT INTO t (k, v) VALUES (%s, %s)", ('a', 1)) == 1
        assert await g.execute_many("INSERT INTO u (a, b) VALUES (%s, %s)", [(1, 1), (2, 2), (3, 3)]) == 3      # one multi-row statement
        assert [x[2] for x in g.pool.log if x[2].startswith('INSERT INTO u')] == ['INSERT INTO u (a, b) VALUES (%s, %s)']
        assert await g.execute_update('UPDATE u SET b = b + 1 WHERE a > %s', (1,)) == 2
        assert (await g.select_and_fetchone('SELECT COUNT(*) AS n FROM u'))['n'] == 3
        assert [r['a'] async for r in g.select_and_fetchall('SELECT a FROM u ORDER BY a DESC')] == [3, 2, 1]

        @transaction(g)
        async def fails(tx):
            await tx.just_execute('DELETE FROM u')
            await tx.execute_many("INSERT INTO t (k, v) VALUES (%s, %s)", [('x', 1), ('a', 2)])      # duplicate -> 1062

        try:
            await fails()
            raise AssertionError('expected 1062')
        except pymysql.err.IntegrityError:
            pass
        assert len(db.tables['u']) == 3 and len(db.tables['t']) == 1
        # fault iterator: deadlock on the 3rd statement of the first attempt (acquire, START TRANSACTION, DELETE), then clean
        g.pool.faults = iter([None, None, pymysql.err.OperationalError(1213, 'Deadlock found')])
        n0 = g.pool.stmt_index

        @transaction(g)
        async def ok(tx):
            await tx.just_execute('DELETE FROM u WHERE a = 1')
            rv = await tx.execute_and_fetchone('SELECT COUNT(*) AS n FROM u')
            return rv['n']

        import hailtop.utils
        real_sleep = asyncio.sleep

        async def no_sleep(_):
            await real_sleep(0)
        asyncio.sleep, saved = no_sleep, asyncio.sleep
        try:
            assert await ok() == 2
        finally:
            asyncio.sleep = saved
        sqls = [x[2] for x in g.pool.log if x[0] >= n0]
        assert sqls == ['<acquire>', 'START TRANSACTION;', 'DELETE FROM u WHERE a = 1', 'ROLLBACK', '<acquire>', 'START TRANSACTION;',
                        'DELETE FROM u WHERE a = 1', 'SELECT COUNT(*) AS n FROM u', 'COMMIT'], sqls
        rv = await g.check_call_procedure('CALL pr(%s)', (1,)) if 'pr' in db.routines else None
        await g.async_close()

    logging.getLogger('gear.database').setLevel(logging.CRITICAL + 1)
    asyncio.run(go())


def main():
    failed = 0
    for t in TESTS:
        try:
            t()
            print(f'ok   {t.__name__}')
        except Exception:   # noqa: BLE001
            failed += 1
            print(f'FAIL {t.__name__}')
            traceback.print_exc()
    print(f'{len(TESTS) - failed}/{len(TESTS)} tests passed; SEMANTICS entries: {len(minisql.SEMANTICS)}')
    return 1 if failed else 0


if __name__ == '__main__':
    sys.exit(main())

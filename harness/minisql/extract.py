"""Extraction of the batch service's SQL from the migrations (DESIGN.md §2.4).

* `split_script(text)`       -> [(statement_text, line_no)] honouring `DELIMITER xx`, strings, comments.
* `migration_files(repo)`    -> numbered `batch/sql/NNN*.sql` in numeric-prefix order.
* `extract_routines(repo)`   -> {name: Routine(kind, source_file, sql, table, timing, event)} : for every stored
                                PROCEDURE / FUNCTION / TRIGGER the LAST migration that (re)defines it (DROP ... honoured,
                                triggers follow RENAME TABLE and die with DROP TABLE, as in MySQL).
* `extract_schema(repo)`     -> {table: Table}: replay of every CREATE TABLE / ALTER TABLE / RENAME TABLE / DROP TABLE /
                                CREATE [UNIQUE] INDEX of the migrations, in order.
* `routines(repo)`           -> {name: (kind, source_file, verbatim_sql_text)}   (the shape the task statement asks for)
* `load(repo)`               -> (schema, routines) cached per repo root + mtime signature.

Nothing here executes SQL; DDL is parsed leniently with a small tokenizer.  Anything in a DDL statement this file does
not understand raises `ExtractError` (fail loudly), except clauses explicitly listed as ignorable (indexes, foreign keys,
ALGORITHM/LOCK hints, ENGINE/CHARSET table options, generated-column expressions are kept as text but not evaluated).
"""
from __future__ import annotations

import os
import re
from dataclasses import dataclass, field
from typing import Any, Dict, List, Optional, Tuple


class ExtractError(Exception):
    pass


# --------------------------------------------------------------------------------------------------
# script splitting


def split_script(text: str) -> List[Tuple[str, int]]:
    """Split a mysql-client script into statements. Understands DELIMITER, '..', "..", `..`, -- , # and /* */ comments."""
    out: List[Tuple[str, int]] = []
    delim = ';'
    i = 0
    n = len(text)
    cur: List[str] = []
    cur_line = 1
    line = 1
    at_line_start = True

    def flush():
        nonlocal cur
        s = ''.join(cur).strip()
        if s:
            out.append((s, cur_line))
        cur = []

    while i < n:
        c = text[i]
        if at_line_start:
            m = re.match(r'[ \t]*DELIMITER[ \t]+(\S+)[ \t]*(\r?\n|$)', text[i:], re.I)
            if m and not ''.join(cur).strip():
                delim = m.group(1)
                i += m.end()
                line += 1
                cur = []
                continue
        at_line_start = False
        if not ''.join(cur[-1:]).strip() and not ''.join(cur).strip():
            cur_line = line
        if c == '\n':
            line += 1
            at_line_start = True
            cur.append(c)
            i += 1
            continue
        if c in ('\'', '"', '`'):
            j = i + 1
            while j < n:
                if text[j] == '\\' and c != '`':
                    j += 2
                    continue
                if text[j] == c:
                    if j + 1 < n and text[j + 1] == c:
                        j += 2
                        continue
                    break
                j += 1
            seg = text[i:j + 1]
            line += seg.count('\n')
            cur.append(seg)
            i = j + 1
            continue
        if text.startswith('--', i) and (i + 2 >= n or text[i + 2] in ' \t\n\r') or c == '#':
            j = text.find('\n', i)
            if j < 0:
                j = n
            i = j
            continue
        if text.startswith('/*', i):
            j = text.find('*/', i + 2)
            if j < 0:
                j = n
            line += text[i:j + 2].count('\n')
            i = j + 2
            cur.append(' ')
            continue
        if text.startswith(delim, i):
            flush()
            i += len(delim)
            continue
        cur.append(c)
        i += 1
    flush()
    return out


def migration_files(repo: str, include_py: bool = False) -> List[str]:
    d = os.path.join(repo, 'batch', 'sql')
    fs = []
    for fn in os.listdir(d):
        m = re.match(r'(\d+)([a-z]?)-.*\.(sql|py)$', fn)
        if m and (include_py or m.group(3) == 'sql'):
            fs.append(((int(m.group(1)), m.group(2)), fn))
    return [os.path.join(d, fn) for _, fn in sorted(fs)]


def py_migration_ddl(path: str) -> Tuple[List[Tuple[str, int]], str]:
    """DDL string literals (not f-strings) executed by a python migration, in source order, + the whole source text"""
    import ast
    with open(path, encoding='utf-8') as f:
        src = f.read()
    tree = ast.parse(src)
    inside_f = set()
    for node in ast.walk(tree):
        if isinstance(node, ast.JoinedStr):
            for ch in ast.walk(node):
                inside_f.add(id(ch))
    out = []
    for node in ast.walk(tree):
        if isinstance(node, ast.Constant) and isinstance(node.value, str) and id(node) not in inside_f:
            for stmt, line in split_script(node.value):
                if re.match(r'\s*(ALTER|CREATE|DROP|RENAME)\s+(TEMPORARY\s+)?(TABLE|INDEX|UNIQUE)', stmt, re.I):
                    out.append((stmt, node.lineno + line - 1))
    out.sort(key=lambda x: x[1])
    return out, src


# --------------------------------------------------------------------------------------------------
# routines


@dataclass
class Routine:
    name: str
    kind: str              # 'PROCEDURE' | 'FUNCTION' | 'TRIGGER'
    source_file: str       # basename of the migration
    sql: str               # verbatim text "CREATE ... END"
    table: Optional[str] = None    # triggers only
    timing: Optional[str] = None   # BEFORE | AFTER
    event: Optional[str] = None    # INSERT | UPDATE | DELETE
    line: int = 0


_CREATE_ROUTINE = re.compile(r'CREATE\s+(?:DEFINER\s*=\s*\S+\s+)?(PROCEDURE|FUNCTION|TRIGGER)\s+`?(\w+)`?', re.I)
_DROP_ROUTINE = re.compile(r'DROP\s+(PROCEDURE|FUNCTION|TRIGGER)\s+(?:IF\s+EXISTS\s+)?`?(\w+)`?\s*$', re.I)
_TRIGGER_HEAD = re.compile(r'CREATE\s+(?:DEFINER\s*=\s*\S+\s+)?TRIGGER\s+`?(\w+)`?\s+(BEFORE|AFTER)\s+(INSERT|UPDATE|DELETE)\s+ON\s+`?(\w+)`?',
                           re.I)


def _ident(s: str) -> str:
    return s.strip().strip('`')


_LEADING_DROP = re.compile(r'\s*(DROP\s+(?:PROCEDURE|FUNCTION|TRIGGER)\s+(?:IF\s+EXISTS\s+)?`?\w+`?)\s*;', re.I)


def _peel(stmt: str, line: int):
    """000-initial.sql writes `DROP TRIGGER IF EXISTS x;` + `CREATE TRIGGER x ... END $$` inside one `$$` chunk (the mysql
    client sends both as one multi-statement packet): split the leading DROPs off."""
    while True:
        m = _LEADING_DROP.match(stmt)
        if not m:
            break
        yield m.group(1), line
        line += stmt[:m.end()].count('\n')
        rest = stmt[m.end():]
        line += len(rest) - len(rest.lstrip('\n'))
        stmt = rest.strip()
    if stmt:
        yield stmt, line


def extract_routines(repo: str) -> Dict[str, Routine]:
    cur: Dict[str, Routine] = {}
    for path in migration_files(repo):
        with open(path, encoding='utf-8') as f:
            text = f.read()
        base = os.path.basename(path)
        for stmt, line in (x for sl in split_script(text) for x in _peel(*sl)):
            m = _CREATE_ROUTINE.match(stmt)
            if m:
                kind, name = m.group(1).upper(), m.group(2)
                r = Routine(name, kind, base, stmt, line=line)
                if kind == 'TRIGGER':
                    t = _TRIGGER_HEAD.match(stmt)
                    if not t:
                        raise ExtractError(f'{base}:{line}: cannot read trigger head: {stmt[:120]!r}')
                    r.timing, r.event, r.table = t.group(2).upper(), t.group(3).upper(), t.group(4)
                cur[name] = r
                continue
            m = _DROP_ROUTINE.match(stmt)
            if m:
                cur.pop(m.group(2), None)
                continue
            m = re.match(r'RENAME\s+TABLE\s+(.*)$', stmt, re.I | re.S)
            if m:
                for pair in m.group(1).split(','):
                    a, b = re.split(r'\s+TO\s+', pair.strip(), flags=re.I)
                    a, b = _ident(a), _ident(b)
                    for r in cur.values():
                        if r.kind == 'TRIGGER' and r.table == a:
                            r.table = b
                continue
            m = re.match(r'ALTER\s+TABLE\s+`?(\w+)`?\s+RENAME\s+(?:TO\s+|AS\s+)?`?(\w+)`?\s*$', stmt, re.I)
            if m:
                for r in cur.values():
                    if r.kind == 'TRIGGER' and r.table == m.group(1):
                        r.table = m.group(2)
                continue
            m = re.match(r'DROP\s+(?:TEMPORARY\s+)?TABLES?\s+(?:IF\s+EXISTS\s+)?(.*)$', stmt, re.I | re.S)
            if m:
                names = {_ident(x) for x in m.group(1).split(',')}
                for k in [k for k, r in cur.items() if r.kind == 'TRIGGER' and r.table in names]:
                    del cur[k]
    return cur


def routines(repo: Optional[str] = None) -> Dict[str, Tuple[str, str, str]]:
    repo = repo or _repo_root()
    return {k: (r.kind, r.source_file, r.sql) for k, r in extract_routines(repo).items()}


# --------------------------------------------------------------------------------------------------
# schema


@dataclass
class Column:
    name: str
    type: str                       # raw type text, upper-cased, e.g. 'VARCHAR(100)'
    tclass: str                     # int | bigint | double | varchar | text | boolean | json | enum | date | blob | decimal
    not_null: bool = False
    default: Any = None             # python value (None = NULL / no default)
    has_default: bool = False
    auto_increment: bool = False
    enum_values: Optional[List[str]] = None
    generated: Optional[str] = None   # expression text of a generated column (not evaluated)
    collation: Optional[str] = None

    def to_json(self):
        return {'name': self.name, 'type': self.type, 'class': self.tclass, 'not_null': self.not_null,
                'default': self.default, 'has_default': self.has_default, 'auto_increment': self.auto_increment,
                'enum': self.enum_values, 'generated': self.generated}


@dataclass
class Table:
    name: str
    columns: List[Column] = field(default_factory=list)
    pk: Optional[List[str]] = None
    uniques: Dict[str, List[str]] = field(default_factory=dict)
    indexes: Dict[str, List[str]] = field(default_factory=dict)
    fks: List[Dict[str, Any]] = field(default_factory=list)
    source: List[str] = field(default_factory=list)   # migrations that touched it
    _fk_counter: int = 0

    def col(self, name: str) -> Optional[Column]:
        ln = name.lower()
        for c in self.columns:
            if c.name.lower() == ln:
                return c
        return None

    def colnames(self) -> List[str]:
        return [c.name for c in self.columns]

    def unique_keys(self) -> List[Tuple[str, List[str]]]:
        ks = []
        if self.pk:
            ks.append(('PRIMARY', list(self.pk)))
        for k, v in self.uniques.items():
            ks.append((k, list(v)))
        return ks

    def to_json(self):
        return {'name': self.name, 'columns': [c.to_json() for c in self.columns], 'pk': self.pk,
                'uniques': self.uniques, 'fks': self.fks}


_TOK = re.compile(r"""\s*(?:
    (?P<str>'(?:[^'\\]|\\.|'')*'|"(?:[^"\\]|\\.|"")*")
  | (?P<bq>`[^`]*`)
  | (?P<num>\d+(?:\.\d+)?)
  | (?P<id>[A-Za-z_][A-Za-z_0-9$]*)
  | (?P<op>[(),=.;*<>+\-/!])
)""", re.X)


def _tokens(s: str) -> List[Tuple[str, str]]:
    out = []
    i = 0
    s = s.strip()
    while i < len(s):
        m = _TOK.match(s, i)
        if not m:
            raise ExtractError(f'cannot tokenize DDL at {s[i:i + 40]!r}')
        k = m.lastgroup
        out.append((k, m.group(k)))
        i = m.end()
    return out


def _unq(tok: Tuple[str, str]) -> str:
    k, v = tok
    if k == 'bq':
        return v[1:-1]
    if k == 'str':
        q = v[0]
        return v[1:-1].replace(q + q, q).replace('\\' + q, q).replace('\\\\', '\\')
    return v


def _type_class(t: str) -> str:
    u = t.upper()
    b = re.match(r'[A-Z]+', u).group(0)
    if b in ('BOOLEAN', 'BOOL') or u.startswith('TINYINT(1)'):
        return 'boolean'
    if b == 'BIGINT':
        return 'bigint'
    if b in ('INT', 'INTEGER', 'TINYINT', 'SMALLINT', 'MEDIUMINT'):
        return 'int'
    if b in ('DOUBLE', 'FLOAT', 'REAL'):
        return 'double'
    if b in ('DECIMAL', 'NUMERIC'):
        return 'decimal'
    if b in ('VARCHAR', 'CHAR'):
        return 'varchar'
    if b in ('TEXT', 'MEDIUMTEXT', 'LONGTEXT', 'TINYTEXT'):
        return 'text'
    if b in ('BLOB', 'MEDIUMBLOB', 'LONGBLOB', 'TINYBLOB', 'VARBINARY', 'BINARY'):
        return 'blob'
    if b == 'JSON':
        return 'json'
    if b == 'ENUM':
        return 'enum'
    if b in ('DATE', 'DATETIME', 'TIMESTAMP'):
        return 'date'
    raise ExtractError(f'unknown column type {t!r}')


class _P:
    """cursor over DDL tokens"""

    def __init__(self, toks, where):
        self.t = toks
        self.i = 0
        self.where = where

    def peek(self, k=0):
        return self.t[self.i + k] if self.i + k < len(self.t) else ('eof', '')

    def kw(self, *words) -> bool:
        """consume the keyword sequence if present"""
        for j, w in enumerate(words):
            k, v = self.peek(j)
            if k != 'id' or v.upper() != w:
                return False
        self.i += len(words)
        return True

    def op(self, o) -> bool:
        if self.peek() == ('op', o):
            self.i += 1
            return True
        return False

    def expect_op(self, o):
        if not self.op(o):
            self.fail(f'expected {o!r}')

    def name(self) -> str:
        k, v = self.peek()
        if k not in ('id', 'bq'):
            self.fail('expected identifier')
        self.i += 1
        return _unq((k, v))

    def fail(self, msg):
        ctx = ' '.join(v for _, v in self.t[max(0, self.i - 4):self.i + 6])
        raise ExtractError(f'{self.where}: {msg} near {ctx!r}')

    def eof(self):
        return self.i >= len(self.t)

    def skip_parens(self) -> str:
        """consume a balanced (...) group, return its text"""
        self.expect_op('(')
        depth = 1
        parts = []
        while depth:
            k, v = self.peek()
            if k == 'eof':
                self.fail('unbalanced parens')
            self.i += 1
            if (k, v) == ('op', '('):
                depth += 1
            elif (k, v) == ('op', ')'):
                depth -= 1
                if depth == 0:
                    break
            parts.append(v)
        return ' '.join(parts)

    def col_list(self) -> List[str]:
        """(a, `b`(256), c DESC)"""
        self.expect_op('(')
        cols = []
        while True:
            cols.append(self.name())
            if self.peek() == ('op', '('):
                self.skip_parens()
            self.kw('ASC') or self.kw('DESC')
            if self.op(','):
                continue
            self.expect_op(')')
            return cols


def _parse_type(p: _P) -> Tuple[str, Optional[List[str]]]:
    k, v = p.peek()
    if k != 'id':
        p.fail('expected type')
    p.i += 1
    t = v.upper()
    enum = None
    if p.peek() == ('op', '('):
        if t == 'ENUM':
            p.expect_op('(')
            enum = []
            while True:
                enum.append(_unq(p.peek()))
                p.i += 1
                if p.op(','):
                    continue
                p.expect_op(')')
                break
            t = 'ENUM(' + ','.join(repr(e) for e in enum) + ')'
        else:
            t += '(' + p.skip_parens().replace(' ', '') + ')'
    while p.kw('UNSIGNED') or p.kw('SIGNED') or p.kw('ZEROFILL'):
        pass
    if p.kw('CHARACTER', 'SET') or p.kw('CHARSET'):
        p.name()
    return t, enum


def _parse_default(p: _P, tclass: str) -> Any:
    neg = False
    if p.op('-'):
        neg = True
    k, v = p.peek()
    if p.op('('):
        p.i -= 1
        return ('expr', p.skip_parens())
    p.i += 1
    if k == 'str':
        return _unq((k, v))
    if k == 'num':
        x = float(v) if ('.' in v or tclass == 'double') else int(v)
        return -x if neg else x
    if k == 'id':
        u = v.upper()
        if u == 'NULL':
            return None
        if u == 'TRUE':
            return 1
        if u == 'FALSE':
            return 0
        if u in ('CURRENT_TIMESTAMP', 'NOW'):
            if p.peek() == ('op', '('):
                p.skip_parens()
            return ('expr', 'CURRENT_TIMESTAMP')
    p.fail('unsupported DEFAULT')


def _parse_column_def(p: _P, name: str) -> Tuple[Column, bool, bool]:
    """after the column name. returns (column, is_primary, is_unique)"""
    t, enum = _parse_type(p)
    c = Column(name, t, _type_class(t), enum_values=enum)
    primary = unique = False
    while True:
        if p.kw('NOT', 'NULL'):
            c.not_null = True
        elif p.kw('NULL'):
            c.not_null = False
        elif p.kw('DEFAULT'):
            c.default = _parse_default(p, c.tclass)
            c.has_default = True
        elif p.kw('AUTO_INCREMENT'):
            c.auto_increment = True
        elif p.kw('PRIMARY', 'KEY'):
            primary = True
            c.not_null = True
        elif p.kw('UNIQUE', 'KEY') or p.kw('UNIQUE'):
            unique = True
        elif p.kw('KEY'):
            primary = True
        elif p.kw('COLLATE'):
            c.collation = p.name()
        elif p.kw('CHARACTER', 'SET') or p.kw('CHARSET'):
            p.name()
        elif p.kw('COMMENT'):
            p.i += 1
        elif p.kw('GENERATED', 'ALWAYS', 'AS') or p.kw('AS'):
            c.generated = p.skip_parens()
            p.kw('STORED') or p.kw('VIRTUAL')
        elif p.kw('STORED') or p.kw('VIRTUAL'):
            pass
        elif p.kw('REFERENCES'):
            p.name()
            p.col_list()
            _skip_fk_actions(p)
        elif p.kw('ON', 'UPDATE'):
            p.name()
            if p.peek() == ('op', '('):
                p.skip_parens()
        elif p.kw('FIRST'):
            pass
        elif p.kw('AFTER'):
            p.name()
        else:
            break
    return c, primary, unique


def _skip_fk_actions(p: _P) -> Dict[str, str]:
    acts = {}
    while p.kw('ON'):
        ev = p.name().upper()   # DELETE | UPDATE
        if p.kw('CASCADE'):
            acts[ev] = 'CASCADE'
        elif p.kw('RESTRICT'):
            acts[ev] = 'RESTRICT'
        elif p.kw('SET', 'NULL'):
            acts[ev] = 'SET NULL'
        elif p.kw('NO', 'ACTION'):
            acts[ev] = 'NO ACTION'
        else:
            p.fail('unsupported FK action')
    return acts


def _parse_fk(p: _P, t: Table, cname=None):
    """after FOREIGN KEY"""
    if p.peek()[0] in ('id', 'bq') and p.peek() != ('op', '('):
        p.name()
    cols = p.col_list()
    if not p.kw('REFERENCES'):
        p.fail('expected REFERENCES')
    ref = p.name()
    refcols = p.col_list()
    acts = _skip_fk_actions(p)
    # InnoDB names an unnamed foreign key <table>_ibfk_<n>
    n = getattr(t, '_fk_counter', 0) + 1
    t._fk_counter = n
    t.fks.append({'name': cname or f'{t.name}_ibfk_{n}', 'auto_name': cname is None, 'columns': cols, 'ref_table': ref,
                  'ref_columns': refcols, 'on': acts})


def _parse_table_constraint(p: _P, t: Table) -> bool:
    """PRIMARY KEY (...), UNIQUE [KEY|INDEX] [name] (...), KEY|INDEX [name] (...), [CONSTRAINT x] FOREIGN KEY ... ; True if consumed"""
    start = p.i
    cname = None
    if p.kw('CONSTRAINT'):
        if not (p.peek()[0] == 'id' and p.peek()[1].upper() in ('PRIMARY', 'UNIQUE', 'FOREIGN', 'CHECK')):
            cname = p.name()
    if p.kw('PRIMARY', 'KEY'):
        t.pk = p.col_list()
        for c in t.pk:
            col = t.col(c)
            if col:
                col.not_null = True
        return True
    if p.kw('UNIQUE'):
        p.kw('KEY') or p.kw('INDEX')
        name = cname
        if p.peek() != ('op', '('):
            name = p.name()
        cols = p.col_list()
        t.uniques[name or cols[0]] = cols
        return True
    if p.kw('FOREIGN', 'KEY'):
        _parse_fk(p, t, cname)
        return True
    if p.kw('FULLTEXT'):
        p.kw('KEY') or p.kw('INDEX')
        if p.peek() != ('op', '('):
            p.name()
        p.col_list()
        return True
    if p.kw('KEY') or p.kw('INDEX'):
        name = None
        if p.peek() != ('op', '('):
            name = p.name()
        cols = p.col_list()
        t.indexes[name or cols[0]] = cols
        return True
    if p.kw('CHECK'):
        p.skip_parens()
        return True
    p.i = start
    return False


def _skip_alter_hints(p: _P) -> bool:
    if p.kw('ALGORITHM') or p.kw('LOCK'):
        p.op('=')
        p.name()
        return True
    return False


class SchemaBuilder:
    def __init__(self):
        self.tables: Dict[str, Table] = {}
        self.notes: List[str] = []

    def _get(self, name, where) -> Table:
        t = self.tables.get(name)
        if t is None:
            raise ExtractError(f'{where}: table {name!r} does not exist')
        return t

    def apply(self, stmt: str, where: str):
        head = re.match(r'\s*(\w+)(?:\s+(\w+))?(?:\s+(\w+))?', stmt)
        if not head:
            return
        w1 = head.group(1).upper()
        w2 = (head.group(2) or '').upper()
        w3 = (head.group(3) or '').upper()
        if w1 == 'CREATE' and (w2 == 'TABLE' or (w2 == 'TEMPORARY' and w3 == 'TABLE')):
            self.create_table(stmt, where, temporary=(w2 == 'TEMPORARY'))
        elif w1 == 'ALTER' and w2 == 'TABLE':
            self.alter_table(stmt, where)
        elif w1 == 'RENAME' and w2 == 'TABLE':
            p = _P(_tokens(stmt), where)
            p.kw('RENAME', 'TABLE')
            while True:
                a = p.name()
                if not p.kw('TO'):
                    p.fail('expected TO')
                b = p.name()
                self.rename(a, b, where)
                if not p.op(','):
                    break
        elif w1 == 'DROP' and (w2 in ('TABLE', 'TABLES') or w2 == 'TEMPORARY'):
            p = _P(_tokens(stmt), where)
            p.kw('DROP')
            p.kw('TEMPORARY')
            p.kw('TABLE') or p.kw('TABLES')
            ife = p.kw('IF', 'EXISTS')
            while True:
                n = p.name()
                if n in self.tables:
                    del self.tables[n]
                elif not ife:
                    self.notes.append(f'{where}: DROP TABLE of unknown table {n}')
                if not p.op(','):
                    break
        elif w1 == 'CREATE' and (w2 == 'INDEX' or (w2 == 'UNIQUE' and w3 == 'INDEX')):
            p = _P(_tokens(stmt), where)
            p.kw('CREATE')
            uniq = p.kw('UNIQUE')
            p.kw('INDEX')
            name = p.name()
            if not p.kw('ON'):
                p.fail('expected ON')
            t = self._get(p.name(), where)
            cols = p.col_list()
            (t.uniques if uniq else t.indexes)[name] = cols
        elif w1 == 'DROP' and w2 == 'INDEX':
            p = _P(_tokens(stmt), where)
            p.kw('DROP', 'INDEX')
            name = p.name()
            p.kw('ON')
            t = self._get(p.name(), where)
            t.uniques.pop(name, None)
            t.indexes.pop(name, None)

    def rename(self, a, b, where):
        t = self._get(a, where)
        del self.tables[a]
        t.name = b
        self.tables[b] = t
        for fk in t.fks:      # InnoDB renames auto-generated constraint names with the table
            if fk.get('auto_name') and fk['name'].startswith(a + '_ibfk_'):
                fk['name'] = b + fk['name'][len(a):]
        for o in self.tables.values():
            for fk in o.fks:
                if fk['ref_table'] == a:
                    fk['ref_table'] = b

    def create_table(self, stmt: str, where: str, temporary=False):
        toks = _tokens(stmt)
        p = _P(toks, where)
        p.kw('CREATE')
        p.kw('TEMPORARY')
        p.kw('TABLE')
        ine = p.kw('IF', 'NOT', 'EXISTS')
        name = p.name()
        if p.kw('AS') or (p.peek() == ('op', '(') and p.peek(1)[0] == 'id' and p.peek(1)[1].upper() == 'SELECT') \
                or p.kw('SELECT'):
            # CREATE [TEMPORARY] TABLE x AS (SELECT ...): only used by data migrations on scratch tables
            self.tables[name] = Table(name, source=[where + ' (AS SELECT: columns unknown)'])
            return
        if p.kw('LIKE'):
            src = self._get(p.name(), where)
            import copy
            t = copy.deepcopy(src)
            t.name = name
            self.tables[name] = t
            return
        if name in self.tables and ine:
            return
        t = Table(name, source=[where])
        p.expect_op('(')
        while True:
            if not _parse_table_constraint(p, t):
                cname = p.name()
                c, primary, unique = _parse_column_def(p, cname)
                t.columns.append(c)
                if primary:
                    t.pk = [c.name]
                if unique:
                    t.uniques[c.name] = [c.name]
            if p.op(','):
                continue
            p.expect_op(')')
            break
        # table options: ENGINE = InnoDB, DEFAULT CHARSET=..., COLLATE=..., AUTO_INCREMENT=...
        while not p.eof():
            if p.op(';') or p.op(','):
                continue
            if p.kw('DEFAULT'):
                continue
            if p.kw('CHARACTER', 'SET') or p.kw('CHARSET') or p.kw('ENGINE') or p.kw('COLLATE') or p.kw('AUTO_INCREMENT') \
                    or p.kw('ROW_FORMAT') or p.kw('COMMENT'):
                p.op('=')
                p.i += 1
                continue
            p.fail('unsupported table option')
        if t.pk:
            for cn in t.pk:
                col = t.col(cn)
                if col is None:
                    raise ExtractError(f'{where}: PRIMARY KEY column {cn} not in table {name}')
                col.not_null = True
        self.tables[name] = t

    def alter_table(self, stmt: str, where: str):
        p = _P(_tokens(stmt), where)
        p.kw('ALTER', 'TABLE')
        t = self._get(p.name(), where)
        t.source.append(where)
        while True:
            if _skip_alter_hints(p):
                pass
            elif p.kw('ADD'):
                if _parse_table_constraint(p, t):
                    pass
                else:
                    p.kw('COLUMN')
                    if p.op('('):
                        while True:
                            self._add_col(p, t)
                            if not p.op(','):
                                break
                        p.expect_op(')')
                    else:
                        self._add_col(p, t)
            elif p.kw('DROP', 'PRIMARY', 'KEY'):
                t.pk = None
            elif p.kw('DROP', 'FOREIGN', 'KEY'):
                n = p.name()
                before = len(t.fks)
                t.fks = [fk for fk in t.fks if fk['name'] != n]
                if len(t.fks) == before:
                    self.notes.append(f'{where}: DROP FOREIGN KEY {n}: no such constraint recorded on {t.name}')
            elif p.kw('DROP', 'INDEX') or p.kw('DROP', 'KEY'):
                n = p.name()
                t.uniques.pop(n, None)
                t.indexes.pop(n, None)
            elif p.kw('DROP', 'CONSTRAINT'):
                p.name()
            elif p.kw('DROP'):
                p.kw('COLUMN')
                n = p.name()
                c = t.col(n)
                if c is None:
                    p.fail(f'DROP COLUMN of unknown column {n}')
                t.columns.remove(c)
                # a column cannot be dropped while a foreign key uses it: the constraint must have been dropped before
                # (058-rm-resource-foreign-keys.py does so by a name looked up at run time)
                t.fks = [fk for fk in t.fks if n not in fk['columns']]
                for k in list(t.uniques):
                    if n in t.uniques[k]:
                        t.uniques[k] = [x for x in t.uniques[k] if x != n]
                        if not t.uniques[k]:
                            del t.uniques[k]
            elif p.kw('MODIFY'):
                p.kw('COLUMN')
                n = p.name()
                old = t.col(n)
                if old is None:
                    p.fail(f'MODIFY of unknown column {n}')
                c, primary, unique = _parse_column_def(p, old.name)
                t.columns[t.columns.index(old)] = c
                if t.pk and old.name in t.pk:
                    c.not_null = True
            elif p.kw('CHANGE'):
                p.kw('COLUMN')
                n = p.name()
                old = t.col(n)
                if old is None:
                    p.fail(f'CHANGE of unknown column {n}')
                new = p.name()
                c, primary, unique = _parse_column_def(p, new)
                t.columns[t.columns.index(old)] = c
                self._rename_col_in_keys(t, old.name, new)
            elif p.kw('RENAME', 'COLUMN'):
                a = p.name()
                if not p.kw('TO'):
                    p.fail('expected TO')
                b = p.name()
                c = t.col(a)
                if c is None:
                    p.fail(f'RENAME COLUMN of unknown column {a}')
                c.name = b
                self._rename_col_in_keys(t, a, b)
            elif p.kw('RENAME', 'INDEX') or p.kw('RENAME', 'KEY'):
                a = p.name()
                p.kw('TO')
                b = p.name()
                for d in (t.uniques, t.indexes):
                    if a in d:
                        d[b] = d.pop(a)
            elif p.kw('RENAME'):
                p.kw('TO') or p.kw('AS')
                self.rename(t.name, p.name(), where)
            elif p.kw('AUTO_INCREMENT'):
                p.op('=')
                p.i += 1
            elif p.kw('CONVERT', 'TO'):
                while not p.eof() and p.peek() != ('op', ','):
                    p.i += 1
            else:
                p.fail('unsupported ALTER TABLE clause')
            if p.op(','):
                continue
            p.op(';')
            if not p.eof():
                p.fail('trailing tokens in ALTER TABLE')
            break

    @staticmethod
    def _rename_col_in_keys(t: Table, a: str, b: str):
        for fk in t.fks:
            fk['columns'] = [b if x == a else x for x in fk['columns']]
        if t.pk:
            t.pk = [b if x == a else x for x in t.pk]
        for d in (t.uniques, t.indexes):
            for k in d:
                d[k] = [b if x == a else x for x in d[k]]

    def _add_col(self, p: _P, t: Table):
        n = p.name()
        if t.col(n) is not None:
            p.fail(f'ADD COLUMN of existing column {n}')
        c, primary, unique = _parse_column_def(p, n)
        t.columns.append(c)
        if primary:
            t.pk = [c.name]
        if unique:
            t.uniques[c.name] = [c.name]


def extract_schema(repo: str, strict: bool = True) -> Dict[str, Table]:
    sb = SchemaBuilder()
    py_text = []
    for path in migration_files(repo, include_py=True):
        base = os.path.basename(path)
        if path.endswith('.py'):
            stmts, src = py_migration_ddl(path)
            py_text.append(src)
            for stmt, line in stmts:
                try:
                    sb.apply(stmt, f'{base}:{line}')
                    sb.notes.append(f'{base}:{line}: applied DDL literal of python migration: {stmt[:100]}')
                except ExtractError as e:
                    sb.notes.append(f'{base}:{line}: python-migration DDL not applied ({e})')
            continue
        with open(path, encoding='utf-8') as f:
            text = f.read()
        for stmt, line in split_script(text):
            try:
                sb.apply(stmt, f'{base}:{line}')
            except ExtractError:
                if strict:
                    raise
                sb.notes.append(f'{base}:{line}: skipped DDL')
    # fallback (DESIGN §2.4): columns that python migrations add with templated (f-string) DDL cannot be replayed;
    # take their definition from estimated-current.sql when (a) the replayed table lacks the column, (b)
    # estimated-current.sql has it and (c) some python migration mentions the column name.
    est = estimated_current_schema(repo)
    alltext = '\n'.join(py_text)
    for name, t in sb.tables.items():
        et = est.get(name)
        if et is None:
            continue
        for c in et.columns:
            if t.col(c.name) is None and re.search(r'\b' + re.escape(c.name) + r'\b', alltext):
                t.columns.append(c)
                sb.notes.append(f'fallback: {name}.{c.name} {c.type} taken from estimated-current.sql (added by a python migration)')
    # drop scratch tables created by data migrations with unknown columns
    for k in [k for k, t in sb.tables.items() if not t.columns]:
        del sb.tables[k]
    extract_schema.notes = sb.notes  # type: ignore[attr-defined]
    return sb.tables


def estimated_current_schema(repo: str) -> Dict[str, Table]:
    """Lenient parse of estimated-current.sql (known to be stale); used only as a cross-check."""
    sb = SchemaBuilder()
    path = os.path.join(repo, 'batch', 'sql', 'estimated-current.sql')
    with open(path, encoding='utf-8') as f:
        text = f.read()
    for stmt, line in split_script(text):
        try:
            sb.apply(stmt, f'estimated-current.sql:{line}')
        except ExtractError as e:
            sb.notes.append(str(e))
    estimated_current_schema.notes = sb.notes  # type: ignore[attr-defined]
    return sb.tables


def cross_check(repo: str) -> List[str]:
    """differences between the replayed schema and estimated-current.sql (informational)"""
    a = extract_schema(repo)
    b = estimated_current_schema(repo)
    out = []
    for name in sorted(set(a) | set(b)):
        if name not in b:
            out.append(f'table {name}: only in migrations')
            continue
        if name not in a:
            out.append(f'table {name}: only in estimated-current.sql')
            continue
        ca = {c.name for c in a[name].columns}
        cb = {c.name for c in b[name].columns}
        if ca != cb:
            out.append(f'table {name}: columns only in migrations {sorted(ca - cb)}, only in estimated-current {sorted(cb - ca)}')
        if (a[name].pk or []) != (b[name].pk or []):
            out.append(f'table {name}: pk migrations {a[name].pk} vs estimated-current {b[name].pk}')
    return out


def _repo_root() -> str:
    return os.environ.get('HAIL_VERIF_REPO', '/repo')


_cache: Dict[Any, Any] = {}


def load(repo: Optional[str] = None):
    """(schema: {table: Table}, routines: {name: Routine}) cached on the migration files' (name, mtime, size)"""
    repo = repo or _repo_root()
    sig = tuple((p, os.path.getmtime(p), os.path.getsize(p)) for p in migration_files(repo))
    hit = _cache.get(repo)
    if hit and hit[0] == sig:
        return hit[1], hit[2]
    schema = extract_schema(repo)
    rts = extract_routines(repo)
    _cache[repo] = (sig, schema, rts)
    return schema, rts


if __name__ == '__main__':
    import sys
    repo = sys.argv[1] if len(sys.argv) > 1 else _repo_root()
    schema, rts = load(repo)
    for n, r in sorted(rts.items()):
        print(f'{r.kind:9} {n:45} {r.source_file}' + (f'  {r.timing} {r.event} ON {r.table}' if r.table else ''))
    print()
    for n, t in sorted(schema.items()):
        print(f'{n}: pk={t.pk} uniques={t.uniques}')
        for c in t.columns:
            print(f'    {c.name:40} {c.type:20} {c.tclass:8} {"NOT NULL" if c.not_null else "":8} '
                  f'{"DEFAULT " + repr(c.default) if c.has_default else ""} {"AUTO_INCREMENT" if c.auto_increment else ""}'
                  f'{" GENERATED" if c.generated else ""}')
    print()
    for line in cross_check(repo):
        print('cross-check:', line)

"""A fake `aiomysql` pool / connection / cursor over a MiniDB, sufficient for the REAL gear.database
(Database, Transaction, @transaction, retry_transient_mysql_errors, ...) to run on top of it unmodified.

    db = await make_database(minidb)          # -> gear.database.Database whose pool is a FakePool

Fault injection (C27): `fakepool.faults` (module level) or `pool.faults` = callable(statement_index, sql) -> Optional[Exception]
or an iterator yielding Optional[Exception]; it is consulted before each statement executes. "Statements" are: '<acquire>'
(taking a connection), every cursor.execute / executemany batch, 'COMMIT' and 'ROLLBACK' issued through the connection.
An exception returned for 'COMMIT' and wrapped in `commit_applied(exc)` is raised AFTER the commit took effect (ambiguous commit).
`pool.log` records (index, session name, sql) of everything that reached the fake server.

Server-side effect of an injected error (assumptions, listed in the README):
  * 1213 deadlock: InnoDB rolls the whole transaction back before reporting the error;
  * 1205 lock wait timeout: only the statement is rolled back (innodb_rollback_on_timeout=OFF), the transaction stays open;
  * 2013 / 2006 / 2003 / 1040 (connection level): the server session is gone -> its transaction is rolled back; by default the fake
    connection object stays usable so that rollback() succeeds (see `lost_connection_breaks_connection`);
  * any other code: statement not executed, transaction stays open.
Releasing a connection whose transaction is still open rolls it back (aiomysql closes such connections).
"""
from __future__ import annotations

import re
from typing import Any, Callable, Iterable, List, Optional

from .engine import MiniDB, Session

faults: Any = None


def commit_applied(exc: Exception) -> Exception:
    """mark a connection-level error returned by a fault hook at 'COMMIT' as raised AFTER the server applied the commit"""
    exc.verif_commit_applied = True          # type: ignore[attr-defined]
    return exc

# If True, an injected 2013/2006 closes the fake connection as aiomysql does (Connection._read_bytes calls self.close()), and
# any later use (including rollback()) raises pymysql.err.InterfaceError(0, 'Not connected').  aiomysql is not installed in this
# sandbox, so that behaviour is reproduced from memory of its source and is OFF by default.
lost_connection_breaks_connection = False

CONNECTION_LEVEL_CODES = (2013, 2006, 2003, 1040, 2055)

# If True, every statement ('<acquire>', cursor.execute / executemany batch, BEGIN, COMMIT, ROLLBACK) is a network round trip: after the
# fault hook was consulted and BEFORE the fake server executes the statement, the calling task hands control back to the event loop once
# (`await asyncio.sleep(0)`), as a real aiomysql connection does while it waits for the server.  A cancellation requested by the hook
# (`task.cancel()`) is therefore delivered while that statement is in flight and the statement is not executed.  OFF by default
# (C27 switches it on for its cancellation cases).
statements_are_round_trips = False


async def _round_trip():
    if statements_are_round_trips:
        import asyncio
        await asyncio.sleep(0)

_RE_INSERT_VALUES = re.compile(
    r"\s*((?:INSERT|REPLACE)\b.+\bVALUES?\s*)" + r"(\(\s*(?:%s|%\(.+\)s)\s*(?:,\s*(?:%s|%\(.+\)s)\s*)*\))" + r"(\s*(?:ON DUPLICATE.*)?);?\s*\Z",
    re.IGNORECASE | re.DOTALL)


def _shim_aiomysql():
    try:
        import aiomysql
    except ImportError:
        import os
        import sys
        shims = os.path.join(os.path.dirname(os.path.dirname(os.path.abspath(__file__))), 'shims')
        if shims not in sys.path:
            sys.path.append(shims)
        import aiomysql
    return aiomysql


_aiomysql = _shim_aiomysql()


def _interface_error():
    import pymysql.err
    return pymysql.err.InterfaceError(0, 'Not connected')


class FakeCursor:
    def __init__(self, conn: 'FakeConnection'):
        self._conn = conn
        self._rows: List[dict] = []
        self._pos = 0
        self.rowcount = -1
        self.lastrowid = 0
        self.description = None
        self.closed = False
        self.arraysize = 1

    async def execute(self, query: str, args=None):
        conn = self._conn
        conn._check_usable()
        conn._fault(query)
        await _round_trip()
        res, rc, last = conn._pool.minidb.execute_raw(query, args, conn._session)
        self._set(res, rc, last)
        return self.rowcount

    def _set(self, res, rc, last):
        if res is not None:
            self._rows = res.dict_rows()
            self.description = tuple((name, None, None, None, None, None, None) for name, _ in res.columns)
        else:
            self._rows = []
            self.description = None
        self._pos = 0
        self.rowcount = rc
        self.lastrowid = last

    async def executemany(self, query: str, args):
        if not args:
            return None
        conn = self._conn
        m = _RE_INSERT_VALUES.match(query)
        if m:
            # aiomysql / pymysql send one multi-row INSERT
            conn._check_usable()
            conn._fault(query)
            await _round_trip()
            res, rc, last = conn._pool.minidb.execute_raw(query, None, conn._session, param_sets=list(args))
            self._set(res, rc, last)
            return self.rowcount
        total = 0
        for a in args:
            await self.execute(query, a)
            total += self.rowcount
        self.rowcount = total
        return total

    async def fetchone(self):
        if self._pos >= len(self._rows):
            return None
        r = self._rows[self._pos]
        self._pos += 1
        return r

    async def fetchmany(self, size=None):
        n = size or self.arraysize
        out = self._rows[self._pos:self._pos + n]
        self._pos += len(out)
        return out

    async def fetchall(self):
        out = self._rows[self._pos:]
        self._pos = len(self._rows)
        return out

    def __aiter__(self):
        return self

    async def __anext__(self):
        r = await self.fetchone()
        if r is None:
            raise StopAsyncIteration
        return r

    async def close(self):
        self.closed = True

    async def __aenter__(self):
        return self

    async def __aexit__(self, *a):
        await self.close()
        return False


class _CursorCtx:
    def __init__(self, cur):
        self._cur = cur

    def __await__(self):
        async def _get():
            return self._cur
        return _get().__await__()

    async def __aenter__(self):
        return self._cur

    async def __aexit__(self, *a):
        await self._cur.close()
        return False


class FakeConnection(_aiomysql.Connection):
    def __init__(self, pool: 'FakePool', n: int):
        self._pool = pool
        self._session: Session = pool.minidb.session(autocommit=pool.autocommit, name=f'conn{n}')
        self._broken = False
        self.closed = False

    # -- internals ---------------------------------------------------------------------------------
    def _check_usable(self):
        if self._broken or self.closed:
            raise _interface_error()

    def _fault(self, sql: str):
        pool = self._pool
        exc = pool._next_fault(sql, self._session.name)
        if exc is None:
            return
        code = exc.args[0] if exc.args else None
        sess = self._session
        if code == 1213:
            sess.rollback()
        elif code in CONNECTION_LEVEL_CODES:
            sess.rollback()
            if lost_connection_breaks_connection:
                self._broken = True
        raise exc

    # -- aiomysql API ------------------------------------------------------------------------------
    def cursor(self, *cursors):
        return _CursorCtx(FakeCursor(self))

    async def begin(self):
        self._check_usable()
        self._fault('BEGIN')
        await _round_trip()
        self._session.begin()

    async def commit(self):
        self._check_usable()
        pool = self._pool
        exc = pool._next_fault('COMMIT', self._session.name)
        if exc is not None and getattr(exc, 'verif_commit_applied', False):
            # AMBIGUOUS COMMIT: the server commits, the acknowledgement is lost (2013 / 2006 on the client side)
            self._session.commit()
            if lost_connection_breaks_connection:
                self._broken = True
            raise exc
        if exc is not None:
            code = exc.args[0] if exc.args else None
            if code == 1213 or code in CONNECTION_LEVEL_CODES:
                self._session.rollback()
                if code in CONNECTION_LEVEL_CODES and lost_connection_breaks_connection:
                    self._broken = True
            raise exc
        await _round_trip()
        self._session.commit()

    async def rollback(self):
        self._check_usable()
        self._fault('ROLLBACK')
        await _round_trip()
        self._session.rollback()

    async def autocommit(self, value: bool):
        self._check_usable()
        if value and self._session.in_transaction():
            self._session.commit()
        self._session.autocommit = bool(value)

    def get_autocommit(self):
        return self._session.autocommit

    def get_transaction_status(self):
        return bool(self._session.undo) or self._session.explicit_tx

    def close(self):
        if not self.closed:
            self._session.rollback()
            self.closed = True

    async def ensure_closed(self):
        self.close()

    async def ping(self, reconnect=True):
        self._check_usable()


class _AcquireCtx(_aiomysql.utils._PoolAcquireContextManager):
    def __init__(self, pool: 'FakePool'):
        self._pool = pool
        self._conn: Optional[FakeConnection] = None

    def __await__(self):
        return self._pool._acquire().__await__()

    async def __aenter__(self):
        self._conn = await self._pool._acquire()
        return self._conn

    async def __aexit__(self, *a):
        try:
            if self._conn is not None:
                self._pool.release(self._conn)
        finally:
            self._conn = None
        return False


class FakePool(_aiomysql.Pool):
    def __init__(self, minidb: MiniDB, autocommit: bool = False):
        self.minidb = minidb
        self.autocommit = autocommit
        self.faults: Any = None
        self.stmt_index = 0
        self.log: List[tuple] = []
        self.keep_log = True
        self._n = 0
        self._open: List[FakeConnection] = []
        self._closed = False

    def _next_fault(self, sql: str, who: str) -> Optional[Exception]:
        i = self.stmt_index
        self.stmt_index += 1
        if self.keep_log:
            self.log.append((i, who, sql.strip()[:200]))
        f = self.faults if self.faults is not None else faults
        if f is None:
            return None
        if callable(f):
            return f(i, sql)
        try:
            return next(f)
        except StopIteration:
            return None

    async def _acquire(self) -> FakeConnection:
        if self._closed:
            raise RuntimeError('Cannot acquire connection after closing pool')
        exc = self._next_fault('<acquire>', 'pool')
        if exc is not None:
            raise exc
        await _round_trip()
        self._n += 1
        c = FakeConnection(self, self._n)
        self._open.append(c)
        return c

    def acquire(self):
        return _AcquireCtx(self)

    def release(self, conn: FakeConnection):
        if conn in self._open:
            self._open.remove(conn)
        # aiomysql closes a connection that is released inside a transaction -> the server rolls it back
        conn.close()

    def close(self):
        self._closed = True

    def terminate(self):
        self._closed = True
        for c in list(self._open):
            c.close()
        self._open.clear()

    async def wait_closed(self):
        for c in list(self._open):
            c.close()
        self._open.clear()

    async def clear(self):
        pass

    @property
    def size(self):
        return len(self._open)

    @property
    def freesize(self):
        return 0

    async def __aenter__(self):
        return self

    async def __aexit__(self, *a):
        self.close()
        await self.wait_closed()
        return False


async def make_database(minidb: MiniDB, autocommit: bool = False):
    """the REAL gear.database.Database with its aiomysql pool replaced by a FakePool over `minidb`
    (what Database.async_init does, minus create_database_pool)."""
    from harness import loader
    loader.install()
    from gear.database import Database
    from hailtop.aiotools import BackgroundTaskManager

    db = Database()
    db.pool = FakePool(minidb, autocommit=autocommit)
    db.connection_release_task_manager = BackgroundTaskManager()
    return db

"""minisql: interpreter for the MySQL subset used by the hail batch service (see README.md in this directory)."""
from .sqlparse import MiniSQLError, ParseError, Unsupported
from .exprs import SchemaError
from .values import SQLError
from .engine import MiniDB, Session, SEMANTICS, from_repo
from . import extract

__all__ = ['MiniDB', 'Session', 'SEMANTICS', 'from_repo', 'extract', 'MiniSQLError', 'ParseError', 'Unsupported', 'SchemaError',
           'SQLError']

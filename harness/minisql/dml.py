"""INSERT / UPDATE / DELETE of minisql (mixin of engine.MiniDB), with row triggers."""
from __future__ import annotations

import datetime
from typing import Any, Dict, List, Optional

from . import sqlparse as A
from .exprs import AMBIG, SchemaError, Scope, compile_expr, has_aggregate, names_in
from .sqlparse import Unsupported
from .storage import Table, undo_to
from .values import SQLError, coerce, sort_key, truth


def _has_uvar_assign(node) -> bool:
    if isinstance(node, A.UserVarAssign):
        return True
    if isinstance(node, A.Node):
        for cls in type(node).__mro__:
            for s in getattr(cls, '__slots__', ()):
                if not s.startswith('_') and _has_uvar_assign(getattr(node, s, None)):
                    return True
    elif isinstance(node, (list, tuple)):
        return any(_has_uvar_assign(v) for v in node)
    return False


class DMLMixin:
    # -- helpers -----------------------------------------------------------------------------------
    def _default_for(self, t: Table, col: str):
        cd = t.coldefs[col]
        if cd.has_default:
            d = cd.default
            if isinstance(d, tuple):
                if d[1] == 'CURRENT_TIMESTAMP':
                    return datetime.datetime.fromtimestamp(self.clock(), datetime.timezone.utc).replace(tzinfo=None, microsecond=0)
                raise Unsupported('expression DEFAULT', f'{t.name}.{col} DEFAULT ({d[1]})')
            return d
        if cd.auto_increment:
            return None
        if cd.generated is not None:
            raise Unsupported('generated column', f'{t.name}.{col}')
        if not cd.not_null:
            return None
        raise SQLError(1364, f"Field '{col}' doesn't have a default value")

    def _coerce_row(self, t: Table, row: dict, cols=None, check_null=True):
        types = t.types
        for c in (cols if cols is not None else t.cols):
            v = row[c]
            if v is None:
                if check_null and t.coldefs[c].not_null and c != t.auto_col:
                    raise SQLError(1048, f"Column '{c}' cannot be null", '23000')
                continue
            row[c] = coerce(v, types[c], c)

    def _dup_error(self, t: Table, kname: str, row: dict):
        cols = dict(t.uniques)[kname]
        val = '-'.join(str(row[c]) for c in cols)
        return SQLError(1062, f"Duplicate entry '{val}' for key '{t.name}.{kname}'", '23000')

    def _fk_check(self, t: Table, row: dict, changed=None):
        """InnoDB checks the parent row when the child row is written"""
        fks = self.fk_parents.get(t.name)
        if not fks or not self.enforce_foreign_keys:
            return
        for name, ccols, ptable, pcols in fks:
            if changed is not None and not any(c in changed for c in ccols):
                continue
            if any(c not in t.types for c in ccols):
                continue
            vals = [row[c] for c in ccols]
            if any(v is None for v in vals):
                continue
            pt = self._tables.get(ptable)
            if pt is None or any(c not in pt.types for c in pcols):
                continue      # constraint on a table / column that no longer exists (dropped by a python migration)
            order = sorted(range(len(pcols)), key=lambda i: pcols[i])
            cols = tuple(pcols[i] for i in order)
            probe = {pcols[i]: vals[i] for i in order}
            try:
                for c in cols:
                    probe[c] = coerce(probe[c], pt.types[c], c)
            except SQLError:
                probe = None
            if probe is None or not pt.index(cols).get(pt.key_of(probe, cols)):
                raise SQLError(1452, f'Cannot add or update a child row: a foreign key constraint fails (`{t.name}`, CONSTRAINT `{name}` '
                               f'FOREIGN KEY ({", ".join(ccols)}) REFERENCES `{ptable}` ({", ".join(pcols)}))', '23000')

    def _write_guard(self, t: Table, sess):
        d = t.dirty_by
        if d is not None and d is not sess and self.strict_isolation:
            raise Unsupported('two sessions with uncommitted writes to the same table (row locking is not modelled)', t.name)
        if sess.read_only:
            raise SQLError(1792, 'Cannot execute statement in a READ ONLY transaction.', '25006')
        if sess.in_transaction():
            t.dirty_by = sess
            sess.dirty.add(t)

    def _read_guard(self, t: Table, sess):
        d = t.dirty_by
        if d is not None and d is not sess and self.strict_isolation:
            raise Unsupported('read of a table with uncommitted writes of another session (isolation is not modelled)', t.name)

    # -- INSERT ------------------------------------------------------------------------------------
    def exec_insert(self, ins, X, param_sets=None) -> int:
        """returns affected rows (1 per inserted row, 2 per row changed by ODKU, 0 per unchanged/ignored row)"""
        sess = X.sess
        t = self.table(ins.table)
        self._write_guard(t, sess)
        cols = ins.cols if ins.cols is not None else list(t.cols)
        for c in cols:
            if c not in t.types:
                raise SchemaError(f"Unknown column '{c}' in INSERT INTO {t.name} (1054)")
        if len(set(cols)) != len(cols):
            raise SQLError(1110, 'Column specified twice', '42000')
        state = {'affected': 0, 'first_id': None}
        odku = None
        if ins.odku:
            odku = []
            for c, e in ins.odku:
                if c not in t.types:
                    raise SchemaError(f"Unknown column '{c}' in ON DUPLICATE KEY UPDATE of {t.name} (1054)")
                odku.append((c, compile_expr(e)))
        mark = len(sess.undo)
        saved_scope = X.scope
        try:
            if ins.rows is not None:
                fsets = [[(compile_expr(e) if e is not None else None) for e in row] for row in ins.rows]
                for fs in fsets:
                    if len(fs) != len(cols):
                        raise SQLError(1136, "Column count doesn't match value count at row 1", '21S01')
                saved_params = X.params
                try:
                    for ps in (param_sets if param_sets is not None else [X.params]):
                        X.params = ps
                        for fs in fsets:
                            X.scope = saved_scope
                            vals = [(f(X) if f is not None else _DEFAULT) for f in fs]
                            self._insert_one(t, cols, vals, X, ins, odku, None, state)
                finally:
                    X.params = saved_params
            else:
                sel = ins.select
                buffered = self._select_reads_table(sel, t.name, X)
                core = sel
                while isinstance(core, A.With):
                    core = core.body
                plain = isinstance(core, A.Select)
                uv = getattr(ins, '_plan', None)
                if uv is None:
                    uv = ins._plan = _has_uvar_assign(sel)
                if uv and (buffered or not plain or core.order_by or core.distinct or core.limit is not None):
                    raise Unsupported('INSERT ... SELECT assigning user variables in a select that MySQL buffers or sorts (target table '
                                      'read directly, UNION, ORDER BY, DISTINCT or LIMIT): per-row @var semantics differ', ins.text or '')
                # columns of the SELECT's tables are visible to ON DUPLICATE KEY UPDATE only for a plain, ungrouped SELECT
                src_visible = plain and not core.group_by and not core.distinct and not any(
                    has_aggregate(e) for e, _, _ in core.items)
                ncols = len(cols)

                def sink(vals, rm):
                    if len(vals) != ncols:
                        raise SQLError(1136, "Column count doesn't match value count at row 1", '21S01')
                    src_scope = X.scope if (rm is not None and src_visible) else None
                    saved_rows = None
                    if src_scope is not None:
                        saved_rows = src_scope.rows
                        src_scope.rows = rm
                    sc0 = X.scope
                    try:
                        self._insert_one(t, cols, list(vals), X, ins, odku, src_scope, state)
                    finally:
                        X.scope = sc0
                        if src_scope is not None:
                            src_scope.rows = saved_rows
                if buffered:
                    res_rows: List[Any] = []
                    self.run_query(sel, X, sink=lambda v, rm: res_rows.append((v, None)))
                    for v, rm in res_rows:
                        sink(v, rm)
                else:
                    self.run_query(sel, X, sink=sink)
        except BaseException:
            undo_to(sess.undo, mark)
            raise
        finally:
            X.scope = saved_scope
        sess.row_count = state['affected']
        if state['first_id'] is not None:
            sess.last_insert_id = state['first_id']
            sess.stmt_insert_id = state['first_id']
        return state['affected']

    def _select_reads_table(self, q, name: str, X) -> bool:
        """does the query read base table `name` directly in a FROM clause that is not inside a derived table?"""
        if isinstance(q, A.With):
            return self._select_reads_table(q.body, name, X)
        if isinstance(q, A.Union):
            return any(self._select_reads_table(p, name, X) for p in q.parts)

        def walk(node):
            if isinstance(node, A.Join):
                return walk(node.left) or walk(node.right)
            if isinstance(node, A.TableRef):
                return node.name == name and self._find_cte(node.name, X) is None
            return False
        return walk(q.from_) if q.from_ is not None else False

    def _insert_one(self, t: Table, cols, vals, X, ins, odku, src_scope, state):
        sess = X.sess
        new: Dict[str, Any] = {}
        given = dict(zip(cols, vals))
        for c in t.cols:
            if c in given and given[c] is not _DEFAULT:
                new[c] = given[c]
            else:
                new[c] = self._default_for(t, c)
        # explicit NULL into NOT NULL is an error even if a BEFORE trigger would repair it? MySQL >= 5.7.5 checks after the
        # trigger; so do we.
        self._coerce_row(t, new, check_null=False)
        self.fire_triggers(t, 'BEFORE', 'INSERT', None, new, X)
        self._coerce_row(t, new, check_null=True)
        ac = t.auto_col
        generated = None
        if ac is not None:
            v = new[ac]
            if v is None or v == 0:
                generated = t.auto_inc
                new[ac] = generated
            elif v >= t.auto_inc:
                t.auto_inc = v + 1
        dup = t.find_duplicate(new)
        if dup is not None:
            kname, existing = dup
            if odku is not None:
                self._odku_update(t, existing, new, odku, X, src_scope, state, ins)
                return
            if ins.ignore:
                return
            raise self._dup_error(t, kname, new)
        if generated is not None:
            t.auto_inc = generated + 1
            if state['first_id'] is None:
                state['first_id'] = generated
        self._fk_check(t, new)
        t.insert(new, sess.undo)
        state['affected'] += 1
        self.fire_triggers(t, 'AFTER', 'INSERT', None, new, X)

    def _odku_update(self, t: Table, existing: dict, proposed: dict, odku, X, src_scope, state, ins):
        sess = X.sess
        work = dict(existing)
        sc = Scope(src_scope)
        sc.add_source(t.name, t.cols, t)
        sc.rows = {t.name: work}
        if src_scope is not None:
            names: List[Any] = []
            names_in([e for _, e in ins.odku], names)
            for nm in names:
                if len(nm.parts) == 1:
                    n1 = nm.parts[0]
                    if X.frame is not None and X.frame.lookup(n1) is not None:
                        continue
                    if n1 in sc.colmap and n1 in src_scope.colmap:
                        raise SQLError(1052, f"Column '{n1}' in field list is ambiguous", '23000')
        saved_scope, saved_vals = X.scope, X.values_row
        X.scope = sc
        X.values_row = proposed
        try:
            for c, f in odku:
                work[c] = coerce(f(X), t.types[c], c)
        finally:
            X.scope = saved_scope
            X.values_row = saved_vals
        old = dict(existing)
        self.fire_triggers(t, 'BEFORE', 'UPDATE', old, work, X)
        self._coerce_row(t, work)
        delta = {c: work[c] for c in t.cols if _differs(work[c], existing[c])}
        if not delta:
            return
        if any(c in delta for _, kc in t.uniques for c in kc):
            d2 = t.find_duplicate(work, exclude=existing)
            if d2 is not None:
                raise self._dup_error(t, d2[0], work)
        self._fk_check(t, work, delta)
        t.update(existing, delta, sess.undo)
        state['affected'] += 2
        self.fire_triggers(t, 'AFTER', 'UPDATE', old, existing, X)

    # -- UPDATE ------------------------------------------------------------------------------------
    def exec_update(self, u, X) -> int:
        sess = X.sess
        parent = X.scope
        sc = Scope(parent)
        mark = len(sess.undo)
        try:
            srcs = self.build_sources(u.from_, X, sc)
            X.scope = sc
            # resolve SET targets to aliases
            targets: Dict[str, List[Any]] = {}
            order: List[str] = []
            for tbl, col, e in u.sets:
                if tbl is None:
                    a = sc.colmap.get(col)
                    if a is None:
                        raise SchemaError(f"Unknown column '{col}' in UPDATE SET (1054)")
                    if a is AMBIG:
                        raise SQLError(1052, f"Column '{col}' in field list is ambiguous", '23000')
                    tbl = a
                elif tbl not in sc.cols:
                    raise SchemaError(f"Unknown table '{tbl}' in UPDATE SET")
                if col not in sc.cols[tbl]:
                    raise SchemaError(f"Unknown column '{tbl}.{col}' in UPDATE SET (1054)")
                if tbl not in sc.tables:
                    raise SQLError(1288, f"The target table {tbl} of the UPDATE is not updatable")
                if tbl not in targets:
                    targets[tbl] = []
                    order.append(tbl)
                targets[tbl].append((col, compile_expr(e)))
            order.sort(key=lambda a: [s.alias for s in srcs].index(a))
            for a in order:
                self._write_guard(sc.tables[a], sess)
            if getattr(u, '_plan', None) is None:
                self.check_names([u.where, [e for _, _, e in u.sets], [s.on_node for s in srcs if s.on_node is not None]], X, sc)
                u._plan = True
            rowmaps = list(self.join_rows(srcs, u.where, X, sc))
            if u.order_by or u.limit is not None:
                if len(srcs) != 1:
                    raise SQLError(1221, 'Incorrect usage of UPDATE and ORDER BY / LIMIT')
                if u.order_by:
                    of = [(compile_expr(e), d) for e, d in u.order_by]
                    keys = []
                    for rm in rowmaps:
                        sc.rows = rm
                        keys.append([f(X) for f, _ in of])
                    idxs = list(range(len(rowmaps)))
                    for j in reversed(range(len(of))):
                        idxs.sort(key=lambda i: sort_key(keys[i][j]), reverse=of[j][1])
                    rowmaps = [rowmaps[i] for i in idxs]
                rowmaps = self._limit(rowmaps, u.limit, None, X)
            done = set()
            changed = 0
            for rm in rowmaps:
                pending = []
                for a in order:
                    row = rm.get(a)
                    if row is None:
                        continue
                    t = sc.tables[a]
                    key = (a, id(row))
                    if key in done or id(row) not in t.rows:
                        continue
                    done.add(key)
                    work = dict(row)
                    rm2 = dict(rm)
                    rm2[a] = work
                    sc.rows = rm2
                    for col, f in targets[a]:
                        v = f(X)
                        if v is None and t.coldefs[col].not_null:
                            raise SQLError(1048, f"Column '{col}' cannot be null", '23000')
                        work[col] = coerce(v, t.types[col], col)
                    pending.append((t, row, work))
                for t, row, work in pending:
                    old = dict(row)
                    self.fire_triggers(t, 'BEFORE', 'UPDATE', old, work, X)
                    self._coerce_row(t, work)
                    delta = {c: work[c] for c in t.cols if _differs(work[c], row[c])}
                    if delta:
                        if any(c in delta for _, kc in t.uniques for c in kc):
                            d2 = t.find_duplicate(work, exclude=row)
                            if d2 is not None:
                                raise self._dup_error(t, d2[0], work)
                        self._fk_check(t, work, delta)
                        t.update(row, delta, sess.undo)
                        changed += 1
                    # MySQL fires the AFTER UPDATE trigger for every matched row, changed or not
                    self.fire_triggers(t, 'AFTER', 'UPDATE', old, row, X)
        except BaseException:
            undo_to(sess.undo, mark)
            raise
        finally:
            X.scope = parent
        sess.row_count = changed
        return changed

    # -- DELETE ------------------------------------------------------------------------------------
    def exec_delete(self, d, X) -> int:
        sess = X.sess
        parent = X.scope
        sc = Scope(parent)
        mark = len(sess.undo)
        try:
            srcs = self.build_sources(d.from_, X, sc)
            X.scope = sc
            if d.targets is None:
                if len(srcs) != 1 or srcs[0].kind != 'table':
                    raise Unsupported('DELETE FROM with a join but no target list', d.text or '')
                aliases = [srcs[0].alias]
            else:
                aliases = []
                for tname in d.targets:
                    s = next((s for s in srcs if s.alias == tname or (s.table is not None and s.table.name == tname)), None)
                    if s is None or s.kind != 'table':
                        raise SQLError(1109, f"Unknown table '{tname}' in MULTI DELETE", '42S02')
                    aliases.append(s.alias)
            for a in aliases:
                self._write_guard(sc.tables[a], sess)
            if getattr(d, '_plan', None) is None:
                self.check_names([d.where, [s.on_node for s in srcs if s.on_node is not None]], X, sc)
                d._plan = True
            rowmaps = list(self.join_rows(srcs, d.where, X, sc))
            if d.order_by or d.limit is not None:
                if len(srcs) != 1:
                    raise SQLError(1221, 'Incorrect usage of DELETE and ORDER BY / LIMIT')
                if d.order_by:
                    of = [(compile_expr(e), dd) for e, dd in d.order_by]
                    keys = []
                    for rm in rowmaps:
                        sc.rows = rm
                        keys.append([f(X) for f, _ in of])
                    idxs = list(range(len(rowmaps)))
                    for j in reversed(range(len(of))):
                        idxs.sort(key=lambda i: sort_key(keys[i][j]), reverse=of[j][1])
                    rowmaps = [rowmaps[i] for i in idxs]
                rowmaps = self._limit(rowmaps, d.limit, None, X)
            n = 0
            for rm in rowmaps:
                for a in aliases:
                    row = rm.get(a)
                    t = sc.tables[a]
                    if row is None or id(row) not in t.rows:
                        continue
                    self.fire_triggers(t, 'BEFORE', 'DELETE', row, None, X)
                    self._fk_guard(t, row)
                    t.delete(row, sess.undo)
                    n += 1
                    self.fire_triggers(t, 'AFTER', 'DELETE', row, None, X)
        except BaseException:
            undo_to(sess.undo, mark)
            raise
        finally:
            X.scope = parent
        sess.row_count = n
        return n

    def _fk_guard(self, t: Table, row: dict):
        """foreign keys are not enforced; deleting a parent row that still has children would need ON DELETE semantics"""
        for child, ccols, pcols in self.fk_children.get(t.name, ()):
            ct = self._tables.get(child)
            if ct is None:
                continue
            vals = [row.get(c) for c in pcols]
            if any(v is None for v in vals):
                continue
            probe = dict(zip(ccols, vals))
            try:
                k = tuple(sorted(ccols))
                lst = ct.index(k).get(ct.key_of(probe, k))
            except KeyError:
                continue
            if lst:
                raise Unsupported('DELETE of a row referenced through a FOREIGN KEY (ON DELETE actions are not modelled)',
                                  f'{t.name} <- {child}({",".join(ccols)})')


def _differs(a, b) -> bool:
    if a is None or b is None:
        return a is not b
    return a != b or (isinstance(a, str) != isinstance(b, str))


class _Default:
    def __repr__(self):
        return 'DEFAULT'


_DEFAULT = _Default()

"""Stored programs of minisql (mixin of engine.MiniDB): procedures, functions, triggers, handlers, cursors."""
from __future__ import annotations

from typing import Any, Dict, List, Optional

from . import sqlparse as A
from .exprs import SchemaError, compile_expr
from .sqlparse import Unsupported
from .values import SQLError, TypeInfo, coerce, compare, truth


class NotFound(SQLError):
    """condition 1329 / SQLSTATE 02000 (no data)"""

    def __init__(self, fatal: bool):
        super().__init__(1329, 'No data - zero rows fetched, selected, or processed', '02000')
        self.fatal = fatal     # FETCH: an error when unhandled; SELECT ... INTO: only a warning


class _Leave(Exception):
    def __init__(self, label):
        self.label = label


class _Iterate(Exception):
    def __init__(self, label):
        self.label = label


class _Return(Exception):
    def __init__(self, value):
        self.value = value


class _ExitBlock(Exception):
    def __init__(self, block):
        self.block = block


class _Cursor:
    __slots__ = ('q', 'rows', 'pos')

    def __init__(self, q):
        self.q = q
        self.rows = None
        self.pos = 0


class Frame:
    """one invocation of a stored program"""

    def __init__(self, name: str, kind: str):
        self.name = name
        self.kind = kind
        self.blocks: List[Dict[str, list]] = [{}]      # name -> [value, TypeInfo]
        self.cursors: List[Dict[str, _Cursor]] = [{}]
        self.handlers: List[tuple] = []                # (block, DeclareHandler)
        self.new: Optional[dict] = None
        self.old: Optional[dict] = None
        self.new_types = None
        self.new_writable = False
        self.condition: Optional[SQLError] = None

    def lookup(self, name: str):
        for d in reversed(self.blocks):
            c = d.get(name)
            if c is not None:
                return c
        return None

    def pseudo(self, which: str):
        return self.new if which == 'new' else self.old

    def cursor(self, name: str) -> _Cursor:
        for d in reversed(self.cursors):
            c = d.get(name)
            if c is not None:
                return c
        raise SQLError(1324, f'Undefined CURSOR: {name}', '42000')


_type_cache: Dict[str, TypeInfo] = {}


def _ti(raw: str) -> TypeInfo:
    t = _type_cache.get(raw)
    if t is None:
        t = _type_cache[raw] = TypeInfo(raw)
    return t


def _handler_matches(conds, e: SQLError) -> bool:
    cls = e.sqlstate[:2]
    for c in conds:
        if c == 'NOT FOUND':
            if cls == '02':
                return True
        elif c == 'SQLEXCEPTION':
            if cls not in ('00', '01', '02'):
                return True
        elif c == 'SQLWARNING':
            if cls == '01':
                return True
        elif c.startswith('SQLSTATE:'):
            if e.sqlstate == c[9:]:
                return True
        elif c.startswith('ERRNO:'):
            if e.errno == int(c[6:]):
                return True
    return False


class ProgramMixin:
    # -- registration --------------------------------------------------------------------------------
    def add_routine(self, sql: str, source_file: str = ''):
        st = self._parse(sql, False)
        if len(st) != 1 or not isinstance(st[0], A.CreateRoutine):
            raise Unsupported('routine definition must be a single CREATE PROCEDURE/FUNCTION/TRIGGER', sql)
        r = st[0]
        if r.kind == 'TRIGGER':
            self.table(r.table)
            lst = self.triggers.setdefault((r.table, r.timing, r.event), [])
            lst[:] = [x for x in lst if x.name != r.name]
            lst.append(r)
        self.routines[r.name] = r
        self.routine_sources[r.name] = source_file
        return r

    # -- invocation ----------------------------------------------------------------------------------
    def fire_triggers(self, t, timing: str, event: str, old: Optional[dict], new: Optional[dict], X):
        trs = self.triggers.get((t.name, timing, event))
        if not trs:
            return
        for tr in trs:
            fr = Frame(tr.name, 'TRIGGER')
            fr.old = old
            fr.new = new
            fr.new_types = t.types
            fr.new_writable = timing == 'BEFORE' and event in ('INSERT', 'UPDATE')
            X2 = self.make_ctx(X.sess, fr)
            self._depth(X2, X)
            self.exec_pstmt(tr.body, X2)

    def _depth(self, X2, X):
        X2.depth = X.depth + 1
        if X2.depth > 64:
            raise SQLError(1456, 'Recursive limit exceeded for stored routines')

    def call_function(self, name: str, args: List[Any], X):
        r = self.routines.get(name)
        if r is None or r.kind != 'FUNCTION':
            raise Unsupported(f'function {name.upper()}()', '')
        if len(args) != len(r.params):
            raise SQLError(1318, f'Incorrect number of arguments for FUNCTION {name}; expected {len(r.params)}, got {len(args)}', '42000')
        fr = Frame(name, 'FUNCTION')
        for (mode, pn, pt), v in zip(r.params, args):
            ti = _ti(pt)
            fr.blocks[0][pn] = [coerce(v, ti, pn), ti]
        X2 = self.make_ctx(X.sess, fr)
        self._depth(X2, X)
        try:
            self.exec_pstmt(r.body, X2)
        except _Return as ret:
            return coerce(ret.value, _ti(r.returns), name)
        raise SQLError(1321, f'FUNCTION {name} ended without RETURN', '2F005')

    def exec_call(self, call, X):
        r = self.routines.get(call.name)
        if r is None or r.kind != 'PROCEDURE':
            raise SQLError(1305, f'PROCEDURE {call.name} does not exist', '42000')
        if len(call.args) != len(r.params):
            raise SQLError(1318, f'Incorrect number of arguments for PROCEDURE {call.name}; expected {len(r.params)}, got {len(call.args)}',
                           '42000')
        fr = Frame(call.name, 'PROCEDURE')
        outs = []
        for (mode, pn, pt), a in zip(r.params, call.args):
            ti = _ti(pt)
            if mode == 'IN':
                fr.blocks[0][pn] = [coerce(compile_expr(a)(X), ti, pn), ti]
                continue
            # OUT / INOUT: the argument must be assignable
            if isinstance(a, A.UserVar):
                target = ('uvar', a.name)
            elif isinstance(a, A.Name) and len(a.parts) == 1 and X.frame is not None and X.frame.lookup(a.parts[0]) is not None:
                target = ('var', a.parts[0])
            else:
                raise SQLError(1414, f'OUT or INOUT argument for routine {call.name} is not a variable', '42000')
            init = None
            if mode == 'INOUT':
                init = coerce(compile_expr(a)(X), ti, pn)
            cell = [init, ti]
            fr.blocks[0][pn] = cell
            outs.append((target, cell))
        X2 = self.make_ctx(X.sess, fr)
        self._depth(X2, X)
        self.exec_pstmt(r.body, X2)
        for (kind, nm), cell in outs:
            if kind == 'uvar':
                X.sess.uvars[nm] = cell[0]
            else:
                c = X.frame.lookup(nm)
                c[0] = coerce(cell[0], c[1], nm)
        X.sess.row_count = 0

    # -- statements ----------------------------------------------------------------------------------
    def exec_pstmt(self, st, X):
        """execute one statement of a stored program, applying the frame's condition handlers"""
        try:
            self._exec_pstmt(st, X)
        except SQLError as e:
            fr = X.frame
            if fr is None:
                raise
            h = None
            for blk, hd in reversed(fr.handlers):
                if _handler_matches(hd.conds, e):
                    h = (blk, hd)
                    break
            if h is None:
                if isinstance(e, NotFound) and not e.fatal:
                    return      # SELECT ... INTO without a row: warning only
                raise
            blk, hd = h
            saved = fr.condition
            fr.condition = e
            # a handler's own statements are not protected by the handlers of the same block
            saved_handlers = fr.handlers
            fr.handlers = [x for x in saved_handlers if x[0] is not blk]
            try:
                self.exec_pstmt(hd.stmt, X)
            finally:
                fr.handlers = saved_handlers
                fr.condition = saved
            if hd.action == 'EXIT':
                raise _ExitBlock(blk)

    def _exec_pstmt(self, st, X):
        t = type(st)
        fr = X.frame
        if t is A.Block:
            return self._exec_block(st, X)
        if t is A.SetStmt:
            return self.exec_set(st, X)
        if t is A.If:
            for cond, body in st.branches:
                if truth(compile_expr(cond)(X)):
                    for s in body:
                        self.exec_pstmt(s, X)
                    return
            if st.els is not None:
                for s in st.els:
                    self.exec_pstmt(s, X)
            return
        if t is A.CaseStmt:
            if st.operand is not None:
                o = compile_expr(st.operand)(X)
                for c, body in st.whens:
                    if compare('=', o, compile_expr(c)(X)):
                        for s in body:
                            self.exec_pstmt(s, X)
                        return
            else:
                for c, body in st.whens:
                    if truth(compile_expr(c)(X)):
                        for s in body:
                            self.exec_pstmt(s, X)
                        return
            if st.els is None:
                raise SQLError(1339, 'Case not found for CASE statement', '20000')
            for s in st.els:
                self.exec_pstmt(s, X)
            return
        if t in (A.Loop, A.While, A.Repeat):
            n = 0
            while True:
                n += 1
                if n > self.max_loop_iterations:
                    raise Unsupported('loop exceeded max_loop_iterations', fr.name if fr else '')
                if t is A.While and not truth(compile_expr(st.cond)(X)):
                    return
                try:
                    for s in st.body:
                        self.exec_pstmt(s, X)
                except _Leave as l:
                    if l.label == st.label:
                        return
                    raise
                except _Iterate as it:
                    if it.label != st.label:
                        raise
                    continue
                if t is A.Repeat and truth(compile_expr(st.cond)(X)):
                    return
        if t is A.Leave:
            raise _Leave(st.label)
        if t is A.Iterate:
            raise _Iterate(st.label)
        if t is A.Return:
            raise _Return(compile_expr(st.expr)(X))
        if t is A.Open:
            c = fr.cursor(st.name)
            if c.rows is not None:
                raise SQLError(1325, 'Cursor is already open', '24000')
            saved = X.scope
            X.scope = None
            try:
                c.rows = self.run_query(c.q, X).rows
            finally:
                X.scope = saved
            c.pos = 0
            return
        if t is A.Close:
            c = fr.cursor(st.name)
            if c.rows is None:
                raise SQLError(1326, 'Cursor is not open', '24000')
            c.rows = None
            return
        if t is A.Fetch:
            c = fr.cursor(st.name)
            if c.rows is None:
                raise SQLError(1326, 'Cursor is not open', '24000')
            if c.pos >= len(c.rows):
                raise NotFound(fatal=True)
            row = c.rows[c.pos]
            c.pos += 1
            if len(row) != len(st.targets):
                raise SQLError(1328, 'Incorrect number of FETCH variables')
            for nm, v in zip(st.targets, row):
                self._assign_var(X, nm, v)
            return
        if t is A.Signal:
            if st.resignal:
                cur = fr.condition if fr is not None else None
                if cur is None:
                    raise SQLError(1645, 'RESIGNAL when handler not active', '0K000')
                if st.sqlstate is None and not st.items:
                    raise cur
                state = st.sqlstate or cur.sqlstate
                errno = cur.errno
                msg = cur.msg
            else:
                state = st.sqlstate
                errno = 1644 if state[:2] not in ('01', '02') else (1642 if state[:2] == '01' else 1643)
                msg = 'Unhandled user-defined exception condition' if errno == 1644 else 'Unhandled user-defined condition'
            for k, e in st.items.items():
                v = compile_expr(e)(X)
                if k == 'MESSAGE_TEXT':
                    msg = '' if v is None else str(v)
                elif k == 'MYSQL_ERRNO':
                    errno = int(v)
                else:
                    raise Unsupported('SIGNAL item ' + k)
            if state[:2] == '01':
                return   # a warning does not interrupt execution
            raise SQLError(errno, msg, state)
        if t is A.StartTx or t is A.Commit or t is A.Rollback:
            if fr is not None and fr.kind != 'PROCEDURE':
                raise SQLError(1422, 'Explicit or implicit commit is not allowed in stored function or trigger.')
            return self.exec_tx(st, X.sess)
        if t is A.Call:
            return self.exec_call(st, X)
        # plain SQL statement
        return self.exec_sql(st, X)

    def _exec_block(self, blk, X):
        fr = X.frame
        if fr is None:
            raise Unsupported('BEGIN ... END outside a stored program')
        fr.blocks.append({})
        fr.cursors.append({})
        nh = len(fr.handlers)
        try:
            for d in blk.decls:
                if isinstance(d, A.DeclareVar):
                    ti = _ti(d.type)
                    v = compile_expr(d.default)(X) if d.default is not None else None
                    for nm in d.names:
                        fr.blocks[-1][nm] = [coerce(v, ti, nm), ti]
                elif isinstance(d, A.DeclareCursor):
                    fr.cursors[-1][d.name] = _Cursor(d.q)
                else:
                    fr.handlers.append((blk, d))
            try:
                for s in blk.stmts:
                    self.exec_pstmt(s, X)
            except _Leave as l:
                if blk.label is None or l.label != blk.label:
                    raise
            except _ExitBlock as ex:
                if ex.block is not blk:
                    raise
        finally:
            del fr.handlers[nh:]
            fr.blocks.pop()
            fr.cursors.pop()

    def _assign_var(self, X, name: str, v):
        fr = X.frame
        cell = fr.lookup(name) if fr is not None else None
        if cell is None:
            raise SQLError(1327, f'Undeclared variable: {name}', '42000')
        cell[0] = coerce(v, cell[1], name)

    def exec_set(self, st, X):
        for kind, name, e in st.assigns:
            v = compile_expr(e)(X)
            if kind == 'uvar':
                X.sess.uvars[name] = v
            elif kind == 'var':
                if X.frame is None or X.frame.lookup(name) is None:
                    raise Unsupported(f'SET of system variable / unknown variable {name}', st.text or '')
                self._assign_var(X, name, v)
            elif kind == 'new':
                fr = X.frame
                if fr is None or fr.new is None or not fr.new_writable:
                    raise SQLError(1362, 'Updating of NEW row is not allowed in after trigger')
                if name not in fr.new_types:
                    raise SchemaError(f"Unknown column 'NEW.{name}' (1054)")
                fr.new[name] = coerce(v, fr.new_types[name], name)
            else:
                raise SQLError(1362, 'Updating of OLD row is not allowed in trigger')

    def select_into(self, sel_into, res, X):
        if not res.rows:
            raise NotFound(fatal=False)
        if len(res.rows) > 1:
            raise SQLError(1172, 'Result consisted of more than one row', '42000')
        row = res.rows[0]
        if len(row) != len(sel_into):
            raise SQLError(1222, 'The used SELECT statements have a different number of columns', '21000')
        for (kind, nm), v in zip(sel_into, row):
            if kind == 'uvar':
                X.sess.uvars[nm] = v
            else:
                self._assign_var(X, nm, v)

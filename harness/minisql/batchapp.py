"""Helpers to run the REAL batch front-end / driver python functions over minisql:

    db   = seeded_db(rng, clock)                  # MiniDB with schema + routines + minimal configuration rows
    app  = await make_app(db)                     # dict-like aiohttp-app stand-in with the keys the functions read
    await call(front_end._create_batch, spec, userdata, app['db'])

Everything external (file store, HTTP client session, credentials) is an inert recorder.
"""
from __future__ import annotations

import asyncio
import random
from typing import Any, Dict, List, Optional

from .engine import MiniDB, from_repo

USER = 'u1'
BILLING_PROJECT = 'bp1'
USERDATA = {'username': USER, 'hail_credentials_secret_name': 'u1-gsa-key', 'tokens_secret_name': 'u1-tokens',
            'hail_identity': 'u1@verif.invalid', 'login_id': 'u1', 'is_developer': 0, 'is_service_account': 0, 'id': 1,
            'system_roles': [], 'system_permissions': {}}


def seed_minimal(db: MiniDB, n_tokens: int = 4, users=(USER,), billing_projects=(BILLING_PROJECT,)):
    db.load_rows('globals', [{'instance_id': 'verif-instance', 'internal_token': 'itok', 'n_tokens': n_tokens, 'frozen': 0}])
    db.load_rows('feature_flags', [{'compact_billing_tables': 1, 'oms_agent': 0, 'dockerhub_proxy': 0}])
    db.load_rows('events_mark', [{'mark': None}])
    ic = dict(boot_disk_size_gb=10, max_instances=100, max_live_instances=50, cloud='gcp', max_new_instances_per_autoscaler_loop=10,
              autoscaler_loop_period_secs=15, worker_max_idle_time_secs=30)
    db.load_rows('inst_colls', [dict(name=n, is_pool=1, **ic) for n in ('standard', 'highmem', 'highcpu')]
                 + [dict(name='job-private', is_pool=0, **ic)])
    db.load_rows('pools', [dict(name=n, worker_type=n, worker_cores=16, worker_local_ssd_data_disk=1,
                                worker_external_ssd_data_disk_size_gb=0, enable_standing_worker=0, standing_worker_cores=4,
                                preemptible=1, label='', min_instances=0, standing_worker_max_idle_time_secs=300,
                                job_queue_scheduling_window_secs=150) for n in ('standard', 'highmem', 'highcpu')])
    res = ['compute/n1-preemptible/1', 'memory/n1-preemptible/1', 'boot-disk/pd-ssd/1', 'ip-fee/1024/1', 'service-fee/1',
           'disk/local-ssd/preemptible/1', 'disk/pd-ssd/1', 'compute/n1-nonpreemptible/1', 'memory/n1-nonpreemptible/1',
           'disk/local-ssd/nonpreemptible/1']
    db.load_rows('resources', [dict(resource=r, rate=(i + 1) * 1e-9, resource_id=i + 1, deduped_resource_id=i + 1)
                               for i, r in enumerate(res)])
    # two legacy product versions folded onto ids 1 and 2 by the dedup migrations (083-088): resource_id != deduped_resource_id.
    # Every aggregate table is keyed by the DEDUPED id (seed C02-13 filed one table under the raw id).
    db.load_rows('resources', [dict(resource='compute/n1-preemptible/0', rate=1e-9, resource_id=11, deduped_resource_id=1),
                               dict(resource='memory/n1-preemptible/0', rate=2e-9, resource_id=12, deduped_resource_id=2)])
    db.load_rows('latest_product_versions', [dict(product=r.rsplit('/', 1)[0], version='1', sku=None) for r in res])
    db.load_rows('regions', [{'region': 'us-central1'}, {'region': 'us-east1'}])
    db.load_rows('billing_projects', [dict(name=b, name_cs=b) for b in billing_projects])
    db.load_rows('billing_project_users', [dict(billing_project=b, user=u, user_cs=u) for b in billing_projects for u in users])


def seeded_db(rng: Optional[random.Random] = None, clock=None, repo: Optional[str] = None, **kw) -> MiniDB:
    db = from_repo(repo, rng, clock)
    seed_minimal(db, **kw)
    return db


class FakeFileStore:
    def __init__(self):
        self.specs: Dict[Any, Any] = {}
        self.calls: List[Any] = []

    async def write_spec_file(self, batch_id, token, data_bytes, offsets_bytes):
        self.specs[(batch_id, token)] = (data_bytes, offsets_bytes)

    async def read_spec_file(self, batch_id, token, start_job_id, job_id):
        data, offsets = self.specs[(batch_id, token)]
        i = 8 * (job_id - start_job_id)
        a = int.from_bytes(offsets[i:i + 8], 'little')
        b = int.from_bytes(offsets[i + 8:i + 16], 'little')
        return data[a:b].decode()

    def __getattr__(self, name):
        async def rec(*a, **k):
            self.calls.append((name, a, k))
            return None
        return rec


class FakeClientSession:
    """the driver's HTTP client towards the workers: every call is recorded and answered with success; `hook`, when set, is awaited
    inside the call (what happens in the world while the request is in flight, e.g. the instance is preempted)"""

    def __init__(self):
        self.calls: List[Any] = []
        self.hook: Any = None

    def __getattr__(self, name):
        async def rec(*a, **k):
            self.calls.append((name, a, k))
            if self.hook is not None:
                await self.hook(name, a, k)
            return None
        return rec


class FakeCredentials:
    async def auth_headers(self):
        return {'Authorization': 'Bearer verif'}


class App(dict):
    """aiohttp.web.Application stand-in: item access only"""


async def make_app(minidb: MiniDB, autocommit: bool = False) -> App:
    from harness import loader
    loader.install()
    from .env import set_batch_env
    set_batch_env()
    from . import fakepool
    from hailtop.aiotools import BackgroundTaskManager
    from batch.inst_coll_config import InstanceCollectionConfigs
    try:
        from gear import CommonAiohttpAppKeys
        client_key = CommonAiohttpAppKeys.CLIENT_SESSION
    except Exception:
        client_key = 'client_session'

    app = App()
    db = await fakepool.make_database(minidb, autocommit=autocommit)
    app['db'] = db
    app['file_store'] = FakeFileStore()
    app['task_manager'] = BackgroundTaskManager()
    app[client_key] = FakeClientSession()
    app['client_session'] = app[client_key]
    app['hail_credentials'] = FakeCredentials()
    app['cancel_batch_state_changed'] = asyncio.Event()
    app['delete_batch_state_changed'] = asyncio.Event()
    row = await db.select_and_fetchone('SELECT instance_id, n_tokens, frozen FROM globals;')
    app['n_tokens'] = row['n_tokens']
    app['instance_id'] = row['instance_id']
    app['frozen'] = bool(row['frozen'])
    app['feature_flags'] = await db.select_and_fetchone('SELECT * FROM feature_flags')
    app['regions'] = {r['region']: r['region_id'] async for r in db.select_and_fetchall('SELECT region_id, region FROM regions')}
    app['default_region'] = 'us-central1'
    app['inst_coll_configs'] = await InstanceCollectionConfigs.create(db)
    return app


def job_spec(job_id: int, parents=(), job_group=0, always_run=False, cpu='1', absolute_parents=(), in_update_job_group=None,
             attributes=None, n_max_attempts=None) -> dict:
    """a minimal client job spec as the batch client sends it (job_id relative to the update, 1-based)"""
    s: Dict[str, Any] = {
        'job_id': job_id,
        'in_update_parent_ids': list(parents),
        'absolute_parent_ids': list(absolute_parents),
        'always_run': always_run,
        'process': {'type': 'docker', 'image': 'ubuntu:22.04', 'command': ['true'], 'mount_docker_socket': False},
        'resources': {'cpu': cpu, 'memory': 'standard', 'storage': '0'},
    }
    if in_update_job_group is not None:
        s['in_update_job_group_id'] = in_update_job_group
    else:
        s['absolute_job_group_id'] = job_group
    if attributes:
        s['attributes'] = attributes
    if n_max_attempts is not None:
        s['n_max_attempts'] = n_max_attempts
    return s


# --------------------------------------------------------------------------------------------------
# driver side


class FakeInstanceConfig:
    def to_dict(self):
        return {'version': 0, 'verif': True}

    def region_for(self, location):
        return 'us-central1'


class FakeInstColl:
    def __init__(self, name: str, is_pool: bool):
        self.name = name
        self.is_pool = is_pool
        self.scheduler_state_changed = asyncio.Event()
        self.name_instance: Dict[str, Any] = {}

    def adjust_for_remove_instance(self, instance):
        self.name_instance.pop(instance.name, None)

    def adjust_for_add_instance(self, instance):
        self.name_instance[instance.name] = instance


class FakeInstCollManager:
    def __init__(self, colls: Dict[str, FakeInstColl]):
        self.name_inst_coll = colls

    def get_instance(self, name):
        for c in self.name_inst_coll.values():
            i = c.name_instance.get(name)
            if i is not None:
                return i
        return None

    def get_inst_coll(self, name):
        return self.name_inst_coll.get(name)


class FakeDriver:
    def __init__(self, mgr):
        self.inst_coll_manager = mgr


class _Secret:
    def __init__(self):
        import base64
        self.data = {'key.json': base64.b64encode(b'{}').decode(), 'token': base64.b64encode(b'tok').decode()}


class _ServiceAccount:
    secrets = None


class FakeK8sCache:
    async def read_secret(self, name, namespace):
        return _Secret()

    async def read_service_account(self, name, namespace):
        return _ServiceAccount()


async def scheduler_record(app, batch_id: int, job_id: int, attempt_id: str) -> Dict[str, Any]:
    """the record the pool scheduler hands to batch.driver.job.schedule_job for one Ready job"""
    rec = await app['db'].select_and_fetchone(
        """
SELECT jobs.batch_id, jobs.job_id, jobs.spec, jobs.cores_mcpu, jobs.regions_bits_rep, jobs.job_group_id, jobs.n_max_attempts, time_ready,
  batches.userdata, batches.user, batches.format_version
FROM jobs
LEFT JOIN batches ON batches.id = jobs.batch_id
LEFT JOIN jobs_telemetry ON jobs.batch_id = jobs_telemetry.batch_id AND jobs.job_id = jobs_telemetry.job_id
WHERE jobs.batch_id = %s AND jobs.job_id = %s;
""", (batch_id, job_id))
    rec['attempt_id'] = attempt_id
    return rec


async def make_driver_app(minidb: MiniDB) -> App:
    """make_app + the keys batch.driver.job / canceller / instance read"""
    app = await make_app(minidb)
    from hailtop.utils import AsyncWorkerPool, Notice
    db = app['db']
    colls = {}
    async for r in db.select_and_fetchall('SELECT name, is_pool FROM inst_colls'):
        colls[r['name']] = FakeInstColl(r['name'], bool(r['is_pool']))
    app['driver'] = FakeDriver(FakeInstCollManager(colls))
    app['scheduler_state_changed'] = Notice()
    app['cancel_ready_state_changed'] = asyncio.Event()
    app['cancel_creating_state_changed'] = asyncio.Event()
    app['cancel_running_state_changed'] = asyncio.Event()
    app['async_worker_pool'] = AsyncWorkerPool(parallelism=4, queue_size=100)
    app['resource_name_to_id'] = {}
    app['k8s_cache'] = FakeK8sCache()
    from batch.driver.main import refresh_globals_from_db
    await refresh_globals_from_db(app, db)
    return app


async def create_instance(app, name: str, inst_coll: str = 'standard', cores: int = 16, preemptible: bool = True):
    """the REAL batch.driver.instance.Instance.create over the fake inst_coll"""
    from batch.driver.instance import Instance
    ic = app['driver'].inst_coll_manager.get_inst_coll(inst_coll)
    inst = await Instance.create(app, ic, name, 'atok-' + name, cores, 'us-central1-a', 'n1-standard-%d' % cores, preemptible,
                                 FakeInstanceConfig())
    ic.adjust_for_add_instance(inst)
    return inst

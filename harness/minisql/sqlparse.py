"""Tokenizer + recursive-descent parser for the MySQL subset used by the batch service (DESIGN.md §2.4).

Fail-loudly: any construct outside the subset raises `Unsupported(construct, excerpt)`.
"""
from __future__ import annotations

import re
from typing import Any, List, Optional, Tuple


class MiniSQLError(Exception):
    pass


class Unsupported(MiniSQLError):
    def __init__(self, construct: str, excerpt: str = ''):
        super().__init__(f'unsupported SQL construct: {construct} near {excerpt[:160]!r}')
        self.construct = construct
        self.excerpt = excerpt


class ParseError(MiniSQLError):
    pass


# --------------------------------------------------------------------------------------------------
# tokens

T_NUM, T_STR, T_ID, T_QID, T_UVAR, T_PARAM, T_OP, T_EOF = 'num', 'str', 'id', 'qid', 'uvar', 'param', 'op', 'eof'

_OPS3 = ('<=>',)
_OPS2 = (':=', '<=', '>=', '<>', '!=', '||', '&&', '<<', '>>')
_OPS1 = '=<>+-*/%(),.;!~^&|'

_ESC = {'0': '\0', 'n': '\n', 'r': '\r', 't': '\t', 'b': '\b', 'Z': '\x1a', '\\': '\\', "'": "'", '"': '"', '%': '\\%', '_': '\\_'}


class Tok:
    __slots__ = ('k', 'v', 'pos', 'end', 'u')

    def __init__(self, k, v, pos, end):
        self.k = k
        self.v = v
        self.pos = pos
        self.end = end
        self.u = v.upper() if k == T_ID else None

    def __repr__(self):
        return f'{self.k}:{self.v!r}'


def tokenize(sql: str, with_params: bool) -> List[Tok]:
    toks: List[Tok] = []
    i = 0
    n = len(sql)
    npos = 0
    while i < n:
        c = sql[i]
        if c in ' \t\r\n':
            i += 1
            continue
        if c == '#' or (sql.startswith('--', i) and (i + 2 >= n or sql[i + 2] in ' \t\r\n')):
            j = sql.find('\n', i)
            i = n if j < 0 else j
            continue
        if sql.startswith('/*', i):
            j = sql.find('*/', i + 2)
            if j < 0:
                raise ParseError('unterminated comment')
            i = j + 2
            continue
        if c in '\'"':
            j = i + 1
            out = []
            while True:
                if j >= n:
                    raise ParseError(f'unterminated string at {sql[i:i + 30]!r}')
                ch = sql[j]
                if ch == '\\':
                    if j + 1 >= n:
                        raise ParseError('bad escape')
                    e = sql[j + 1]
                    out.append(_ESC.get(e, e))
                    j += 2
                    continue
                if ch == c:
                    if j + 1 < n and sql[j + 1] == c:
                        out.append(c)
                        j += 2
                        continue
                    break
                out.append(ch)
                j += 1
            s = ''.join(out)
            if with_params and '%' in s:
                raise Unsupported("'%' inside a string literal of a parameterised statement", sql[i:j + 1])
            toks.append(Tok(T_STR, s, i, j + 1))
            i = j + 1
            continue
        if c == '`':
            j = sql.find('`', i + 1)
            if j < 0:
                raise ParseError('unterminated `identifier`')
            toks.append(Tok(T_QID, sql[i + 1:j], i, j + 1))
            i = j + 1
            continue
        if c.isdigit() or (c == '.' and i + 1 < n and sql[i + 1].isdigit()):
            m = re.compile(r'\d+\.\d*(?:[eE][+-]?\d+)?|\.\d+(?:[eE][+-]?\d+)?|\d+[eE][+-]?\d+|\d+').match(sql, i)
            toks.append(Tok(T_NUM, m.group(0), i, m.end()))
            i = m.end()
            continue
        if c.isalpha() or c == '_':
            m = re.compile(r'[A-Za-z_][A-Za-z0-9_$]*').match(sql, i)
            toks.append(Tok(T_ID, m.group(0), i, m.end()))
            i = m.end()
            continue
        if c == '@':
            if sql.startswith('@@', i):
                raise Unsupported('system variable @@', sql[i:i + 40])
            m = re.compile(r'@([A-Za-z0-9_$.]+|`[^`]+`)').match(sql, i)
            if not m:
                raise ParseError(f'bad user variable at {sql[i:i + 20]!r}')
            toks.append(Tok(T_UVAR, m.group(1).strip('`').lower(), i, m.end()))
            i = m.end()
            continue
        if c == '%' and with_params:
            if sql.startswith('%s', i):
                toks.append(Tok(T_PARAM, str(npos), i, i + 2))
                npos += 1
                i += 2
                continue
            m = re.compile(r'%\((\w+)\)s').match(sql, i)
            if m:
                toks.append(Tok(T_PARAM, 'n:' + m.group(1), i, m.end()))
                i = m.end()
                continue
            if sql.startswith('%%', i):
                toks.append(Tok(T_OP, '%', i, i + 2))
                i += 2
                continue
            raise ParseError(f'bad % format at {sql[i:i + 10]!r}')
        if sql[i:i + 3] in _OPS3:
            toks.append(Tok(T_OP, sql[i:i + 3], i, i + 3))
            i += 3
            continue
        if sql[i:i + 2] in _OPS2:
            toks.append(Tok(T_OP, sql[i:i + 2], i, i + 2))
            i += 2
            continue
        if c in _OPS1:
            toks.append(Tok(T_OP, c, i, i + 1))
            i += 1
            continue
        raise ParseError(f'unexpected character {c!r} at {sql[max(0, i - 20):i + 20]!r}')
    toks.append(Tok(T_EOF, '', n, n))
    return toks


# --------------------------------------------------------------------------------------------------
# AST


class Node:
    __slots__ = ('_c', '_plan')

    def __repr__(self):
        fields = []
        for cls in type(self).__mro__:
            for s in getattr(cls, '__slots__', ()):
                if not s.startswith('_') and hasattr(self, s):
                    fields.append(f'{s}={getattr(self, s)!r}')
        return f'{type(self).__name__}({", ".join(fields)})'


def _node(name, fields):
    fs = tuple(fields.split())

    def __init__(self, *a, **k):
        for f, v in zip(fs, a):
            setattr(self, f, v)
        for f in fs[len(a):]:
            setattr(self, f, k.pop(f, None))
        assert not k, k
    return type(name, (Node,), {'__slots__': fs, '__init__': __init__})


# expressions
Lit = _node('Lit', 'value')
Param = _node('Param', 'key')
Name = _node('Name', 'parts')                       # tuple of lower-case identifiers: (col,) | (tbl, col)
Star = _node('Star', 'table')
UserVar = _node('UserVar', 'name')
UserVarAssign = _node('UserVarAssign', 'name expr')
Unary = _node('Unary', 'op e')
Binary = _node('Binary', 'op l r')
IsNull = _node('IsNull', 'e neg')
IsBool = _node('IsBool', 'e val neg')
InList = _node('InList', 'e items neg')
InSub = _node('InSub', 'e q neg')
Between = _node('Between', 'e lo hi neg')
Like = _node('Like', 'e pat neg')
Case = _node('Case', 'operand whens els')
Func = _node('Func', 'name args distinct star')
Cast = _node('Cast', 'e type')
Exists = _node('Exists', 'q')
Subquery = _node('Subquery', 'q')
Row = _node('Row', 'items')
Window = _node('Window', 'func partition order')
ValuesRef = _node('ValuesRef', 'col')

# query
Select = _node('Select', 'distinct items from_ where group_by having order_by limit offset into text')
Union = _node('Union', 'parts alls order_by limit offset into')
With = _node('With', 'ctes body')                   # ctes: [(name, cols|None, query)]
TableRef = _node('TableRef', 'name alias')
Derived = _node('Derived', 'q alias lateral')
Join = _node('Join', 'left right kind on using')    # kind: INNER | LEFT | CROSS

# statements
Insert = _node('Insert', 'table cols rows select odku ignore text')
Update = _node('Update', 'from_ sets where order_by limit text')
Delete = _node('Delete', 'targets from_ where order_by limit text')
Call = _node('Call', 'name args text')
SetStmt = _node('SetStmt', 'assigns text')           # [(target-kind, name, expr)]
StartTx = _node('StartTx', 'read_only')
Commit = _node('Commit', '')
Rollback = _node('Rollback', '')
# stored program statements
Block = _node('Block', 'label decls stmts')          # decls: DeclareVar | DeclareCursor | DeclareHandler
DeclareVar = _node('DeclareVar', 'names type default')
DeclareCursor = _node('DeclareCursor', 'name q')
DeclareHandler = _node('DeclareHandler', 'action conds stmt')
If = _node('If', 'branches els')                     # [(cond, [stmts])]
CaseStmt = _node('CaseStmt', 'operand whens els')
Loop = _node('Loop', 'label body')
While = _node('While', 'label cond body')
Repeat = _node('Repeat', 'label body cond')
Leave = _node('Leave', 'label')
Iterate = _node('Iterate', 'label')
Open = _node('Open', 'name')
Fetch = _node('Fetch', 'name targets')
Close = _node('Close', 'name')
Signal = _node('Signal', 'sqlstate items resignal')
Return = _node('Return', 'expr')
CreateRoutine = _node('CreateRoutine', 'kind name params returns body table timing event text')

AGGREGATES = {'SUM', 'COUNT', 'MAX', 'MIN', 'AVG', 'JSON_OBJECTAGG', 'JSON_ARRAYAGG', 'GROUP_CONCAT'}

_RESERVED_AFTER_TABLE = {
    'WHERE', 'GROUP', 'HAVING', 'ORDER', 'LIMIT', 'ON', 'USING', 'JOIN', 'INNER', 'LEFT', 'RIGHT', 'CROSS', 'STRAIGHT_JOIN',
    'NATURAL', 'UNION', 'FOR', 'LOCK', 'SET', 'FORCE', 'IGNORE', 'USE', 'INTO', 'VALUES', 'SELECT', 'AS', 'WINDOW', 'OUTER',
    'FROM', 'THEN', 'DO', 'END', 'ELSE', 'ELSEIF', 'WHEN', 'AND', 'OR', 'NOT', 'IS', 'IN', 'LIKE', 'BETWEEN', 'DIV', 'MOD',
    'XOR', 'ASC', 'DESC', 'LATERAL', 'OFFSET', 'PARTITION',
}

_TYPE_WORDS = {'INT', 'INTEGER', 'BIGINT', 'SMALLINT', 'TINYINT', 'MEDIUMINT', 'BOOLEAN', 'BOOL', 'VARCHAR', 'CHAR', 'TEXT',
               'MEDIUMTEXT', 'LONGTEXT', 'TINYTEXT', 'DOUBLE', 'FLOAT', 'REAL', 'DECIMAL', 'NUMERIC', 'DATE', 'DATETIME',
               'TIMESTAMP', 'JSON', 'BLOB', 'MEDIUMBLOB', 'LONGBLOB', 'ENUM'}


class Parser:
    def __init__(self, sql: str, with_params: bool = False):
        self.sql = sql
        self.toks = tokenize(sql, with_params)
        self.i = 0
        self.in_odku = False

    # -- token helpers -----------------------------------------------------------------------------
    @property
    def t(self) -> Tok:
        return self.toks[self.i]

    def peek(self, k=1) -> Tok:
        j = self.i + k
        return self.toks[j] if j < len(self.toks) else self.toks[-1]

    def excerpt(self, at: Optional[int] = None) -> str:
        p = self.toks[at if at is not None else self.i].pos
        return self.sql[max(0, p - 40):p + 80]

    def fail(self, msg):
        raise ParseError(f'{msg} near {self.excerpt()!r}')

    def unsupported(self, what):
        raise Unsupported(what, self.excerpt())

    def is_kw(self, *words) -> bool:
        for j, w in enumerate(words):
            t = self.peek(j)
            if t.k != T_ID or t.u != w:
                return False
        return True

    def kw(self, *words) -> bool:
        if self.is_kw(*words):
            self.i += len(words)
            return True
        return False

    def expect_kw(self, *words):
        if not self.kw(*words):
            self.fail(f'expected {" ".join(words)}')

    def is_op(self, o) -> bool:
        t = self.t
        return t.k == T_OP and t.v == o

    def op(self, o) -> bool:
        if self.is_op(o):
            self.i += 1
            return True
        return False

    def expect_op(self, o):
        if not self.op(o):
            self.fail(f'expected {o!r}')

    def ident(self) -> str:
        t = self.t
        if t.k in (T_ID, T_QID):
            self.i += 1
            return t.v
        self.fail('expected identifier')

    def src(self, a: int, b: Optional[int] = None) -> str:
        """source text from token index a to token index b (exclusive)"""
        b = self.i if b is None else b
        if b <= a:
            return ''
        return self.sql[self.toks[a].pos:self.toks[b - 1].end]

    # -- entry points --------------------------------------------------------------------------------
    def parse_statements(self) -> List[Node]:
        out = []
        while True:
            while self.op(';'):
                pass
            if self.t.k == T_EOF:
                break
            out.append(self.statement(top=True))
        return out

    def statement(self, top=False) -> Node:
        start = self.i
        t = self.t
        if t.k == T_OP and t.v == '(':
            return self.query_expr(allow_into=True)
        if t.k != T_ID:
            self.fail('expected statement')
        u = t.u
        if u in ('SELECT', 'WITH'):
            return self.query_expr(allow_into=True)
        if u == 'INSERT':
            return self.insert()
        if u == 'UPDATE':
            return self.update()
        if u == 'DELETE':
            return self.delete()
        if u == 'CALL':
            self.i += 1
            name = self.ident()
            args = []
            if self.op('('):
                if not self.is_op(')'):
                    args.append(self.expr())
                    while self.op(','):
                        args.append(self.expr())
                self.expect_op(')')
            return Call(name.lower(), args, self.src(start))
        if u == 'SET':
            return self.set_stmt()
        if u == 'START':
            self.i += 1
            self.expect_kw('TRANSACTION')
            ro = False
            if self.kw('READ', 'ONLY'):
                ro = True
            elif self.kw('READ', 'WRITE'):
                pass
            elif self.is_kw('WITH'):
                self.unsupported('START TRANSACTION WITH CONSISTENT SNAPSHOT')
            return StartTx(ro)
        if u == 'BEGIN' and top:
            self.i += 1
            self.kw('WORK')
            return StartTx(False)
        if u == 'COMMIT':
            self.i += 1
            self.kw('WORK')
            return Commit()
        if u == 'ROLLBACK':
            self.i += 1
            self.kw('WORK')
            if self.is_kw('TO'):
                self.unsupported('ROLLBACK TO SAVEPOINT')
            return Rollback()
        if u == 'CREATE':
            return self.create_routine()
        self.unsupported(f'statement {u}')

    # -- routines ------------------------------------------------------------------------------------
    def type_spec(self) -> str:
        t = self.t
        if t.k != T_ID or t.u not in _TYPE_WORDS:
            self.fail('expected a type')
        self.i += 1
        s = t.u
        if self.is_op('('):
            a = self.i
            depth = 0
            while True:
                if self.op('('):
                    depth += 1
                elif self.op(')'):
                    depth -= 1
                    if depth == 0:
                        break
                else:
                    if self.t.k == T_EOF:
                        self.fail('unbalanced type')
                    self.i += 1
            s += self.src(a).replace(' ', '')
        while self.kw('UNSIGNED') or self.kw('SIGNED'):
            pass
        if self.kw('CHARACTER', 'SET') or self.kw('CHARSET'):
            self.ident()
        if self.kw('COLLATE'):
            self.ident()
        return s

    def create_routine(self) -> Node:
        start = self.i
        self.expect_kw('CREATE')
        if self.kw('DEFINER'):
            self.expect_op('=')
            while not (self.is_kw('PROCEDURE') or self.is_kw('FUNCTION') or self.is_kw('TRIGGER')):
                self.i += 1
        if self.kw('PROCEDURE'):
            name = self.ident().lower()
            params = self.params(proc=True)
            self.characteristics()
            body = self.routine_stmt()
            return CreateRoutine('PROCEDURE', name, params, None, body, text=self.src(start))
        if self.kw('FUNCTION'):
            name = self.ident().lower()
            params = self.params(proc=False)
            self.expect_kw('RETURNS')
            ret = self.type_spec()
            self.characteristics()
            body = self.routine_stmt()
            return CreateRoutine('FUNCTION', name, params, ret, body, text=self.src(start))
        if self.kw('TRIGGER'):
            name = self.ident().lower()
            timing = self.ident().upper()
            event = self.ident().upper()
            if timing not in ('BEFORE', 'AFTER') or event not in ('INSERT', 'UPDATE', 'DELETE'):
                self.fail('bad trigger head')
            self.expect_kw('ON')
            table = self.ident().lower()
            self.expect_kw('FOR', 'EACH', 'ROW')
            if self.is_kw('FOLLOWS') or self.is_kw('PRECEDES'):
                self.unsupported('trigger ordering FOLLOWS/PRECEDES')
            body = self.routine_stmt()
            return CreateRoutine('TRIGGER', name, [], None, body, table, timing, event, text=self.src(start))
        self.unsupported('CREATE ' + self.t.v)

    def characteristics(self):
        while True:
            if self.kw('NOT', 'DETERMINISTIC') or self.kw('DETERMINISTIC') or self.kw('CONTAINS', 'SQL') or self.kw('NO', 'SQL') \
                    or self.kw('READS', 'SQL', 'DATA') or self.kw('MODIFIES', 'SQL', 'DATA') or self.kw('SQL', 'SECURITY', 'DEFINER') \
                    or self.kw('SQL', 'SECURITY', 'INVOKER') or self.kw('LANGUAGE', 'SQL'):
                continue
            if self.kw('COMMENT'):
                self.i += 1
                continue
            break

    def params(self, proc: bool):
        self.expect_op('(')
        ps = []
        if not self.is_op(')'):
            while True:
                mode = 'IN'
                if proc and self.t.k == T_ID and self.t.u in ('IN', 'OUT', 'INOUT') and self.peek().k in (T_ID, T_QID):
                    mode = self.t.u
                    self.i += 1
                name = self.ident().lower()
                typ = self.type_spec()
                ps.append((mode, name, typ))
                if not self.op(','):
                    break
        self.expect_op(')')
        return ps

    def routine_stmt(self) -> Node:
        """one statement of a stored program (no trailing ';' consumed)"""
        label = None
        if self.t.k == T_ID and self.t.v.endswith('$') and self.peek().k == T_ID and self.peek().u in ('LOOP', 'WHILE', 'REPEAT', 'BEGIN'):
            label = self.t.v[:-1].lower()     # `name:` was rewritten to `name$` by parse()
            self.i += 1
        t = self.t
        if t.k != T_ID:
            return self.statement()
        u = t.u
        if u == 'BEGIN':
            return self.block(label)
        if u == 'IF' and not (self.peek().k == T_OP and self.peek().v == '(' and self._if_is_function()):
            self.i += 1
            branches = []
            cond = self.expr()
            self.expect_kw('THEN')
            branches.append((cond, self.stmt_list(('ELSEIF', 'ELSE', 'END'))))
            els = None
            while True:
                if self.kw('ELSEIF'):
                    c = self.expr()
                    self.expect_kw('THEN')
                    branches.append((c, self.stmt_list(('ELSEIF', 'ELSE', 'END'))))
                elif self.kw('ELSE'):
                    els = self.stmt_list(('END',))
                else:
                    break
            self.expect_kw('END', 'IF')
            return If(branches, els)
        if u == 'CASE':
            self.i += 1
            operand = None
            if not self.is_kw('WHEN'):
                operand = self.expr()
            whens = []
            while self.kw('WHEN'):
                c = self.expr()
                self.expect_kw('THEN')
                whens.append((c, self.stmt_list(('WHEN', 'ELSE', 'END'))))
            els = None
            if self.kw('ELSE'):
                els = self.stmt_list(('END',))
            self.expect_kw('END', 'CASE')
            return CaseStmt(operand, whens, els)
        if u == 'LOOP':
            self.i += 1
            body = self.stmt_list(('END',))
            self.expect_kw('END', 'LOOP')
            self._end_label(label)
            return Loop(label, body)
        if u == 'WHILE':
            self.i += 1
            cond = self.expr()
            self.expect_kw('DO')
            body = self.stmt_list(('END',))
            self.expect_kw('END', 'WHILE')
            self._end_label(label)
            return While(label, cond, body)
        if u == 'REPEAT':
            self.i += 1
            body = self.stmt_list(('UNTIL',))
            self.expect_kw('UNTIL')
            cond = self.expr()
            self.expect_kw('END', 'REPEAT')
            self._end_label(label)
            return Repeat(label, body, cond)
        if label is not None:
            self.fail('label on a statement that cannot carry one')
        if u == 'LEAVE':
            self.i += 1
            return Leave(self.ident().lower())
        if u == 'ITERATE':
            self.i += 1
            return Iterate(self.ident().lower())
        if u == 'OPEN':
            self.i += 1
            return Open(self.ident().lower())
        if u == 'CLOSE':
            self.i += 1
            return Close(self.ident().lower())
        if u == 'FETCH':
            self.i += 1
            if self.kw('NEXT'):
                self.expect_kw('FROM')
            else:
                self.kw('FROM')
            name = self.ident().lower()
            self.expect_kw('INTO')
            targets = [self.ident().lower()]
            while self.op(','):
                targets.append(self.ident().lower())
            return Fetch(name, targets)
        if u in ('SIGNAL', 'RESIGNAL'):
            self.i += 1
            resignal = u == 'RESIGNAL'
            state = None
            if self.kw('SQLSTATE'):
                self.kw('VALUE')
                if self.t.k != T_STR:
                    self.fail('expected SQLSTATE string')
                state = self.t.v
                self.i += 1
            elif not resignal:
                self.unsupported('SIGNAL <condition name>')
            items = {}
            if self.kw('SET'):
                while True:
                    k = self.ident().upper()
                    self.expect_op('=')
                    items[k] = self.expr()
                    if not self.op(','):
                        break
            return Signal(state, items, resignal)
        if u == 'RETURN':
            self.i += 1
            return Return(self.expr())
        if u == 'DECLARE':
            self.fail('DECLARE is only allowed at the start of a BEGIN ... END block')
        return self.statement()

    def _if_is_function(self) -> bool:
        return False  # a statement cannot start with the IF() function

    def _end_label(self, label):
        if self.t.k in (T_ID, T_QID) and label is not None and self.t.v.lower() == label:
            self.i += 1

    def stmt_list(self, terminators) -> List[Node]:
        out = []
        while True:
            while self.op(';'):
                pass
            if self.t.k == T_EOF:
                self.fail('unexpected end of routine body')
            if self.t.k == T_ID and self.t.u in terminators:
                return out
            out.append(self.routine_stmt())
            if not self.op(';'):
                if self.t.k == T_ID and self.t.u in terminators:
                    return out
                self.fail("expected ';'")

    def block(self, label=None) -> Node:
        self.expect_kw('BEGIN')
        decls = []
        while True:
            while self.op(';'):
                pass
            if not self.kw('DECLARE'):
                break
            if self.is_kw('CONTINUE') or self.is_kw('EXIT') or self.is_kw('UNDO'):
                action = self.ident().upper()
                if action == 'UNDO':
                    self.unsupported('UNDO handler')
                self.expect_kw('HANDLER', 'FOR')
                conds = []
                while True:
                    if self.kw('NOT', 'FOUND'):
                        conds.append('NOT FOUND')
                    elif self.kw('SQLEXCEPTION'):
                        conds.append('SQLEXCEPTION')
                    elif self.kw('SQLWARNING'):
                        conds.append('SQLWARNING')
                    elif self.kw('SQLSTATE'):
                        self.kw('VALUE')
                        conds.append('SQLSTATE:' + self.t.v)
                        self.i += 1
                    elif self.t.k == T_NUM:
                        conds.append('ERRNO:' + self.t.v)
                        self.i += 1
                    else:
                        self.unsupported('handler condition name')
                    if not self.op(','):
                        break
                stmt = self.routine_stmt()
                decls.append(DeclareHandler(action, conds, stmt))
            elif self.peek().k == T_ID and self.peek().u == 'CURSOR':
                name = self.ident().lower()
                self.expect_kw('CURSOR', 'FOR')
                q = self.query_expr(allow_into=False)
                decls.append(DeclareCursor(name, q))
            elif self.peek().k == T_ID and self.peek().u == 'CONDITION':
                self.unsupported('DECLARE ... CONDITION')
            else:
                names = [self.ident().lower()]
                while self.op(','):
                    names.append(self.ident().lower())
                typ = self.type_spec()
                default = None
                if self.kw('DEFAULT'):
                    default = self.expr()
                decls.append(DeclareVar(names, typ, default))
            if not self.op(';'):
                self.fail("expected ';' after DECLARE")
        stmts = self.stmt_list(('END',))
        self.expect_kw('END')
        self._end_label(label)
        return Block(label, decls, stmts)

    # -- SET -----------------------------------------------------------------------------------------
    def set_stmt(self) -> Node:
        start = self.i
        self.expect_kw('SET')
        assigns = []
        while True:
            t = self.t
            if t.k == T_UVAR:
                self.i += 1
                if not (self.op('=') or self.op(':=')):
                    self.fail('expected =')
                assigns.append(('uvar', t.v, self.expr()))
            elif t.k in (T_ID, T_QID):
                if t.k == T_ID and t.u in ('GLOBAL', 'SESSION', 'LOCAL', 'PERSIST', 'NAMES', 'TRANSACTION', 'CHARACTER', 'AUTOCOMMIT',
                                           'FOREIGN_KEY_CHECKS', 'SQL_MODE'):
                    self.unsupported('SET of a system variable / ' + t.u)
                a = self.ident().lower()
                if self.op('.'):
                    b = self.ident().lower()
                    if a not in ('new', 'old'):
                        self.fail('SET of a qualified name other than NEW.col')
                    if not (self.op('=') or self.op(':=')):
                        self.fail('expected =')
                    assigns.append((a, b, self.expr()))
                else:
                    if not (self.op('=') or self.op(':=')):
                        self.fail('expected =')
                    assigns.append(('var', a, self.expr()))
            else:
                self.fail('bad SET target')
            if not self.op(','):
                break
        return SetStmt(assigns, self.src(start))

    # -- queries -------------------------------------------------------------------------------------
    def query_expr(self, allow_into=False) -> Node:
        """[WITH ...] query_body [ORDER BY] [LIMIT] [locking]"""
        if self.is_kw('WITH'):
            self.i += 1
            if self.kw('RECURSIVE'):
                self.unsupported('WITH RECURSIVE')
            ctes = []
            while True:
                name = self.ident().lower()
                cols = None
                if self.is_op('('):
                    self.i += 1
                    cols = [self.ident().lower()]
                    while self.op(','):
                        cols.append(self.ident().lower())
                    self.expect_op(')')
                self.expect_kw('AS')
                self.expect_op('(')
                q = self.query_expr()
                self.expect_op(')')
                ctes.append((name, cols, q))
                if not self.op(','):
                    break
            body = self.query_expr(allow_into)
            return With(ctes, body)
        first = self.query_term(allow_into)
        parts = [first]
        alls = []
        while self.is_kw('UNION'):
            self.i += 1
            a = False
            if self.kw('ALL'):
                a = True
            else:
                self.kw('DISTINCT')
            alls.append(a)
            parts.append(self.query_term(allow_into))
        if self.is_kw('INTERSECT') or self.is_kw('EXCEPT'):
            self.unsupported('INTERSECT/EXCEPT')
        if len(parts) == 1 and not (self.is_kw('ORDER') or self.is_kw('LIMIT')) :
            self.locking()
            return first
        if len(parts) == 1:
            # parenthesised select followed by ORDER/LIMIT: wrap as single-part union
            pass
        u = Union(parts, alls)
        u.order_by = self.order_by()
        u.limit, u.offset = self.limit()
        self.locking()
        if len(parts) == 1 and isinstance(first, Select) and first.order_by is None and first.limit is None \
                and u.order_by is None and u.limit is None:
            return first
        return u

    def query_term(self, allow_into) -> Node:
        if self.is_op('('):
            self.i += 1
            q = self.query_expr(allow_into)
            self.expect_op(')')
            if isinstance(q, Select):
                # remember it was parenthesised: a following ORDER BY/LIMIT belongs to the enclosing union
                w = Union([q], [])
                return w
            return q
        return self.select_core(allow_into)

    def locking(self):
        while True:
            if self.kw('FOR', 'UPDATE') or self.kw('FOR', 'SHARE') or self.kw('LOCK', 'IN', 'SHARE', 'MODE'):
                if self.kw('OF'):
                    self.ident()
                    while self.op(','):
                        self.ident()
                if self.is_kw('NOWAIT') or self.is_kw('SKIP'):
                    self.unsupported('NOWAIT / SKIP LOCKED')
                continue
            break

    def order_by(self):
        if not self.kw('ORDER', 'BY'):
            return None
        out = []
        while True:
            e = self.expr()
            desc = False
            if self.kw('DESC'):
                desc = True
            else:
                self.kw('ASC')
            out.append((e, desc))
            if not self.op(','):
                break
        return out

    def limit(self):
        if not self.kw('LIMIT'):
            return None, None
        a = self.limit_value()
        if self.op(','):
            b = self.limit_value()
            return b, a
        if self.kw('OFFSET'):
            return a, self.limit_value()
        return a, None

    def limit_value(self):
        t = self.t
        if t.k == T_NUM:
            self.i += 1
            return Lit(int(t.v))
        if t.k == T_PARAM:
            self.i += 1
            return Param(t.v)
        if t.k in (T_ID, T_QID):
            self.i += 1
            return Name((t.v.lower(),))
        self.fail('bad LIMIT value')

    def select_core(self, allow_into) -> Node:
        start = self.i
        self.expect_kw('SELECT')
        s = Select()
        s.distinct = False
        while True:
            if self.kw('DISTINCT'):
                s.distinct = True
            elif self.kw('ALL') or self.kw('STRAIGHT_JOIN') or self.kw('SQL_NO_CACHE') or self.kw('SQL_CALC_FOUND_ROWS') \
                    or self.kw('HIGH_PRIORITY') or self.kw('SQL_SMALL_RESULT') or self.kw('SQL_BIG_RESULT'):
                pass
            else:
                break
        s.items = []
        while True:
            a = self.i
            if self.is_op('*'):
                self.i += 1
                s.items.append((Star(None), None, '*'))
            elif self.t.k in (T_ID, T_QID) and self.peek().k == T_OP and self.peek().v == '.' and self.peek(2).k == T_OP \
                    and self.peek(2).v == '*':
                tn = self.ident().lower()
                self.i += 2
                s.items.append((Star(tn), None, tn + '.*'))
            else:
                e = self.expr()
                text = self.src(a)
                alias = None
                if self.kw('AS'):
                    t = self.t
                    if t.k == T_STR:
                        alias = t.v
                        self.i += 1
                    else:
                        alias = self.ident()
                elif self.t.k == T_QID or (self.t.k == T_ID and self.t.u not in _RESERVED_AFTER_TABLE):
                    alias = self.ident()
                s.items.append((e, alias, text))
            if not self.op(','):
                break
        if allow_into and self.is_kw('INTO'):
            s.into = self.into()
        if self.kw('FROM'):
            s.from_ = self.table_refs()
        if self.kw('WHERE'):
            s.where = self.expr()
        if self.kw('GROUP', 'BY'):
            s.group_by = [self.expr()]
            while self.op(','):
                s.group_by.append(self.expr())
            if self.is_kw('WITH'):
                self.unsupported('GROUP BY ... WITH ROLLUP')
        if self.kw('HAVING'):
            s.having = self.expr()
        if self.is_kw('WINDOW'):
            self.unsupported('WINDOW clause')
        s.order_by = self.order_by()
        s.limit, s.offset = self.limit()
        if allow_into and self.is_kw('INTO'):
            if s.into:
                self.fail('two INTO clauses')
            s.into = self.into()
        self.locking()
        if allow_into and self.is_kw('INTO'):
            if s.into:
                self.fail('two INTO clauses')
            s.into = self.into()
            self.locking()
        s.text = self.src(start)
        return s

    def into(self):
        self.expect_kw('INTO')
        if self.is_kw('OUTFILE') or self.is_kw('DUMPFILE'):
            self.unsupported('INTO OUTFILE')
        out = []
        while True:
            t = self.t
            if t.k == T_UVAR:
                self.i += 1
                out.append(('uvar', t.v))
            else:
                out.append(('var', self.ident().lower()))
            if not self.op(','):
                break
        return out

    def table_refs(self) -> Node:
        left = self.joined_table()
        while self.op(','):
            right = self.joined_table()
            left = Join(left, right, 'CROSS', None, None)
        return left

    def joined_table(self) -> Node:
        left = self.table_factor()
        while True:
            kind = None
            if self.kw('INNER', 'JOIN') or self.kw('CROSS', 'JOIN') or self.kw('JOIN') or self.kw('STRAIGHT_JOIN'):
                kind = 'INNER'
            elif self.kw('LEFT', 'OUTER', 'JOIN') or self.kw('LEFT', 'JOIN'):
                kind = 'LEFT'
            elif self.is_kw('RIGHT') or self.is_kw('NATURAL'):
                self.unsupported('RIGHT / NATURAL JOIN')
            else:
                return left
            right = self.table_factor()
            on = using = None
            if self.kw('ON'):
                on = self.expr()
            elif self.kw('USING'):
                self.expect_op('(')
                using = [self.ident().lower()]
                while self.op(','):
                    using.append(self.ident().lower())
                self.expect_op(')')
            elif kind == 'LEFT':
                self.fail('LEFT JOIN without ON/USING')
            left = Join(left, right, kind, on, using)

    def table_factor(self) -> Node:
        lateral = self.kw('LATERAL')
        if self.is_op('('):
            nxt = self.peek()
            if not ((nxt.k == T_ID and nxt.u in ('SELECT', 'WITH')) or (nxt.k == T_OP and nxt.v == '(')):
                self.unsupported('parenthesised join')
            self.i += 1
            q = self.query_expr()
            self.expect_op(')')
            self.kw('AS')
            if self.t.k not in (T_ID, T_QID) or (self.t.k == T_ID and self.t.u in _RESERVED_AFTER_TABLE):
                self.fail('derived table needs an alias')
            alias = self.ident().lower()
            if self.is_op('('):
                self.unsupported('derived table column list')
            return Derived(q, alias, lateral)
        if lateral:
            self.fail('LATERAL needs a derived table')
        name = self.ident().lower()
        if self.op('.'):
            name = self.ident().lower()   # db.table: database qualifier dropped
        alias = None
        if self.kw('AS'):
            alias = self.ident().lower()
        elif self.t.k == T_QID or (self.t.k == T_ID and self.t.u not in _RESERVED_AFTER_TABLE):
            alias = self.ident().lower()
        while self.is_kw('FORCE') or self.is_kw('IGNORE') or self.is_kw('USE'):
            if not (self.peek().k == T_ID and self.peek().u in ('INDEX', 'KEY')):
                break
            self.i += 2
            if self.kw('FOR'):
                self.kw('JOIN') or self.kw('ORDER', 'BY') or self.kw('GROUP', 'BY')
            self.expect_op('(')
            if not self.is_op(')'):
                self.ident()
                while self.op(','):
                    self.ident()
            self.expect_op(')')
        if self.is_kw('PARTITION'):
            self.unsupported('PARTITION selection')
        return TableRef(name, alias)

    # -- DML -----------------------------------------------------------------------------------------
    def insert(self) -> Node:
        start = self.i
        self.expect_kw('INSERT')
        ins = Insert()
        ins.ignore = False
        while True:
            if self.kw('IGNORE'):
                ins.ignore = True
            elif self.kw('LOW_PRIORITY') or self.kw('HIGH_PRIORITY') or self.kw('DELAYED'):
                pass
            else:
                break
        self.kw('INTO')
        ins.table = self.ident().lower()
        ins.cols = None
        if self.is_op('(') and not (self.peek().k == T_ID and self.peek().u in ('SELECT', 'WITH')):
            self.i += 1
            ins.cols = []
            if not self.is_op(')'):
                ins.cols.append(self.ident().lower())
                while self.op(','):
                    ins.cols.append(self.ident().lower())
            self.expect_op(')')
        if self.kw('VALUES') or self.kw('VALUE'):
            ins.rows = []
            while True:
                self.expect_op('(')
                row = []
                if not self.is_op(')'):
                    while True:
                        if self.kw('DEFAULT'):
                            row.append(None)
                        else:
                            row.append(self.expr())
                        if not self.op(','):
                            break
                self.expect_op(')')
                ins.rows.append(row)
                if not self.op(','):
                    break
            if self.kw('AS'):
                self.unsupported('INSERT ... VALUES ... AS alias')
        elif self.is_kw('SET'):
            self.unsupported('INSERT ... SET')
        else:
            ins.select = self.query_expr()
        if self.kw('ON', 'DUPLICATE', 'KEY', 'UPDATE'):
            ins.odku = []
            self.in_odku = True
            while True:
                a = self.ident().lower()
                if self.op('.'):
                    a = self.ident().lower()
                self.expect_op('=')
                ins.odku.append((a, self.expr()))
                if not self.op(','):
                    break
            self.in_odku = False
        ins.text = self.src(start)
        return ins

    def update(self) -> Node:
        start = self.i
        self.expect_kw('UPDATE')
        if self.kw('LOW_PRIORITY') or self.kw('IGNORE'):
            self.unsupported('UPDATE modifiers')
        u = Update()
        u.from_ = self.table_refs()
        self.expect_kw('SET')
        u.sets = []
        while True:
            a = self.ident().lower()
            tbl = None
            if self.op('.'):
                tbl = a
                a = self.ident().lower()
            self.expect_op('=')
            if self.kw('DEFAULT'):
                self.unsupported('SET col = DEFAULT')
            u.sets.append((tbl, a, self.expr()))
            if not self.op(','):
                break
        if self.kw('WHERE'):
            u.where = self.expr()
        u.order_by = self.order_by()
        u.limit, off = self.limit()
        if off is not None:
            self.fail('UPDATE ... LIMIT with offset')
        u.text = self.src(start)
        return u

    def delete(self) -> Node:
        start = self.i
        self.expect_kw('DELETE')
        if self.kw('LOW_PRIORITY') or self.kw('QUICK') or self.kw('IGNORE'):
            self.unsupported('DELETE modifiers')
        d = Delete()
        if self.kw('FROM'):
            first = self.i
            refs = self.table_refs()
            if self.kw('USING'):
                self.unsupported('DELETE FROM ... USING')
            d.targets = None
            d.from_ = refs
        else:
            d.targets = [self.ident().lower()]
            if self.op('.'):
                self.expect_op('*')
            while self.op(','):
                d.targets.append(self.ident().lower())
                if self.op('.'):
                    self.expect_op('*')
            self.expect_kw('FROM')
            d.from_ = self.table_refs()
        if self.kw('WHERE'):
            d.where = self.expr()
        d.order_by = self.order_by()
        d.limit, off = self.limit()
        if off is not None:
            self.fail('DELETE ... LIMIT with offset')
        d.text = self.src(start)
        return d

    # -- expressions -----------------------------------------------------------------------------------
    def expr(self) -> Node:
        e = self.or_expr()
        if isinstance(e, UserVar) and self.is_op(':='):
            self.i += 1
            return UserVarAssign(e.name, self.expr())
        return e

    def or_expr(self) -> Node:
        l = self.xor_expr()
        while True:
            if self.kw('OR') or self.op('||'):
                l = Binary('OR', l, self.xor_expr())
            else:
                return l

    def xor_expr(self) -> Node:
        l = self.and_expr()
        while self.kw('XOR'):
            l = Binary('XOR', l, self.and_expr())
        return l

    def and_expr(self) -> Node:
        l = self.not_expr()
        while True:
            if self.kw('AND') or self.op('&&'):
                l = Binary('AND', l, self.not_expr())
            else:
                return l

    def not_expr(self) -> Node:
        if self.kw('NOT'):
            return Unary('NOT', self.not_expr())
        return self.predicate()

    def predicate(self) -> Node:
        l = self.bit_expr()
        while True:
            t = self.t
            if t.k == T_OP and t.v in ('=', '<=>', '<', '>', '<=', '>=', '<>', '!='):
                self.i += 1
                if self.is_kw('ALL') or self.is_kw('ANY') or self.is_kw('SOME'):
                    self.unsupported('comparison with ALL/ANY/SOME')
                r = self.bit_expr()
                l = Binary('<>' if t.v == '!=' else t.v, l, r)
                continue
            if t.k != T_ID:
                return l
            if t.u == 'IS':
                self.i += 1
                neg = self.kw('NOT')
                if self.kw('NULL'):
                    l = IsNull(l, neg)
                elif self.kw('TRUE'):
                    l = IsBool(l, 1, neg)
                elif self.kw('FALSE'):
                    l = IsBool(l, 0, neg)
                else:
                    self.unsupported('IS [NOT] UNKNOWN / other')
                continue
            neg = False
            save = self.i
            if t.u == 'NOT':
                nxt = self.peek()
                if nxt.k == T_ID and nxt.u in ('IN', 'LIKE', 'BETWEEN', 'REGEXP', 'RLIKE'):
                    self.i += 1
                    neg = True
                    t = self.t
                else:
                    return l
            if t.u == 'IN':
                self.i += 1
                self.expect_op('(')
                if self.is_kw('SELECT') or self.is_kw('WITH'):
                    q = self.query_expr()
                    self.expect_op(')')
                    l = InSub(l, q, neg)
                else:
                    items = [self.expr()]
                    while self.op(','):
                        items.append(self.expr())
                    self.expect_op(')')
                    l = InList(l, items, neg)
                continue
            if t.u == 'LIKE':
                self.i += 1
                pat = self.bit_expr()
                if self.is_kw('ESCAPE'):
                    self.unsupported('LIKE ... ESCAPE')
                l = Like(l, pat, neg)
                continue
            if t.u == 'BETWEEN':
                self.i += 1
                lo = self.bit_expr()
                self.expect_kw('AND')
                hi = self.bit_expr()
                l = Between(l, lo, hi, neg)
                continue
            if t.u in ('REGEXP', 'RLIKE', 'SOUNDS', 'MEMBER'):
                self.unsupported(t.u)
            self.i = save
            return l

    def bit_expr(self) -> Node:
        l = self.add_expr()
        t = self.t
        if t.k == T_OP and t.v in ('|', '&', '<<', '>>', '^'):
            self.unsupported('bit operator ' + t.v)
        return l

    def add_expr(self) -> Node:
        l = self.mul_expr()
        while True:
            t = self.t
            if t.k == T_OP and t.v in ('+', '-'):
                self.i += 1
                if self.is_kw('INTERVAL'):
                    self.unsupported('INTERVAL arithmetic')
                l = Binary(t.v, l, self.mul_expr())
            else:
                return l

    def mul_expr(self) -> Node:
        l = self.unary_expr()
        while True:
            t = self.t
            if t.k == T_OP and t.v in ('*', '/', '%'):
                self.i += 1
                l = Binary(t.v, l, self.unary_expr())
            elif t.k == T_ID and t.u in ('DIV', 'MOD'):
                self.i += 1
                l = Binary('DIV' if t.u == 'DIV' else '%', l, self.unary_expr())
            else:
                return l

    def unary_expr(self) -> Node:
        t = self.t
        if t.k == T_OP:
            if t.v == '-':
                self.i += 1
                return Unary('-', self.unary_expr())
            if t.v == '+':
                self.i += 1
                return self.unary_expr()
            if t.v == '!':
                self.i += 1
                return Unary('NOT', self.unary_expr())
            if t.v == '~':
                self.unsupported('bit inversion ~')
        if t.k == T_ID and t.u == 'BINARY' and not (self.peek().k == T_OP and self.peek().v == '('):
            self.unsupported('BINARY operator')
        e = self.primary()
        if self.is_kw('COLLATE'):
            self.unsupported('COLLATE in expression')
        return e

    def primary(self) -> Node:
        t = self.t
        k = t.k
        if k == T_NUM:
            self.i += 1
            v = t.v
            if re.fullmatch(r'\d+', v):
                return Lit(int(v))
            if 'e' in v.lower():
                return Lit(float(v))
            from decimal import Decimal
            return Lit(Decimal(v))
        if k == T_STR:
            self.i += 1
            s = t.v
            while self.t.k == T_STR:   # adjacent string literals concatenate
                s += self.t.v
                self.i += 1
            return Lit(s)
        if k == T_PARAM:
            self.i += 1
            return Param(t.v)
        if k == T_UVAR:
            self.i += 1
            return UserVar(t.v)
        if k == T_OP and t.v == '(':
            self.i += 1
            if self.is_kw('SELECT') or self.is_kw('WITH'):
                q = self.query_expr()
                self.expect_op(')')
                return Subquery(q)
            e = self.expr()
            if self.is_op(','):
                items = [e]
                while self.op(','):
                    items.append(self.expr())
                self.expect_op(')')
                return Row(items)
            self.expect_op(')')
            return e
        if k == T_QID:
            return self.name_or_call()
        if k != T_ID:
            self.fail('expected expression')
        u = t.u
        if u == 'NULL':
            self.i += 1
            return Lit(None)
        if u == 'TRUE':
            self.i += 1
            return Lit(1)
        if u == 'FALSE':
            self.i += 1
            return Lit(0)
        if u == 'EXISTS':
            self.i += 1
            self.expect_op('(')
            q = self.query_expr()
            self.expect_op(')')
            return Exists(q)
        if u == 'CASE':
            self.i += 1
            operand = None
            if not self.is_kw('WHEN'):
                operand = self.expr()
            whens = []
            while self.kw('WHEN'):
                c = self.expr()
                self.expect_kw('THEN')
                whens.append((c, self.expr()))
            els = None
            if self.kw('ELSE'):
                els = self.expr()
            self.expect_kw('END')
            return Case(operand, whens, els)
        if u in ('CAST', 'CONVERT') and self.peek().k == T_OP and self.peek().v == '(':
            self.i += 2
            e = self.expr()
            if u == 'CAST':
                self.expect_kw('AS')
            else:
                if self.is_kw('USING'):
                    self.unsupported('CONVERT ... USING')
                self.expect_op(',')
            typ = self.cast_type()
            self.expect_op(')')
            return Cast(e, typ)
        if u == 'INTERVAL':
            self.unsupported('INTERVAL')
        if u in ('CURRENT_DATE', 'CURRENT_TIMESTAMP', 'UTC_DATE', 'UTC_TIMESTAMP', 'CURRENT_TIME', 'LOCALTIME', 'LOCALTIMESTAMP') \
                and not (self.peek().k == T_OP and self.peek().v == '('):
            self.i += 1
            return Func(u, [], False, False)
        if u in ('ROW',) and self.peek().k == T_OP and self.peek().v == '(':
            self.i += 2
            items = [self.expr()]
            while self.op(','):
                items.append(self.expr())
            self.expect_op(')')
            return Row(items)
        if u in ('SELECT', 'FROM', 'WHERE', 'GROUP', 'ORDER', 'HAVING', 'LIMIT', 'THEN', 'ELSE', 'END', 'WHEN', 'ON', 'AND', 'OR',
                 'SET', 'INTO', 'UNION', 'JOIN', 'AS', 'BY', 'DESC', 'ASC', 'DO'):
            self.fail('expected expression')
        return self.name_or_call()

    def cast_type(self) -> str:
        if self.kw('SIGNED'):
            self.kw('INTEGER') or self.kw('INT')
            return 'SIGNED'
        if self.kw('UNSIGNED'):
            self.kw('INTEGER') or self.kw('INT')
            return 'UNSIGNED'
        if self.kw('DATE'):
            return 'DATE'
        if self.kw('DOUBLE') or self.kw('FLOAT') or self.kw('REAL'):
            return 'DOUBLE'
        if self.kw('CHAR') or self.kw('NCHAR'):
            if self.is_op('('):
                self.i += 1
                self.i += 1
                self.expect_op(')')
            if self.kw('CHARACTER', 'SET') or self.kw('CHARSET'):
                self.ident()
            return 'CHAR'
        if self.kw('DECIMAL'):
            p = ''
            if self.is_op('('):
                a = self.i
                while not self.op(')'):
                    self.i += 1
                p = self.src(a).replace(' ', '')
            return 'DECIMAL' + p
        if self.kw('JSON'):
            return 'JSON'
        self.unsupported('CAST target type ' + self.t.v)

    def name_or_call(self) -> Node:
        t = self.t
        first = self.ident()
        if self.is_op('(') and t.k == T_ID:
            return self.call(first)
        parts = [first.lower()]
        while self.is_op('.'):
            nxt = self.peek()
            if nxt.k in (T_ID, T_QID):
                self.i += 1
                parts.append(self.ident().lower())
            else:
                break
        if len(parts) == 3:
            parts = parts[1:]   # db.table.col
        if len(parts) > 2:
            self.fail('too many name qualifiers')
        return Name(tuple(parts))

    def call(self, fname: str) -> Node:
        u = fname.upper()
        self.expect_op('(')
        if u == 'VALUES' and self.in_odku:
            col = self.ident().lower()
            if self.op('.'):
                col = self.ident().lower()
            self.expect_op(')')
            return ValuesRef(col)
        f = Func(u, [], False, False)
        if u == 'COUNT' and self.is_op('*'):
            self.i += 1
            f.star = True
        elif not self.is_op(')'):
            if self.kw('DISTINCT'):
                f.distinct = True
            f.args.append(self.expr())
            while self.op(','):
                f.args.append(self.expr())
            if u == 'GROUP_CONCAT' and (self.is_kw('ORDER') or self.is_kw('SEPARATOR')):
                self.unsupported('GROUP_CONCAT ORDER BY / SEPARATOR')
        self.expect_op(')')
        if self.kw('OVER'):
            part = []
            order = None
            if self.t.k in (T_ID, T_QID) and not self.is_op('('):
                self.unsupported('named window')
            self.expect_op('(')
            if self.kw('PARTITION', 'BY'):
                part.append(self.expr())
                while self.op(','):
                    part.append(self.expr())
            order = self.order_by()
            if self.is_kw('ROWS') or self.is_kw('RANGE'):
                self.unsupported('window frame')
            self.expect_op(')')
            if u != 'ROW_NUMBER':
                self.unsupported('window function ' + u)
            return Window(u, part, order)
        return f


def parse(sql: str, with_params: bool = False) -> List[Node]:
    # the tokenizer has no ':' token; labels `name:` are rewritten to `name ` + marker handled in routine_stmt via raw text
    sql2 = re.sub(r'(?m)\b([A-Za-z_][A-Za-z0-9_]*)\s*:(?!=)(?=\s*(LOOP|WHILE|REPEAT|BEGIN)\b)', _label_sub, sql, flags=re.I) \
        if _maybe_label(sql) else sql
    return Parser(sql2, with_params).parse_statements()


def _maybe_label(sql: str) -> bool:
    return re.search(r':\s*(LOOP|WHILE|REPEAT|BEGIN)\b', sql, re.I) is not None


def _label_sub(m):
    # keep length identical so excerpts stay aligned: replace ':' by a space and tag the label with a `$L` suffix? No:
    # identifiers may contain '$', so "name:" -> "name$" (same length) marks a label unambiguously for the parser.
    s = m.group(0)
    return s.replace(':', '$', 1) if s.rstrip().endswith(':') else s


def parse_one(sql: str, with_params: bool = False) -> Node:
    st = parse(sql, with_params)
    if len(st) != 1:
        raise Unsupported(f'{len(st)} statements in one execute()', sql)
    return st[0]

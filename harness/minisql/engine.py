"""minisql engine: `MiniDB` — an interpreter for exactly the MySQL subset used by the batch service (DESIGN.md §2.4).

    db = MiniDB(schema, routines, rng, clock)
    rows, rowcount, lastrowid = db.execute(sql, params)

Tokenizer / parser live in `sqlparse.py`, the expression compiler in `exprs.py`, SELECT in `query.py`, INSERT/UPDATE/DELETE
in `dml.py`, stored programs in `program.py`, storage in `storage.py`; this module ties them together and re-exports the API.
"""
from __future__ import annotations

import copy
import datetime
import json
import os
import random
import sys
import time
from decimal import Decimal
from typing import Any, Callable, Dict, List, Optional, Tuple

from . import sqlparse as A
from .dml import DMLMixin
from .exprs import SchemaError, Scope, compile_expr
from .program import Frame, NotFound, ProgramMixin
from .query import QueryMixin, Result
from .sqlparse import MiniSQLError, ParseError, Unsupported, parse, tokenize
from .storage import Table, undo_to
from .values import SQLError, TypeInfo

SEMANTICS: List[str] = [
    'values: NULL=None; BOOLEAN/TRUE/FALSE are the integers 1/0; INT/BIGINT python ints with range checks on store; DOUBLE python '
    'float; SUM()/AVG() of exact values and `/` yield DECIMAL (python Decimal; `/` adds 4 digits of scale, rounds half up); '
    'COUNT() yields an int; DATE is datetime.date',
    'three-valued logic: comparisons / arithmetic / GREATEST / LEAST / IN / BETWEEN / LIKE propagate NULL; AND/OR/NOT/XOR follow '
    'the SQL truth tables; WHERE/ON/HAVING/IF keep a row only when the condition is TRUE; <=> is NULL-safe equality',
    'string comparison, GROUP BY, DISTINCT, unique keys and ORDER BY on strings are case- and accent-insensitive (approximation of '
    'utf8mb4_0900_ai_ci / utf8_general_ci by NFD-strip + casefold) unless one compared operand is a direct reference to a column '
    'whose collation ends in _cs or _bin; trailing-space PAD rules are not modelled',
    'number vs string comparison converts the string to DOUBLE (longest numeric prefix, else 0); DATE vs string parses the string',
    'strict sql_mode on store: NULL into NOT NULL -> 1048, missing value without DEFAULT for NOT NULL -> 1364, non-numeric string '
    'into integer -> 1366, integer out of range -> 1264, VARCHAR(n)/TEXT too long -> 1406, bad ENUM -> 1265; DECIMAL->integer '
    'rounds half away from zero, DOUBLE->integer rounds half to even (rint)',
    'local variables / routine parameters shadow columns of the same name in every expression of a stored program statement; '
    'assignment to a variable coerces to its declared type; OUT parameters start as NULL and are copied back after CALL',
    'INSERT: per row BEFORE INSERT trigger (NEW assignable) -> NOT NULL/type checks -> AUTO_INCREMENT -> unique check -> write -> '
    'AFTER INSERT trigger; duplicate PRIMARY/UNIQUE key on plain INSERT raises 1062 (IntegrityError), INSERT IGNORE skips the row',
    'INSERT ... ON DUPLICATE KEY UPDATE: assignments evaluated left to right against the existing row (later assignments see earlier '
    'ones), VALUES(col) is the value proposed for insertion; BEFORE UPDATE trigger always fires, the AFTER UPDATE trigger only when '
    'the row actually changed; ROW_COUNT()/rowcount adds 1 per inserted row, 2 per changed row, 0 per unchanged row; in the ODKU '
    'clause of INSERT ... SELECT the columns of the SELECT\'s tables are visible only when the SELECT is plain (no GROUP BY / aggregate / '
    'DISTINCT / UNION), and then a name found both in the target table and in the SELECT\'s tables is ambiguous (1052)',
    'INSERT ... SELECT streams: each selected row is evaluated (including `@x := expr` user-variable assignments) and then '
    'inserted / ODKU-updated before the next row is produced; joins are depth-first nested loops in FROM order; a LATERAL derived '
    'table is re-materialised for every left row and sees rows already written by the same statement; if the target table is read '
    'directly in the outer FROM the result is buffered first (and user-variable assignment there is Unsupported)',
    'UPDATE: the set of matched rows (join + WHERE [+ ORDER BY/LIMIT]) is materialised first; per matched row assignments are '
    'evaluated left to right with immediate visibility inside the same table row; then BEFORE UPDATE trigger (NEW assignable), '
    'checks, write if any column differs, then the AFTER UPDATE trigger -- fired for EVERY matched row, changed or not; '
    'rowcount / ROW_COUNT() counts changed rows only (no CLIENT_FOUND_ROWS)',
    'multi-table UPDATE: for each joined row every target table (FROM order) is updated at most once (first join match wins); '
    'right-hand sides that read another target table of the same joined row see that table\'s values from before this joined '
    'row was applied (MySQL documents the order as undefined)',
    'DELETE fires BEFORE/AFTER DELETE triggers per row; multi-table `DELETE t FROM t JOIN ...` supported',
    'foreign keys: INSERT / UPDATE of a child row whose (all non-NULL) key has no parent row raises 1452 (IntegrityError), checked per '
    'row at write time; constraint names follow InnoDB (<table>_ibfk_<n>) so that DROP FOREIGN KEY in the migrations is honoured; '
    'ON DELETE actions are not modelled: deleting a row that is still referenced raises Unsupported',
    'SELECT ... INTO with no row leaves the variables unchanged and raises the NOT FOUND condition (1329): a CONTINUE/EXIT HANDLER '
    'FOR NOT FOUND in scope runs, otherwise it is only a warning; more than one row -> 1172',
    'FETCH past the end raises NOT FOUND (an error when unhandled); cursors materialise their result at OPEN',
    'DECLARE ... HANDLER: CONTINUE resumes after the failing statement, EXIT leaves the declaring BEGIN...END block; SQLEXCEPTION = '
    'SQLSTATE class not in 00/01/02; RESIGNAL re-raises the handled condition; SIGNAL SQLSTATE \'45000\' raises errno 1644 with '
    'MESSAGE_TEXT (pymysql: OperationalError(1644, msg)); a failing DML statement undoes its own partial effects (statement atomicity), '
    'CALL as a whole is not atomic',
    'transactions: row-level undo log per session; START TRANSACTION implicitly commits an open transaction; ROLLBACK reverts every '
    'logged write (also writes made by procedures called in the transaction); with autocommit every top-level statement commits; '
    'AUTO_INCREMENT counters are not restored by ROLLBACK (InnoDB behaviour); START TRANSACTION READ ONLY rejects writes (1792)',
    'isolation is NOT modelled: every statement sees the latest data; with strict_isolation (default) a second session touching a '
    'table that holds uncommitted writes of another session raises Unsupported instead of guessing lock waits',
    'table scans and index lookups return rows in PRIMARY KEY order (InnoDB clustered-index order); tables without a primary key in '
    'insertion order; GROUP BY yields groups in order of first appearance; a non-aggregated select item of a grouped query takes '
    'its value from the first row of the group; HAVING / ORDER BY resolve select aliases before columns (except GROUP BY columns), '
    'GROUP BY resolves columns before aliases; in GROUP BY / HAVING / ORDER BY a name that is ambiguous among the FROM tables resolves '
    'to the select-list item of that name (MySQL find_order_in_list); every column reference of a statement is resolved before '
    'execution, so an unknown column is reported even when no row is evaluated (SchemaError)',
    'a scalar subquery (also `RETURN (SELECT ...)` of a stored function) returning more than one row raises 1242',
    'RAND() draws from the injected random.Random; UNIX_TIMESTAMP()/NOW()/UTC_DATE()/CURRENT_DATE read the injected clock (UTC)',
    'JSON_OBJECTAGG / JSON_ARRAYAGG / JSON_OBJECT return JSON text formatted as MySQL prints it (keys ordered by length then bytes, '
    '", " and ": " separators); JSON_OBJECTAGG over zero rows is NULL; NULL key -> 3158',
    'locking clauses (FOR UPDATE, FOR SHARE, LOCK IN SHARE MODE), index hints (FORCE/IGNORE/USE INDEX), STRAIGHT_JOIN, '
    'SQL_NO_CACHE are parsed and ignored',
    'result column names: alias, else the declared column name, else the expression text; as in pymysql\'s DictCursor a repeated '
    'name is returned as "<table alias>.<name>"',
    'python parameters: %s / %(name)s are bound as values (never string-formatted): bool->0/1, None->NULL, int/float/Decimal/str/'
    'bytes/date as is, list/tuple -> row value',
    'ROW_NUMBER() OVER ([PARTITION BY ...] ORDER BY ...) is the only window function; WITH (non-recursive) CTEs are materialised once '
    'per execution of the query expression that declares them',
]


class Ctx:
    __slots__ = ('db', 'sess', 'frame', 'scope', 'params', 'values_row', 'ctes', 'depth')

    def __init__(self, db, sess, frame=None, params=None):
        self.db = db
        self.sess = sess
        self.frame = frame
        self.scope = None
        self.params = params
        self.values_row = None
        self.ctes: List[Dict[str, Result]] = []
        self.depth = 0


class Session:
    """server-side state of one connection"""

    def __init__(self, db: 'MiniDB', autocommit: bool = True, name: str = ''):
        self.db = db
        self.name = name
        self.autocommit = autocommit
        self.explicit_tx = False
        self.read_only = False
        self.undo: list = []
        self.dirty: set = set()
        self.uvars: Dict[str, Any] = {}
        self.last_insert_id = 0
        self.stmt_insert_id = 0
        self.row_count = -1
        self.result_sets: List[Result] = []

    def in_transaction(self) -> bool:
        return self.explicit_tx or not self.autocommit

    def _release(self):
        for t in self.dirty:
            if t.dirty_by is self:
                t.dirty_by = None
        self.dirty.clear()

    def begin(self, read_only=False):
        self.commit()
        self.explicit_tx = True
        self.read_only = read_only

    def commit(self):
        self.undo.clear()
        self._release()
        self.explicit_tx = False
        self.read_only = False

    def rollback(self):
        undo_to(self.undo, 0)
        self._release()
        self.explicit_tx = False
        self.read_only = False


class _TablesView:
    def __init__(self, db):
        self._db = db

    def __getitem__(self, name) -> List[dict]:
        return self._db.table(name).scan()

    def __contains__(self, name):
        return name.lower() in self._db._tables

    def __iter__(self):
        return iter(sorted(self._db._tables))

    def keys(self):
        return sorted(self._db._tables)

    def items(self):
        return [(k, self[k]) for k in self.keys()]

    def __len__(self):
        return len(self._db._tables)


_parse_cache: Dict[Any, List[Any]] = {}


def _pymysql_err():
    try:
        import pymysql.err as err
    except ImportError:
        shims = os.path.join(os.path.dirname(os.path.dirname(os.path.abspath(__file__))), 'shims')
        if shims not in sys.path:
            sys.path.append(shims)
        import pymysql.err as err
    return err


def to_pymysql(e: SQLError) -> Exception:
    err = _pymysql_err()
    if hasattr(err, 'exception_for'):
        return err.exception_for(e.errno, e.msg)
    cls = err.error_map.get(e.errno)
    if cls is None:
        cls = err.InternalError if e.errno < 1000 else err.OperationalError
    return cls(e.errno, e.msg)


class MiniDB(QueryMixin, DMLMixin, ProgramMixin):
    def __init__(self, schema: Optional[Dict[str, Any]] = None, routines: Optional[Dict[str, Any]] = None,
                 rng: Optional[random.Random] = None, clock: Optional[Callable[[], float]] = None):
        """schema: {name: extract.Table}; routines: {name: extract.Routine | (kind, source_file, sql) | sql}"""
        self.rng = rng or random.Random(0)
        self.clock = clock or time.time
        self._tables: Dict[str, Table] = {}
        self.routines: Dict[str, Any] = {}
        self.routine_sources: Dict[str, str] = {}
        self.triggers: Dict[Tuple[str, str, str], List[Any]] = {}
        self.fk_children: Dict[str, List[Tuple[str, List[str], List[str]]]] = {}
        self.fk_parents: Dict[str, List[Tuple[str, Tuple[str, ...], str, Tuple[str, ...]]]] = {}
        self.enforce_foreign_keys = True
        self.cs_columns: frozenset = frozenset()
        self.strict_isolation = True
        self._sig = None
        self.max_loop_iterations = 1000000
        self.statement_log: Optional[List[str]] = None
        self.tables = _TablesView(self)
        self.default_session = Session(self, autocommit=True, name='default')
        for t in (schema or {}).values():
            self.add_table(t)
        for name, r in (routines or {}).items():
            if isinstance(r, str):
                self.add_routine(r)
            elif isinstance(r, tuple):
                self.add_routine(r[2], r[1])
            else:
                self.add_routine(r.sql, r.source_file)

    # -- schema ------------------------------------------------------------------------------------
    def add_table(self, schema_table):
        t = Table(schema_table)
        self._tables[t.name] = t
        self._sig = None
        cs = set(self.cs_columns)
        for c in t.cols:
            if t.cs[c]:
                cs.add(c)
        self.cs_columns = frozenset(cs)
        for fk in schema_table.fks:
            self.fk_children.setdefault(fk['ref_table'].lower(), []).append(
                (t.name, [c.lower() for c in fk['columns']], [c.lower() for c in fk['ref_columns']]))
            self.fk_parents.setdefault(t.name, []).append(
                (fk.get('name', '?'), tuple(c.lower() for c in fk['columns']), fk['ref_table'].lower(),
                 tuple(c.lower() for c in fk['ref_columns'])))
        return t

    def create_table(self, ddl: str):
        """convenience for tests: CREATE TABLE text -> table (parsed by extract.SchemaBuilder)"""
        from . import extract
        sb = extract.SchemaBuilder()
        for stmt, line in extract.split_script(ddl):
            sb.apply(stmt, f'<ddl>:{line}')
        for t in sb.tables.values():
            self.add_table(t)

    def table(self, name: str) -> Table:
        t = self._tables.get(name.lower())
        if t is None:
            raise SchemaError(f"Table '{name}' doesn't exist (1146)")
        return t

    # -- plumbing ----------------------------------------------------------------------------------
    def session(self, autocommit: bool = True, name: str = '') -> Session:
        return Session(self, autocommit, name)

    def make_ctx(self, sess: Session, frame=None, params=None) -> Ctx:
        return Ctx(self, sess, frame, params)

    def _parse(self, sql: str, with_params: bool):
        if self._sig is None:
            self._sig = hash(tuple(sorted((t.name, tuple(t.cols)) for t in self._tables.values())))
        key = (sql, with_params, self.cs_columns, self._sig)
        st = _parse_cache.get(key)
        if st is None:
            st = parse(sql, with_params)
            if len(_parse_cache) > 5000:
                _parse_cache.clear()
            _parse_cache[key] = st
        return st

    # -- statement execution -------------------------------------------------------------------------
    def exec_tx(self, st, sess: Session):
        if isinstance(st, A.StartTx):
            sess.begin(st.read_only)
        elif isinstance(st, A.Commit):
            sess.commit()
        else:
            sess.rollback()
        sess.row_count = 0

    def exec_sql(self, st, X):
        """one SQL statement (top level or inside a stored program). Returns Result | affected-row count | None"""
        t = type(st)
        if self.statement_log is not None:
            self.statement_log.append(getattr(st, 'text', None) or t.__name__)
        if t in (A.Select, A.Union, A.With):
            into = self._into_of(st)
            saved = X.scope
            X.scope = None if X.frame is not None else saved
            try:
                res = self.run_query(st, X)
            finally:
                X.scope = saved
            if into:
                self.select_into(into, res, X)
                X.sess.row_count = 1
                return None
            if X.frame is not None and X.frame.kind != 'PROCEDURE':
                raise SQLError(1415, 'Not allowed to return a result set from a function / trigger', '0A000')
            X.sess.result_sets.append(res)
            X.sess.row_count = -1
            return res
        if t is A.Insert:
            return self.exec_insert(st, X)
        if t is A.Update:
            return self.exec_update(st, X)
        if t is A.Delete:
            return self.exec_delete(st, X)
        if t is A.Call:
            return self.exec_call(st, X)
        if t is A.SetStmt:
            return self.exec_set(st, X)
        if t in (A.StartTx, A.Commit, A.Rollback):
            return self.exec_tx(st, X.sess)
        if t is A.CreateRoutine:
            self.add_routine(st.text)
            return None
        raise Unsupported('statement ' + t.__name__)

    @staticmethod
    def _into_of(q):
        while True:
            if isinstance(q, A.With):
                q = q.body
            elif isinstance(q, A.Union):
                if q.into:
                    return q.into
                if len(q.parts) == 1:
                    q = q.parts[0]
                else:
                    return None
            else:
                return q.into

    def execute_raw(self, sql: str, params=None, session: Optional[Session] = None, param_sets=None):
        """-> (Result|None, rowcount, lastrowid). Raises pymysql.err.* for MySQL errors, minisql errors for everything outside
        the model."""
        sess = session or self.default_session
        stmts = self._parse(sql, params is not None or param_sets is not None)
        if len(stmts) != 1:
            if not stmts:
                raise to_pymysql(SQLError(1065, 'Query was empty', '42000'))
            raise Unsupported(f'{len(stmts)} statements in one execute() (CLIENT.MULTI_STATEMENTS is off)', sql)
        st = stmts[0]
        X = Ctx(self, sess, None, params)
        sess.result_sets = []
        sess.stmt_insert_id = 0
        try:
            if param_sets is not None:
                if not isinstance(st, A.Insert) or st.rows is None:
                    raise Unsupported('bulk executemany on a statement that is not INSERT ... VALUES', sql)
                out = self.exec_insert(st, X, param_sets=param_sets)
            else:
                out = self.exec_sql(st, X)
        except SQLError as e:
            if not sess.in_transaction():
                sess.commit()
            raise to_pymysql(e) from None
        if not sess.in_transaction():
            sess.commit()
        if sess.result_sets:
            res = sess.result_sets[0]
            return res, len(res.rows), sess.stmt_insert_id
        rc = out if isinstance(out, int) else 0
        return None, rc, sess.stmt_insert_id

    def execute(self, sql: str, params=None, session: Optional[Session] = None):
        """-> (rows as list of dict, rowcount, lastrowid)"""
        res, rc, last = self.execute_raw(sql, params, session)
        return (res.dict_rows() if res is not None else []), rc, last

    def query(self, sql: str, params=None) -> List[dict]:
        return self.execute(sql, params)[0]

    # -- state -------------------------------------------------------------------------------------
    def load_rows(self, table: str, rows: List[dict]):
        """seed rows directly (no triggers, defaults applied, types coerced, unique keys checked)"""
        t = self.table(table)
        for r in rows:
            row = {c: (r[c] if c in r else self._default_for(t, c)) for c in t.cols}
            extra = set(r) - set(t.cols)
            if extra:
                raise SchemaError(f'unknown columns {sorted(extra)} for {t.name}')
            self._coerce_row(t, row)
            if t.auto_col is not None:
                if row[t.auto_col] is None:
                    row[t.auto_col] = t.auto_inc
                t.auto_inc = max(t.auto_inc, row[t.auto_col] + 1)
            if t.find_duplicate(row) is not None:
                raise to_pymysql(SQLError(1062, f'Duplicate entry while seeding {t.name}', '23000'))
            t.insert(row, None)

    def snapshot(self):
        for t in self._tables.values():
            if t.dirty_by is not None:
                raise MiniSQLError(f'snapshot() with an open transaction writing {t.name}')
        return {n: (t.dump_rows(), t.auto_inc) for n, t in self._tables.items()}

    def restore(self, snap):
        for n, t in self._tables.items():
            rows, ai = snap.get(n, ([], 1))
            t.load_rows(rows, ai)
            t.dirty_by = None
        self.default_session.undo.clear()

    def dump(self, tables: Optional[List[str]] = None) -> Dict[str, List[dict]]:
        """canonical JSON-able dump: {table: [row dicts]} rows sorted by their JSON text"""
        out = {}
        for n in (tables if tables is not None else sorted(self._tables)):
            t = self.table(n)
            rows = [{c: _jsonable(r[c]) for c in t.cols} for r in t.scan()]
            rows.sort(key=lambda r: json.dumps(r, sort_keys=True, default=str))
            out[t.name] = rows
        return out


def _jsonable(v):
    if isinstance(v, Decimal):
        return int(v) if v == v.to_integral_value() else float(v)
    if isinstance(v, (datetime.date, datetime.datetime)):
        return v.isoformat()
    if isinstance(v, bytes):
        return v.hex()
    return v


def from_repo(repo: Optional[str] = None, rng: Optional[random.Random] = None, clock=None) -> MiniDB:
    """MiniDB loaded with the batch schema and every current routine of the repository's migrations"""
    from . import extract
    schema, routines = extract.load(repo)
    return MiniDB(schema, routines, rng, clock)

"""In-memory tables of minisql: rows are dicts (lower-case column -> value); hash indexes maintained incrementally;
row-level undo log per session."""
from __future__ import annotations

import copy
from typing import Any, Dict, List, Optional, Tuple

from .values import SQLError, TypeInfo, norm_key, sort_key


class Table:
    def __init__(self, schema):
        """schema: extract.Table"""
        self.schema = schema
        self.name = schema.name.lower()
        self.cols: List[str] = [c.name.lower() for c in schema.columns]
        self.coldefs = {c.name.lower(): c for c in schema.columns}
        self.types: Dict[str, TypeInfo] = {}
        for c in schema.columns:
            self.types[c.name.lower()] = TypeInfo(c.type, c.enum_values, c.collation)
        self.cs = {c: self.types[c].cs for c in self.cols}
        self.pk: Optional[Tuple[str, ...]] = tuple(x.lower() for x in schema.pk) if schema.pk else None
        self.uniques: List[Tuple[str, Tuple[str, ...]]] = []
        if self.pk:
            self.uniques.append(('PRIMARY', self.pk))
        for k, v in schema.uniques.items():
            self.uniques.append((k, tuple(x.lower() for x in v)))
        self.auto_col = next((c.name.lower() for c in schema.columns if c.auto_increment), None)
        self.auto_inc = 1
        self.rows: Dict[int, dict] = {}
        self.indexes: Dict[Tuple[str, ...], Dict[tuple, List[dict]]] = {}
        self._sorted: Optional[List[dict]] = None
        self.dirty_by = None
        for _, cols in self.uniques:
            self.index(cols)

    # -- indexes -----------------------------------------------------------------------------------
    def key_of(self, row: dict, cols: Tuple[str, ...]) -> tuple:
        cs = self.cs
        return tuple(norm_key(row[c], cs[c]) for c in cols)

    def index(self, cols: Tuple[str, ...]) -> Dict[tuple, List[dict]]:
        ix = self.indexes.get(cols)
        if ix is None:
            ix = {}
            for r in self.rows.values():
                ix.setdefault(self.key_of(r, cols), []).append(r)
            self.indexes[cols] = ix
        return ix

    def _ix_add(self, row):
        for cols, ix in self.indexes.items():
            ix.setdefault(self.key_of(row, cols), []).append(row)

    def _ix_remove(self, row):
        for cols, ix in self.indexes.items():
            k = self.key_of(row, cols)
            lst = ix.get(k)
            if lst is not None:
                for i, r in enumerate(lst):
                    if r is row:
                        del lst[i]
                        break
                if not lst:
                    del ix[k]

    # -- scans --------------------------------------------------------------------------------------
    def scan(self) -> List[dict]:
        """all rows in PRIMARY KEY order (clustered index order); insertion order for tables without a PK"""
        s = self._sorted
        if s is None:
            rows = list(self.rows.values())
            if self.pk:
                pk = self.pk
                rows.sort(key=lambda r: tuple(sort_key(r[c]) for c in pk))
            s = self._sorted = rows
        return s

    def order(self, rows: List[dict]) -> List[dict]:
        if self.pk and len(rows) > 1:
            pk = self.pk
            return sorted(rows, key=lambda r: tuple(sort_key(r[c]) for c in pk))
        return rows

    def find_duplicate(self, row: dict, exclude: Optional[dict] = None) -> Optional[Tuple[str, dict]]:
        """first unique key (PRIMARY first) on which `row` collides with a stored row"""
        for kname, cols in self.uniques:
            if any(row[c] is None for c in cols):
                continue
            lst = self.index(cols).get(self.key_of(row, cols))
            if lst:
                for r in lst:
                    if r is not exclude:
                        return kname, r
        return None

    # -- mutations (undo-logged) ----------------------------------------------------------------------
    def insert(self, row: dict, undo: Optional[list]):
        self.rows[id(row)] = row
        self._ix_add(row)
        self._sorted = None
        if undo is not None:
            undo.append(('i', self, row))

    def delete(self, row: dict, undo: Optional[list]):
        del self.rows[id(row)]
        self._ix_remove(row)
        self._sorted = None
        if undo is not None:
            undo.append(('d', self, row))

    def update(self, row: dict, new: dict, undo: Optional[list]):
        """apply {col: value} to a stored row"""
        old = {c: row[c] for c in new}
        touched_ix = [cols for cols in self.indexes if any(c in new for c in cols)]
        oldkeys = [(cols, self.key_of(row, cols)) for cols in touched_ix]
        row.update(new)
        for cols, k in oldkeys:
            nk = self.key_of(row, cols)
            if nk != k:
                ix = self.indexes[cols]
                lst = ix.get(k)
                if lst is not None:
                    for i, r in enumerate(lst):
                        if r is row:
                            del lst[i]
                            break
                    if not lst:
                        del ix[k]
                ix.setdefault(nk, []).append(row)
        if self.pk and any(c in new for c in self.pk):
            self._sorted = None
        if undo is not None:
            undo.append(('u', self, row, old))

    # -- snapshot -------------------------------------------------------------------------------------
    def dump_rows(self) -> List[dict]:
        return [dict(r) for r in self.scan()]

    def load_rows(self, rows: List[dict], auto_inc: int):
        self.rows = {}
        for r in rows:
            r = dict(r)
            self.rows[id(r)] = r
        self.auto_inc = auto_inc
        self._sorted = None
        keep = list(self.indexes)
        self.indexes = {}
        for cols in keep:
            self.index(cols)


def undo_to(undo: list, mark: int):
    """revert log entries above `mark` (newest first)"""
    while len(undo) > mark:
        e = undo.pop()
        k = e[0]
        t: Table = e[1]
        if k == 'i':
            t.delete(e[2], None)
        elif k == 'd':
            t.insert(e[2], None)
        else:
            t.update(e[2], e[3], None)

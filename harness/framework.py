"""Common machinery of every property check (DESIGN.md §2.1).

A property module `harness/props/cXX.py` defines `PROP = SomeProp()` where SomeProp subclasses `Prop`.
`run(PROP, tier, seed)` does: regenerate (T) -> prove (lake build + axiom audit + source grep) ->
correspond (C: real code vs Lean driver) -> oracle on the real outputs -> decide -> evidence.
"""
from __future__ import annotations

import fcntl
import hashlib
import json
import os
import random
import re
import subprocess
import sys
import time
import traceback
from typing import Any, Dict, Iterable, List, Optional, Tuple

HERE = os.path.dirname(os.path.abspath(__file__))
VERIF = os.path.dirname(HERE)
LEAN = os.path.join(VERIF, 'lean')
ALLOWED_AXIOMS = {'propext', 'Classical.choice', 'Quot.sound'}
FORBIDDEN = re.compile(r'\bsorry\b|\badmit\b|^\s*axiom\s|native_decide|bv_decide|implemented_by|\bunsafe\s|maxHeartbeats\s+0\b', re.M)

GLOBAL_TRUSTED = [
    'Lean 4.33.0 kernel (thorough tier re-checks the .olean files with leanchecker)',
    'axioms allowed in property theorems: propext, Classical.choice, Quot.sound (audited with #print axioms on every run)',
    'CPython 3.12 semantics of the code under test',
    'harness/loader.py import shims (real repo source, third-party packages stubbed)',
]


def repo_root() -> str:
    return os.environ.get('HAIL_VERIF_REPO', '/repo')


class MachineryError(Exception):
    """The check itself could not run (exit 2, never a VIOLATION)."""


class TieBroken(Exception):
    """A translator could not re-derive the model from the source (goes to the failing-input search)."""


class Prop:
    id: str = 'C00'
    title: str = ''
    lean_props: List[str] = []       # modules holding the property theorems, e.g. ['HailVerif.Props.C19']
    driver: Optional[str] = None     # e.g. 'Driver/C19.lean' (relative to lean/)
    trusted: List[str] = []
    assumptions: List[str] = []
    rule: str = ''
    level: str = 'proof'
    engine: str = 'lean-proof'
    technique: str = 'Lean 4 theorem about an executable model + differential correspondence with the real code'
    level_text: str = ''
    level_note: str = ''
    design_ref: str = 'DESIGN.md §4'
    not_claimed: Optional[str] = None
    # number of generated cases per tier
    budget = {'quick': 2000, 'thorough': 50000}
    search_budget = {'quick': 5000, 'thorough': 100000}

    # ---- T tie -------------------------------------------------------------------------------
    def generate(self, repo: str) -> List[str]:
        """Re-emit Generated/*.lean from the working tree. Return notes for the evidence. Raise TieBroken."""
        return []

    # ---- C tie -------------------------------------------------------------------------------
    def setup(self, repo: str) -> None:
        """import the real code (through harness.loader)"""

    def corpus(self) -> List[Any]:
        d = os.path.join(VERIF, 'corpus', self.id.lower())
        out = []
        if os.path.isdir(d):
            for fn in sorted(os.listdir(d)):
                if fn.endswith('.json'):
                    with open(os.path.join(d, fn)) as f:
                        out.append(json.load(f)['case'])
        return out

    def cases(self, rng: random.Random, n: int, tier: str) -> Iterable[Any]:
        return []

    def search_cases(self, rng: random.Random, n: int, hint: Optional[Any]) -> Iterable[Any]:
        """enlarged / mismatch-directed stream for the failing-input search; default: more of the same"""
        return self.cases(rng, n, 'thorough')

    def model_lines(self, case: Any) -> List[str]:
        return []

    def impl(self, case: Any) -> List[str]:
        """Run the real code; one canonical output line per model line."""
        return []

    def oracle(self, case: Any, impl_out: List[str]) -> Optional[str]:
        """The property, executably, on the implementation's output. None = holds, else a message."""
        return None

    def classify(self, case: Any, impl_out: List[str]) -> Tuple[Optional[str], List[str]]:
        """(non-triviality key or None if trivial, distribution tags)"""
        return (json.dumps(case, sort_keys=True), [])

    def finding_key(self, case: Any, msg: str) -> str:
        return json.dumps(case, sort_keys=True)

    def shrink(self, case: Any, fails) -> Any:
        return case

    def extra_checks(self, repo: str, tier: str, rng: random.Random) -> List[Tuple[Any, str]]:
        """additional oracle-style checks that do not fit case/impl/model; return [(case, message)] failures"""
        return []

    def extra_coverage(self) -> Dict[str, Any]:
        return {}


# --------------------------------------------------------------------------------------------------
# Lean side


def _strip_comments(src: str) -> str:
    # remove /- ... -/ (nested) and -- ... comments
    out = []
    i = 0
    depth = 0
    n = len(src)
    while i < n:
        if src.startswith('/-', i):
            depth += 1
            i += 2
        elif depth and src.startswith('-/', i):
            depth -= 1
            i += 2
        elif depth:
            i += 1
        elif src.startswith('--', i):
            while i < n and src[i] != '\n':
                i += 1
        else:
            out.append(src[i])
            i += 1
    return ''.join(out)


def _module_path(mod: str) -> str:
    return os.path.join(LEAN, *mod.split('.')) + '.lean'


def transitive_sources(mods: List[str]) -> List[str]:
    seen = {}
    todo = list(mods)
    while todo:
        m = todo.pop()
        if m in seen:
            continue
        p = _module_path(m)
        if not os.path.exists(p):
            continue  # Mathlib / core
        seen[m] = p
        with open(p, encoding='utf-8') as f:
            for line in f:
                mm = re.match(r'\s*(?:public\s+)?import\s+(?:all\s+)?([\w.]+)', line)
                if mm:
                    todo.append(mm.group(1))
    return sorted(seen.values())


def theorem_names(mod: str) -> Tuple[List[str], int]:
    """fully qualified names of the theorems declared in a Props module + number of `example`s"""
    src = _strip_comments(open(_module_path(mod), encoding='utf-8').read())
    ns: List[str] = []
    names = []
    examples = 0
    for line in src.splitlines():
        m = re.match(r'\s*namespace\s+([\w.]+)', line)
        if m:
            ns.append(m.group(1))
            continue
        m = re.match(r'\s*end\s+([\w.]+)\s*$', line)
        if m and ns and ns[-1] == m.group(1):
            ns.pop()
            continue
        m = re.match(r'\s*(?:@\[[^\]]*\]\s*)?(?:private\s+|protected\s+)?(theorem|lemma)\s+([\w.\']+)', line)
        if m:
            if re.match(r'\s*(?:@\[[^\]]*\]\s*)?private', line):
                continue
            names.append('.'.join(ns + [m.group(2)]))
            continue
        if re.match(r'\s*example\b', line):
            examples += 1
    return names, examples


class LakeLock:
    def __enter__(self):
        self.f = open(os.path.join(LEAN, '.verif-lock'), 'w')
        fcntl.flock(self.f, fcntl.LOCK_EX)
        return self

    def __exit__(self, *a):
        fcntl.flock(self.f, fcntl.LOCK_UN)
        self.f.close()


def write_if_changed(path: str, content: str) -> bool:
    try:
        if open(path, encoding='utf-8').read() == content:
            return False
    except FileNotFoundError:
        pass
    os.makedirs(os.path.dirname(path), exist_ok=True)
    tmp = path + '.tmp%d' % os.getpid()
    with open(tmp, 'w', encoding='utf-8') as f:
        f.write(content)
    os.replace(tmp, path)
    return True


def prove(prop: Prop, tier: str) -> Dict[str, Any]:
    """lake build + audit. Returns dict(ok, obligations, discharged, failures[], axioms{}, log)."""
    res: Dict[str, Any] = {'ok': True, 'failures': [], 'axioms': {}, 'log': ''}
    thms: List[str] = []
    n_examples = 0
    for m in prop.lean_props:
        t, e = theorem_names(m)
        thms += t
        n_examples += e
    res['theorems'] = thms
    res['obligations'] = len(thms) + n_examples
    # source grep
    for p in transitive_sources(prop.lean_props):
        src = _strip_comments(open(p, encoding='utf-8').read())
        mm = FORBIDDEN.search(src)
        if mm:
            res['ok'] = False
            res['failures'].append(f'forbidden token {mm.group(0).strip()!r} in {os.path.relpath(p, VERIF)}')
    with LakeLock():
        cmd = ['lake', 'build'] + prop.lean_props
        p = subprocess.run(cmd, cwd=LEAN, capture_output=True, text=True)
        res['log'] = (p.stdout + p.stderr)[-6000:]
        if p.returncode != 0:
            res['ok'] = False
            failed = re.findall(r'error: (HailVerif/[\w/]+\.lean):(\d+):', p.stdout + p.stderr)
            res['failures'].append('lake build failed: ' + ', '.join(sorted({f'{a}:{b}' for a, b in failed})[:8]))
            res['discharged'] = 0
            return res
        if tier == 'thorough':
            pc = subprocess.run(['lake', 'env', 'leanchecker'] + prop.lean_props, cwd=LEAN, capture_output=True, text=True)
            res['leanchecker'] = pc.returncode
            if pc.returncode != 0:
                res['ok'] = False
                res['failures'].append('leanchecker rejected: ' + (pc.stdout + pc.stderr)[-400:])
    # audit (always printed, independent of lake's cache)
    audit = os.path.join(LEAN, 'Audit', f'{prop.id}.lean')
    body = ''.join(f'import {m}\n' for m in prop.lean_props) + ''.join(f'#print axioms {t}\n' for t in thms)
    write_if_changed(audit, body)
    p = subprocess.run(['lake', 'env', 'lean', audit], cwd=LEAN, capture_output=True, text=True)
    out = p.stdout + p.stderr
    discharged = 0
    for t in thms:
        m = re.search(r"'" + re.escape(t) + r"' (does not depend on any axioms|depends on axioms: \[([^\]]*)\])", out, re.S)
        if not m:
            res['ok'] = False
            res['failures'].append(f'audit: no axiom report for {t}')
            continue
        axs = set() if m.group(2) is None else {a.strip() for a in m.group(2).replace('\n', ' ').split(',') if a.strip()}
        res['axioms'][t] = sorted(axs)
        if axs - ALLOWED_AXIOMS:
            res['ok'] = False
            res['failures'].append(f'audit: {t} depends on {sorted(axs - ALLOWED_AXIOMS)}')
        else:
            discharged += 1
    res['discharged'] = discharged + (n_examples if p.returncode == 0 else 0)
    if p.returncode != 0:
        res['ok'] = False
        res['failures'].append('audit file did not elaborate: ' + out[-300:])
    return res


def run_driver(driver: str, lines: List[str]) -> List[str]:
    if not lines:
        return []
    p = subprocess.run(['lake', 'env', 'lean', '--run', driver], cwd=LEAN, input='\n'.join(lines) + '\n',
                       capture_output=True, text=True)
    if p.returncode != 0:
        raise MachineryError(f'driver {driver} failed: {p.stderr[-800:]} {p.stdout[-300:]}')
    out = p.stdout.split('\n')
    if out and out[-1] == '':
        out.pop()
    return out


# --------------------------------------------------------------------------------------------------
# known findings


def load_known() -> List[Dict[str, Any]]:
    p = os.path.join(VERIF, 'known_findings.json')
    if not os.path.exists(p):
        return []
    return json.load(open(p)).get('entries', [])


def case_hash(case: Any) -> str:
    return hashlib.sha1(json.dumps(case, sort_keys=True, default=str).encode()).hexdigest()[:12]


def write_replay(prop: Prop, case: Any, msg: str, extra: Dict[str, Any]) -> str:
    d = os.path.join(VERIF, 'replays', prop.id.lower())
    os.makedirs(d, exist_ok=True)
    path = os.path.join(d, case_hash([case, msg[:80]]) + '.json')
    with open(path, 'w') as f:
        json.dump({'property': prop.id, 'case': case, 'message': msg, **extra}, f, indent=1, default=str)
    return os.path.relpath(path, VERIF)


# --------------------------------------------------------------------------------------------------


def run(prop: Prop, tier: str, seed: int) -> int:
    t0 = time.time()
    repo = repo_root()
    rng = random.Random(seed * 1000003 + int(hashlib.sha1(prop.id.encode()).hexdigest()[:6], 16))
    notes: List[str] = []
    broken: List[str] = []          # proof obligations / ties / correspondences that no longer check
    failures: List[Tuple[Any, str]] = []   # oracle failures on the real code (case, msg)
    mismatch_hint = None

    # 1. regenerate
    tie_notes: List[str] = []
    try:
        tie_notes = prop.generate(repo) or []
    except TieBroken as e:
        broken.append(f'translator tie: {e}')
    notes += tie_notes

    # 2. prove
    pr = prove(prop, tier) if prop.lean_props else {'ok': True, 'obligations': 0, 'discharged': 0, 'failures': [], 'axioms': {}, 'theorems': []}
    if not pr['ok']:
        broken += [f'proof: {f}' for f in pr['failures']]

    # 3/4. correspond + oracle
    try:
        prop.setup(repo)
    except Exception as e:  # the anchored code no longer imports: that is a broken tie, searched below
        broken.append(f'setup: {type(e).__name__}: {e}')
        traceback.print_exc()
    n = prop.budget[tier]
    evaluations = 0
    distinct = set()
    dist: Dict[str, int] = {}
    samples: List[Any] = []
    mismatches = 0
    impl_errors = 0

    def eval_cases(cases: List[Any], with_model: bool):
        nonlocal evaluations, mismatches, mismatch_hint, impl_errors
        impl_outs = []
        for c in cases:
            try:
                o = prop.impl(c)
            except Exception as e:
                o = [f'IMPL-EXC {type(e).__name__}: {e}']
                impl_errors += 1
            impl_outs.append(o)
        model_outs: List[Optional[List[str]]] = [None] * len(cases)
        if with_model and prop.driver and not any(b.startswith('proof: lake build') for b in broken):
            lines: List[str] = []
            spans = []
            for c in cases:
                ml = prop.model_lines(c)
                spans.append((len(lines), len(lines) + len(ml)))
                lines += ml
            try:
                mo = run_driver(prop.driver, lines)
                if len(mo) != len(lines):
                    raise MachineryError(f'driver answered {len(mo)} lines for {len(lines)}')
                model_outs = [mo[a:b] for a, b in spans]
            except MachineryError as e:
                if not broken:
                    raise
                notes.append(f'model driver unavailable: {e}')
        for c, io, mo in zip(cases, impl_outs, model_outs):
            evaluations += 1
            key, tags = prop.classify(c, io)
            if key is not None:
                distinct.add(key)
            for t in tags:
                dist[t] = dist.get(t, 0) + 1
            if len(samples) < 5 and key is not None:
                samples.append({'case': c, 'impl': io[:6], 'model': (mo or [])[:6]})
            msg = prop.oracle(c, io)
            if msg:
                failures.append((c, msg))
            if mo is not None and mo != io:
                mismatches += 1
                if mismatch_hint is None:
                    mismatch_hint = c
                    d = next((i for i, (a, b) in enumerate(zip(io, mo)) if a != b), min(len(io), len(mo)))
                    broken.append(f'correspondence: model and implementation differ on case {json.dumps(c)[:300]} at line {d}: '
                                  f'impl={io[d] if d < len(io) else None!r} model={mo[d] if d < len(mo) else None!r}')

    setup_ok = not any(b.startswith('setup:') for b in broken)
    if setup_ok:
        cs = list(prop.corpus()) + list(prop.cases(rng, n, tier))
        eval_cases(cs, True)
        try:
            failures += prop.extra_checks(repo, tier, rng)
        except MachineryError:
            raise
        except Exception as e:
            broken.append(f'extra checks raised {type(e).__name__}: {e}')
            traceback.print_exc()

    # 5. decide
    searched = 0
    if broken and not failures and setup_ok:
        sc = list(prop.search_cases(rng, prop.search_budget[tier], mismatch_hint))
        searched = len(sc)
        before = evaluations
        eval_cases(sc, False)
        notes.append(f'failing-input search ran {evaluations - before} extra cases')

    known = [e for e in load_known() if e.get('property') == prop.id and e.get('status') == 'open']
    known_hit = {}
    new_fail: List[Tuple[Any, str]] = []
    for c, msg in failures:
        k = prop.finding_key(c, msg)
        e = next((e for e in known if e['key'] == k), None)
        if e is not None:
            known_hit[k] = e
        else:
            new_fail.append((c, msg))
    for k, e in known_hit.items():
        print(f"KNOWN-FINDING: property={prop.id} {e['what']}")
    rc = 0
    violations = 0
    if new_fail:
        c, msg = new_fail[0]
        try:
            def fails(c2):
                try:
                    m2 = prop.oracle(c2, prop.impl(c2))
                except Exception:
                    return False
                return bool(m2) and prop.finding_key(c2, m2) not in known_hit and not any(e['key'] == prop.finding_key(c2, m2) for e in known)
            c_small = prop.shrink(c, fails)
            m_small = prop.oracle(c_small, prop.impl(c_small)) or msg
            c, msg = c_small, m_small
        except Exception:
            pass
        path = write_replay(prop, c, msg, {'kind': 'failing-input', 'broken': broken, 'seed': seed, 'tier': tier})
        print(f'VIOLATION property={prop.id} replay={path}')
        print(f'  {msg}')
        rc = 1
        violations = len({prop.finding_key(c, m) for c, m in new_fail})
    elif broken:
        path = write_replay(prop, mismatch_hint, 'no failing input found; these no longer check: ' + ' | '.join(broken),
                            {'kind': 'unchecked-obligation', 'broken': broken, 'seed': seed, 'tier': tier, 'searched': searched})
        print(f'VIOLATION property={prop.id} replay={path} no-failing-input-found')
        for b in broken:
            print('  ' + b[:600])
        rc = 1
        violations = 1

    # 6. evidence
    cov: Dict[str, Any] = {
        'obligations': max(pr['obligations'], 0),
        'discharged': pr.get('discharged', 0),
        'checker_cmd': f"cd lean && lake build {' '.join(prop.lean_props)} && lake env lean Audit/{prop.id}.lean"
                       + (' && lake env leanchecker ' + ' '.join(prop.lean_props) if tier == 'thorough' else ''),
        'trusted_base': GLOBAL_TRUSTED + list(prop.trusted),
        'theorems': pr.get('theorems', []),
        'axioms': pr.get('axioms', {}),
        'evaluations': evaluations,
        'distinct_nontrivial': len(distinct),
        'rule': prop.rule,
        'samples': samples or [{'note': 'no correspondence cases (translator-only tie)'}],
        'distribution': dist,
        'correspondence_mismatches': mismatches,
        'impl_exceptions': impl_errors,
        'tie_notes': notes,
        'broken': broken,
        'known_findings_hit': [e['what'] for e in known_hit.values()],
        'repo': repo,
    }
    cov.update(prop.extra_coverage())
    if cov['obligations'] < 1:
        cov.pop('obligations'); cov.pop('discharged')
    ev = {
        'property_id': prop.id, 'tier': tier, 'seed': seed, 'level': prop.level, 'coverage': cov,
        'assumptions': list(prop.assumptions), 'wall_s': round(time.time() - t0, 2), 'violations': violations,
    }
    os.makedirs(os.path.join(VERIF, 'evidence'), exist_ok=True)
    with open(os.path.join(VERIF, 'evidence', f'{prop.id}.json'), 'w') as f:
        json.dump(ev, f, indent=1, default=str)
    if rc == 0:
        print(f'OK property={prop.id} tier={tier} seed={seed} obligations={pr["obligations"]} discharged={pr.get("discharged", 0)} '
              f'cases={evaluations} distinct={len(distinct)} wall={ev["wall_s"]}s')
    return rc


def replay(prop: Prop, path: str) -> int:
    data = json.load(open(path))
    prop.setup(repo_root())
    c = data['case']
    if c is None:
        print('replay names an unchecked obligation, no input:', data['message'])
        return 1
    out = prop.impl(c)
    msg = prop.oracle(c, out)
    print('case:', json.dumps(c)[:2000])
    print('impl:', out[:20])
    print('oracle:', msg or 'holds')
    return 1 if msg else 0


def generic_shrink_list(seq: List[Any], fails) -> List[Any]:
    """ddmin-lite on a list"""
    cur = list(seq)
    changed = True
    while changed and len(cur) > 1:
        changed = False
        for i in range(len(cur)):
            cand = cur[:i] + cur[i + 1:]
            if fails(cand):
                cur = cand
                changed = True
                break
    return cur

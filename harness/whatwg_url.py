"""A pointer-and-state transcription of the WHATWG URL Standard "basic URL parser" (https://url.spec.whatwg.org/#concept-basic-url-parser)
restricted to what determines scheme / host / port, plus the Fetch rule for redirects ("If locationURL's scheme is not an HTTP(S)
scheme, then return a network error").  Used by C29 as the executable "browser" of the oracle.  It is written state by state, as the
standard is, and is deliberately NOT derived from the functional Lean model `HailVerif.NextUrl.browserDest` — the two are compared on
every run.  Neither has been compared with an actual browser (none exists in the sandbox).

destination(location, base_host) -> ('host', scheme, host, port|None) | ('blocked', scheme) | ('failure',) | ('unmodelled', raw_host)
"""

SPECIAL = {'ftp': 21, 'file': None, 'http': 80, 'https': 443, 'ws': 80, 'wss': 443}
C0_SPACE = ''.join(chr(i) for i in range(0x21))
ALPHA = 'abcdefghijklmnopqrstuvwxyzABCDEFGHIJKLMNOPQRSTUVWXYZ'
DIGITS = '0123456789'
HEX = DIGITS + 'abcdefABCDEF'
FORBIDDEN_HOST = '\x00\t\n\r #/:<>?@[\\]^|'
FORBIDDEN_DOMAIN = FORBIDDEN_HOST + ''.join(chr(i) for i in range(0x20)) + '%\x7f'
EOF = None


class Failure(Exception):
    pass


class Unmodelled(Exception):
    def __init__(self, raw):
        self.raw = raw


def ascii_lower(s):
    return ''.join(chr(ord(c) + 32) if 'A' <= c <= 'Z' else c for c in s)


def percent_decode_ascii(s):
    out = []
    i = 0
    while i < len(s):
        c = s[i]
        if c == '%' and i + 2 < len(s) + 0 and s[i + 1] in HEX and s[i + 2] in HEX:
            b = int(s[i + 1:i + 3], 16)
            if b >= 0x80:
                raise Unmodelled(s)
            out.append(chr(b))
            i += 3
        else:
            out.append(c)
            i += 1
    return ''.join(out)


def ipv4_number(s):
    if s == '':
        return None
    r = 10
    if len(s) >= 2 and s[:2] in ('0x', '0X'):
        s = s[2:]
        r = 16
    elif len(s) >= 2 and s[0] == '0':
        s = s[1:]
        r = 8
    if s == '':
        return 0
    allowed = {10: DIGITS, 8: '01234567', 16: HEX}[r]
    if any(c not in allowed for c in s):
        return None
    return int(s, r)


def ends_in_a_number(s):
    parts = s.split('.')
    if parts[-1] == '':
        if len(parts) == 1:
            return False
        parts.pop()
    last = parts[-1]
    if last != '' and all(c in DIGITS for c in last):
        return True
    return ipv4_number(last) is not None


def ipv4_parse(s):
    parts = s.split('.')
    if parts[-1] == '' and len(parts) > 1:
        parts.pop()
    if len(parts) > 4:
        raise Failure()
    nums = []
    for p in parts:
        n = ipv4_number(p)
        if n is None:
            raise Failure()
        nums.append(n)
    if any(n > 255 for n in nums[:-1]):
        raise Failure()
    if nums[-1] >= 256 ** (5 - len(nums)):
        raise Failure()
    ipv4 = nums[-1]
    for counter, n in enumerate(nums[:-1]):
        ipv4 += n * 256 ** (3 - counter)
    return '.'.join(str((ipv4 >> sh) & 255) for sh in (24, 16, 8, 0))


def host_parse(inp):
    """special scheme (isOpaque false)"""
    if inp.startswith('['):
        if not inp.endswith(']'):
            raise Failure()
        raise Unmodelled(inp)           # IPv6 parser not transcribed
    if any(ord(c) >= 0x80 for c in inp):
        raise Unmodelled(inp)           # UTF-8 percent-decode + IDNA (UTS 46) not transcribed
    domain = percent_decode_ascii(inp)
    if any(ascii_lower(lbl).startswith('xn--') for lbl in domain.split('.')):
        raise Unmodelled(inp)           # punycode validation not transcribed
    ascii_domain = ascii_lower(domain)   # the standard's ASCII fast path of "domain to ASCII"
    if ascii_domain == '':
        raise Failure()
    if any(c in FORBIDDEN_DOMAIN for c in ascii_domain):
        raise Failure()
    if ends_in_a_number(ascii_domain):
        return ipv4_parse(ascii_domain)
    return ascii_domain


def basic_parse(inp, base_scheme, base_host):
    """returns (scheme, host, port) for special non-file results, ('blocked', scheme) otherwise"""
    # strip leading/trailing C0 control or space; remove tab/newline
    inp = inp.strip(C0_SPACE)
    inp = inp.replace('\t', '').replace('\n', '').replace('\r', '')
    n = len(inp)
    state = 'scheme start'
    buf = ''
    at_seen = False
    inside_brackets = False
    scheme = ''
    host = None
    port = None
    p = 0

    def c_at(i):
        return inp[i] if 0 <= i < n else EOF

    while True:
        c = c_at(p)
        if state == 'scheme start':
            if c is not EOF and c in ALPHA:
                buf += ascii_lower(c)
                state = 'scheme'
            else:
                state = 'no scheme'
                p -= 1
        elif state == 'scheme':
            if c is not EOF and (c in ALPHA or c in DIGITS or c in '+-.'):
                buf += ascii_lower(c)
            elif c == ':':
                scheme = buf
                buf = ''
                if scheme not in ('http', 'https'):
                    # file state / other special schemes / non-special schemes: whatever the rest parses to (or failure), the
                    # result is not an HTTP(S) URL, which HTTP-redirect fetch turns into a network error
                    return ('blocked', scheme)
                elif scheme in SPECIAL and base_scheme == scheme:
                    state = 'special relative or authority'
                else:
                    state = 'special authority slashes'
            else:
                buf = ''
                state = 'no scheme'
                p = -1
        elif state == 'no scheme':
            # base is https://base_host/... : non-opaque path, not file
            state = 'relative'
            p -= 1
        elif state == 'special relative or authority':
            if c == '/' and c_at(p + 1) == '/':
                state = 'special authority ignore slashes'
                p += 1
            else:
                state = 'relative'
                p -= 1
        elif state == 'relative':
            scheme = base_scheme
            if c == '/':
                state = 'relative slash'
            elif scheme in SPECIAL and c == '\\':
                state = 'relative slash'
            else:
                return (scheme, base_host, None)     # host, port copied from base (base port is default)
        elif state == 'relative slash':
            if scheme in SPECIAL and (c == '/' or c == '\\'):
                state = 'special authority ignore slashes'
            elif c == '/':
                state = 'authority'
            else:
                return (scheme, base_host, None)
        elif state == 'special authority slashes':
            if c == '/' and c_at(p + 1) == '/':
                state = 'special authority ignore slashes'
                p += 1
            else:
                state = 'special authority ignore slashes'
                p -= 1
        elif state == 'special authority ignore slashes':
            if c != '/' and c != '\\':
                state = 'authority'
                p -= 1
        elif state == 'authority':
            if c == '@':
                at_seen = True
                buf = ''     # credentials are not needed here
            elif c is EOF or c in '/?#' or (scheme in SPECIAL and c == '\\'):
                if at_seen and buf == '':
                    raise Failure()
                p -= len(buf) + 1
                buf = ''
                state = 'host'
            else:
                buf += c
        elif state == 'host':
            if c == ':' and not inside_brackets:
                if buf == '':
                    raise Failure()
                host = host_parse(buf)
                buf = ''
                state = 'port'
            elif c is EOF or c in '/?#' or (scheme in SPECIAL and c == '\\'):
                p -= 1
                if scheme in SPECIAL and buf == '':
                    raise Failure()
                host = host_parse(buf)
                return (scheme, host, port)
            else:
                if c == '[':
                    inside_brackets = True
                if c == ']':
                    inside_brackets = False
                buf += c
        elif state == 'port':
            if c is not EOF and c in DIGITS:
                buf += c
            elif c is EOF or c in '/?#' or (scheme in SPECIAL and c == '\\'):
                if buf != '':
                    pt = int(buf)
                    if pt > 65535:
                        raise Failure()
                    port = None if SPECIAL.get(scheme) == pt else pt
                return (scheme, host, port)
            else:
                raise Failure()
        else:
            raise AssertionError(state)
        if c is EOF and p >= n:
            # the standard's loop ends after processing EOF
            raise AssertionError('fell off the input in state ' + state)
        p += 1


def destination(location, base_host, base_scheme='https'):
    try:
        r = basic_parse(location, base_scheme, base_host)
    except Failure:
        return ('failure',)
    except Unmodelled as u:
        return ('unmodelled', u.raw)
    if r[0] == 'blocked':
        return r
    scheme, host, port = r
    if scheme not in ('http', 'https'):
        return ('blocked', scheme)
    return ('host', scheme, host, port)

"""Functional shim: orjson -> json (bytes out). Used only where the byte size / JSON text matters, not speed."""
import json

OPT_INDENT_2 = 1
OPT_SORT_KEYS = 2
JSONDecodeError = json.JSONDecodeError


def dumps(obj, default=None, option=None):
    kw = {}
    if option and option & OPT_SORT_KEYS:
        kw['sort_keys'] = True
    if option and option & OPT_INDENT_2:
        kw['indent'] = 2
    else:
        kw['separators'] = (',', ':')
    return json.dumps(obj, default=default, ensure_ascii=False, **kw).encode('utf-8')


def loads(b):
    if isinstance(b, (bytes, bytearray, memoryview)):
        b = bytes(b).decode('utf-8')
    return json.loads(b)

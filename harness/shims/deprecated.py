"""Functional shim of the `Deprecated` package: `@deprecated(...)` / `@deprecated` is the identity decorator
(the real one only emits a DeprecationWarning before calling the function)."""


def deprecated(*args, **kwargs):
    if len(args) == 1 and not kwargs and callable(args[0]):
        return args[0]

    def deco(f):
        return f

    return deco

"""Functional shim of the `decorator` package (5.x behaviour needed by hailtop.hail_decorator / hail.typecheck).

`decorator(caller)` turns `caller(f, *args, **kwargs)` into a signature-preserving decorator: the wrapper binds the
call to f's signature, applies defaults and passes positional-or-keyword parameters positionally (decorator 5
`fix`, kwsyntax=False)."""
import functools
import inspect

__version__ = '5.1.1-verif-shim'


def decorate(func, caller, extras=(), kwsyntax=False):
    sig = inspect.signature(func)

    def _fix(args, kw):
        ba = sig.bind(*args, **kw)
        ba.apply_defaults()
        return ba.args, ba.kwargs

    if inspect.iscoroutinefunction(caller):
        async def fun(*args, **kw):
            if not kwsyntax:
                args, kw = _fix(args, kw)
            return await caller(func, *(extras + args), **kw)
    elif inspect.isgeneratorfunction(caller):
        def fun(*args, **kw):
            if not kwsyntax:
                args, kw = _fix(args, kw)
            for res in caller(func, *(extras + args), **kw):
                yield res
    else:
        def fun(*args, **kw):
            if not kwsyntax:
                args, kw = _fix(args, kw)
            return caller(func, *(extras + args), **kw)
    fun.__name__ = func.__name__
    fun.__doc__ = func.__doc__
    fun.__wrapped__ = func
    fun.__signature__ = sig
    fun.__qualname__ = func.__qualname__
    try:
        fun.__defaults__ = func.__defaults__
    except AttributeError:
        pass
    try:
        fun.__kwdefaults__ = func.__kwdefaults__
    except AttributeError:
        pass
    try:
        fun.__annotations__ = func.__annotations__
    except AttributeError:
        pass
    try:
        fun.__module__ = func.__module__
    except AttributeError:
        pass
    try:
        fun.__dict__.update(func.__dict__)
    except AttributeError:
        pass
    return fun


def decorator(caller, _func=None, kwsyntax=False):
    if _func is not None:
        return decorate(_func, caller, (), kwsyntax)

    def dec(func):
        return decorate(func, caller, (), kwsyntax)

    dec.__name__ = getattr(caller, '__name__', 'decorator')
    dec.__doc__ = getattr(caller, '__doc__', None)
    dec.__wrapped__ = caller
    return dec


def contextmanager(func):
    import contextlib
    return contextlib.contextmanager(func)

"""Exception classes of the parsimonious shim (same names and hierarchy as parsimonious.exceptions)."""


class ParsimoniousError(Exception):
    pass


class ParseError(ParsimoniousError):
    def __init__(self, text, pos=-1, expr=None):
        super().__init__(text, pos, expr)
        self.text = text
        self.pos = pos
        self.expr = expr

    def line(self):
        return self.text.count('\n', 0, self.pos) + 1

    def column(self):
        try:
            return self.pos - self.text.rindex('\n', 0, self.pos)
        except ValueError:
            return self.pos + 1

    def __str__(self):
        name = getattr(self.expr, 'name', '') or type(self.expr).__name__
        return "Rule '%s' didn't match at '%s' (line %s, column %s)." % (
            name, self.text[self.pos:self.pos + 20], self.line(), self.column())


class LeftRecursionError(ParseError):
    pass


class IncompleteParseError(ParseError):
    def __str__(self):
        name = getattr(self.expr, 'name', '') or type(self.expr).__name__
        return ("Rule '%s' matched in its entirety, but it didn't consume all the text. The non-matching portion of "
                "the text begins with '%s' (line %s, column %s)." % (
                    name, self.text[self.pos:self.pos + 20], self.line(), self.column()))


class VisitationError(ParsimoniousError):
    def __init__(self, exc, exc_class, node):
        self.original_class = exc_class
        super().__init__('%s: %s\n\nParse tree:\n%r' % (exc_class.__name__, exc, node))


class BadGrammar(ParsimoniousError):
    pass


class UndefinedLabel(BadGrammar):
    def __init__(self, label):
        self.label = label
        super().__init__(label)

    def __str__(self):
        return 'The label "%s" was never defined.' % self.label

"""Functional shim of the `parsimonious` package (PEG parser) — only what hail/expr/type_parsing.py uses.

Implements parsimonious' documented grammar syntax with its documented semantics:

    rules        name = expression            (first rule is the default rule; `#` comments)
    sequence     a b c                        ordered choice  a / b / c        grouping ( ... )
    quantifiers  e* e+ e?                     lookahead &e  !e
    literals     "text" 'text' (optional r/u/b prefixes, evaluated with ast.literal_eval like parsimonious does)
    regexes      ~"pattern"flags              flags from [ilmsuxa]; matched with re.match at the current position
    references   rule_name                    (resolved lazily, so forward and recursive references work)

Parse trees have parsimonious' shape: a Sequence node has one child per element, a OneOf node exactly one child (the
alternative that matched), Optional zero or one, ZeroOrMore/OneOrMore one per iteration, Literal/Regex/lookahead nodes are
leaves, a rule reference yields the referenced rule's own node (no wrapper).  `node.expr_name` is the rule name for the
top expression of a rule and '' for anonymous sub-expressions.  Packrat memoisation per (expression, position).

Difference from parsimonious >= 0.10 (listed as an assumption of C31): regexes are matched with the standard library `re`;
parsimonious 0.10+ uses the third-party `regex` package, which is not available offline.
"""
import ast
import re

from .exceptions import (BadGrammar, IncompleteParseError, ParseError, UndefinedLabel,  # noqa: F401
                         VisitationError)

__version__ = '0.11.0-verif-shim'


# ------------------------------------------------------------------------------------------------ nodes


class Node:
    __slots__ = ('expr', 'full_text', 'start', 'end', 'children')

    def __init__(self, expr, full_text, start, end, children=None):
        self.expr = expr
        self.full_text = full_text
        self.start = start
        self.end = end
        self.children = children or []

    @property
    def expr_name(self):
        return self.expr.name

    @property
    def text(self):
        return self.full_text[self.start:self.end]

    def __iter__(self):
        return iter(self.children)

    def __repr__(self):
        return f'<Node {self.expr_name or type(self.expr).__name__} {self.text!r}>'


class RegexNode(Node):
    __slots__ = ('match',)


# ------------------------------------------------------------------------------------------------ expressions


class Expression:
    def __init__(self, name=''):
        self.name = name

    def resolve(self, rules):
        return self

    def match_core(self, text, pos, cache, err):
        key = (id(self), pos)
        if key in cache:
            return cache[key]
        node = self._uncached(text, pos, cache, err)
        cache[key] = node
        if node is None and pos >= err[0]:
            if pos > err[0] or err[1] is None or (self.name and not err[1].name):
                err[0], err[1] = pos, self
        return node

    def match(self, text, pos=0):
        err = [-1, None]
        node = self.match_core(text, pos, {}, err)
        if node is None:
            raise ParseError(text, err[0], err[1])
        return node

    def parse(self, text, pos=0):
        node = self.match(text, pos)
        if node.end < len(text):
            raise IncompleteParseError(text, node.end, self)
        return node


class Literal(Expression):
    def __init__(self, literal, name=''):
        super().__init__(name)
        self.literal = literal

    def _uncached(self, text, pos, cache, err):
        if text.startswith(self.literal, pos):
            return Node(self, text, pos, pos + len(self.literal))
        return None


class Regex(Expression):
    def __init__(self, pattern, name='', flags=0):
        super().__init__(name)
        self.re = re.compile(pattern, flags)

    def _uncached(self, text, pos, cache, err):
        m = self.re.match(text, pos)
        if m is None:
            return None
        n = RegexNode(self, text, pos, pos + (m.end() - m.start()))
        n.match = m
        return n


class _Compound(Expression):
    def __init__(self, members, name=''):
        super().__init__(name)
        self.members = list(members)

    def resolve(self, rules):
        self.members = [m.resolve(rules) for m in self.members]
        return self


class Sequence(_Compound):
    def _uncached(self, text, pos, cache, err):
        p = pos
        children = []
        for m in self.members:
            node = m.match_core(text, p, cache, err)
            if node is None:
                return None
            children.append(node)
            p = node.end
        return Node(self, text, pos, p, children)


class OneOf(_Compound):
    def _uncached(self, text, pos, cache, err):
        for m in self.members:
            node = m.match_core(text, pos, cache, err)
            if node is not None:
                return Node(self, text, pos, node.end, [node])
        return None


class Lookahead(_Compound):
    def __init__(self, member, negative=False, name=''):
        super().__init__([member], name)
        self.negative = negative

    def _uncached(self, text, pos, cache, err):
        node = self.members[0].match_core(text, pos, cache, err)
        if (node is None) == self.negative:
            return Node(self, text, pos, pos)
        return None


class Quantifier(_Compound):
    def __init__(self, member, lo, hi, name=''):
        super().__init__([member], name)
        self.lo = lo
        self.hi = hi

    def _uncached(self, text, pos, cache, err):
        p = pos
        children = []
        while self.hi is None or len(children) < self.hi:
            node = self.members[0].match_core(text, p, cache, err)
            if node is None:
                break
            children.append(node)
            if node.end == p:   # parsimonious stops a zero-length repetition after one match
                break
            p = node.end
        if len(children) < self.lo:
            return None
        return Node(self, text, pos, p, children)


class LazyReference(Expression):
    def __init__(self, label):
        super().__init__('')
        self.label = label

    def resolve(self, rules):
        seen = set()
        target = self
        while isinstance(target, LazyReference):
            if target.label in seen:
                raise BadGrammar(f'circular reference {target.label}')
            seen.add(target.label)
            if target.label not in rules:
                raise UndefinedLabel(target.label)
            target = rules[target.label]
        return target


# ------------------------------------------------------------------------------------------------ grammar syntax

_TOKEN = re.compile(r'''
      (?P<ws>(?:[ \t\r\n]+|\#[^\r\n]*)+)
    | (?P<regex>~\s*[urbURB]*(?:"[^"\\]*(?:\\.[^"\\]*)*"|'[^'\\]*(?:\\.[^'\\]*)*')[ilmsuxaILMSUXA]*)
    | (?P<literal>[urbURB]*(?:"[^"\\]*(?:\\.[^"\\]*)*"|'[^'\\]*(?:\\.[^'\\]*)*'))
    | (?P<label>[a-zA-Z_][a-zA-Z_0-9]*)
    | (?P<op>[=/()*+?&!])
''', re.X | re.S)

_FLAGS = {'i': re.I, 'l': re.L, 'm': re.M, 's': re.S, 'u': re.U, 'x': re.X, 'a': re.A}


def _tokenize(src):
    pos = 0
    out = []
    while pos < len(src):
        m = _TOKEN.match(src, pos)
        if m is None:
            raise BadGrammar(f'cannot tokenize grammar at {src[pos:pos + 30]!r}')
        pos = m.end()
        if m.lastgroup != 'ws':
            out.append((m.lastgroup, m.group(m.lastgroup)))
    return out


class _GrammarParser:
    """rules = rule+ ; rule = label "=" ored ; ored = sequence ("/" sequence)* ; sequence = prefixed+ ;
    prefixed = ("&" | "!")? quantified ; quantified = atom ("*" | "+" | "?")? ; atom = label | literal | regex | "(" ored ")"."""

    def __init__(self, toks):
        self.toks = toks
        self.i = 0

    def peek(self, k=0):
        return self.toks[self.i + k] if self.i + k < len(self.toks) else (None, None)

    def take(self):
        t = self.toks[self.i]
        self.i += 1
        return t

    def at_rule_start(self):
        return self.peek()[0] == 'label' and self.peek(1) == ('op', '=')

    def rules(self):
        out = []
        while self.i < len(self.toks):
            if not self.at_rule_start():
                raise BadGrammar(f'expected a rule at token {self.peek()}')
            name = self.take()[1]
            self.take()
            expr = self.ored()
            if isinstance(expr, LazyReference):
                out.append((name, expr))
            else:
                expr.name = name
                out.append((name, expr))
        return out

    def ored(self):
        alts = [self.sequence()]
        while self.peek() == ('op', '/'):
            self.take()
            alts.append(self.sequence())
        return alts[0] if len(alts) == 1 else OneOf(alts)

    def sequence(self):
        items = []
        while True:
            kind, val = self.peek()
            if kind is None or (kind == 'op' and val in '/)=') or self.at_rule_start():
                break
            items.append(self.prefixed())
        if not items:
            raise BadGrammar('empty sequence')
        return items[0] if len(items) == 1 else Sequence(items)

    def prefixed(self):
        if self.peek() in (('op', '&'), ('op', '!')):
            neg = self.take()[1] == '!'
            return Lookahead(self.quantified(), negative=neg)
        return self.quantified()

    def quantified(self):
        a = self.atom()
        if self.peek()[0] == 'op' and self.peek()[1] in '*+?':
            q = self.take()[1]
            lo, hi = {'*': (0, None), '+': (1, None), '?': (0, 1)}[q]
            return Quantifier(a, lo, hi)
        return a

    def atom(self):
        kind, val = self.take()
        if kind == 'label':
            return LazyReference(val)
        if kind == 'literal':
            return Literal(_eval_literal(val))
        if kind == 'regex':
            body = val[1:].lstrip()
            m = re.match(r'''([urbURB]*(?:"[^"\\]*(?:\\.[^"\\]*)*"|'[^'\\]*(?:\\.[^'\\]*)*'))([ilmsuxaILMSUXA]*)$''', body, re.S)
            flags = 0
            for ch in m.group(2).lower():
                flags |= _FLAGS[ch]
            return Regex(_eval_literal(m.group(1)), flags=flags)
        if (kind, val) == ('op', '('):
            e = self.ored()
            if self.take() != ('op', ')'):
                raise BadGrammar('expected )')
            if e.name == '' and isinstance(e, (Literal, Regex, _Compound)):
                return e
            return e
        raise BadGrammar(f'unexpected token {val!r}')


def _eval_literal(tok):
    # parsimonious evaluates string literals of the grammar with ast.literal_eval (so "\\\\" is two backslashes, r"\w" is \w)
    i = 0
    while tok[i] not in '"\'':
        i += 1
    prefix = ''.join(ch for ch in tok[:i].lower() if ch in 'rb')
    v = ast.literal_eval(prefix.replace('b', '') + tok[i:])
    return v


class Grammar(dict):
    def __init__(self, rules='', **more_rules):
        super().__init__()
        parsed = _GrammarParser(_tokenize(rules)).rules() if rules.strip() else []
        table = {}
        order = []
        for name, expr in parsed:
            table[name] = expr
            order.append(name)
        for name, expr in more_rules.items():
            table[name] = expr
            order.append(name)
        resolved = {}
        for name in order:
            expr = table[name]
            if isinstance(expr, LazyReference):
                expr = expr.resolve(table)
            resolved[name] = expr
        for name in order:
            resolved[name] = resolved[name].resolve(resolved)
        for name in order:
            self[name] = resolved[name]
        self.default_rule = resolved[order[0]] if order else None

    def default(self, rule_name):
        g = Grammar.__new__(Grammar)
        dict.__init__(g, self)
        g.default_rule = self[rule_name]
        return g

    def parse(self, text, pos=0):
        if self.default_rule is None:
            raise RuntimeError('Cannot parse with an empty grammar')
        return self.default_rule.parse(text, pos=pos)

    def match(self, text, pos=0):
        if self.default_rule is None:
            raise RuntimeError('Cannot match with an empty grammar')
        return self.default_rule.match(text, pos=pos)


# ------------------------------------------------------------------------------------------------ visitor


class NodeVisitor:
    grammar = None
    unwrapped_exceptions = ()

    def visit(self, node):
        method = getattr(self, 'visit_' + node.expr_name, self.generic_visit)
        try:
            return method(node, [self.visit(n) for n in node])
        except (VisitationError, UndefinedLabel):
            raise
        except Exception as exc:
            if isinstance(exc, self.unwrapped_exceptions):
                raise
            raise VisitationError(exc, type(exc), node) from exc

    def generic_visit(self, node, visited_children):
        raise NotImplementedError(f'No visitor method was defined for this expression: {node.expr_name}')

    def parse(self, text, pos=0):
        return self.visit(self.grammar.parse(text, pos=pos))

    def match(self, text, pos=0):
        return self.visit(self.grammar.match(text, pos=pos))

    def lift_child(self, node, children):
        first_child, = children
        return first_child

"""Functional shim of PyMySQL 1.1.2's exception hierarchy and error map (the library is absent in this sandbox).
Reproduced from pymysql/err.py of 1.1.2: codes not in the map are InternalError if < 1000 else OperationalError."""
from . import err
from .err import (DatabaseError, DataError, Error, IntegrityError, InterfaceError, InternalError, MySQLError,
                  NotSupportedError, OperationalError, ProgrammingError, Warning)
from . import constants
from . import cursors

__version__ = '1.1.2'
VERSION = (1, 1, 2, 'final', 1)

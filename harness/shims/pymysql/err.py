class MySQLError(Exception):
    """Exception related to operation with MySQL."""


class Warning(Warning, MySQLError):
    pass


class Error(MySQLError):
    pass


class InterfaceError(Error):
    pass


class DatabaseError(Error):
    pass


class DataError(DatabaseError):
    pass


class OperationalError(DatabaseError):
    pass


class IntegrityError(DatabaseError):
    pass


class InternalError(DatabaseError):
    pass


class ProgrammingError(DatabaseError):
    pass


class NotSupportedError(DatabaseError):
    pass


error_map = {}


def _map_error(exc, *errors):
    for error in errors:
        error_map[error] = exc


# ER codes as in pymysql/constants/ER.py; groups as in pymysql/err.py (1.1.2)
_map_error(ProgrammingError, 1007, 1149, 1064, 1146, 1102, 1103, 1110, 1111, 1112, 1113, 1179, 1166)
# DB_CREATE_EXISTS, SYNTAX_ERROR, PARSE_ERROR, NO_SUCH_TABLE, WRONG_DB_NAME, WRONG_TABLE_NAME, FIELD_SPECIFIED_TWICE,
# INVALID_GROUP_FUNC_USE, UNSUPPORTED_EXTENSION, TABLE_MUST_HAVE_COLUMNS, CANT_DO_THIS_DURING_AN_TRANSACTION, WRONG_COLUMN_NAME
_map_error(DataError, 1265, 1263, 1264, 1230, 1171, 1406, 1441, 1366, 1367)
# WARN_DATA_TRUNCATED, WARN_NULL_TO_NOTNULL, WARN_DATA_OUT_OF_RANGE, NO_DEFAULT, PRIMARY_CANT_HAVE_NULL, DATA_TOO_LONG,
# DATETIME_FUNCTION_OVERFLOW, TRUNCATED_WRONG_VALUE_FOR_FIELD, ILLEGAL_VALUE_FOR_TYPE
_map_error(IntegrityError, 1062, 1216, 1452, 1217, 1451, 1215, 1048)
# DUP_ENTRY, NO_REFERENCED_ROW, NO_REFERENCED_ROW_2, ROW_IS_REFERENCED, ROW_IS_REFERENCED_2, CANNOT_ADD_FOREIGN, BAD_NULL_ERROR
_map_error(NotSupportedError, 1196, 1235, 1289, 1286)
# WARNING_NOT_COMPLETE_ROLLBACK, NOT_SUPPORTED_YET, FEATURE_DISABLED, UNKNOWN_STORAGE_ENGINE
_map_error(OperationalError, 1044, 1045, 1040, 1142, 1143, 4025, 1213)
# DBACCESS_DENIED_ERROR, ACCESS_DENIED_ERROR, CON_COUNT_ERROR, TABLEACCESS_DENIED_ERROR, COLUMNACCESS_DENIED_ERROR, CONSTRAINT_FAILED, LOCK_DEADLOCK


def exception_for(errno, errval=''):
    """what pymysql.err.raise_mysql_exception would raise for a server error packet with this code"""
    errorclass = error_map.get(errno)
    if errorclass is None:
        errorclass = InternalError if errno < 1000 else OperationalError
    return errorclass(errno, errval)


def raise_mysql_exception(errno, errval=''):
    raise exception_for(errno, errval)

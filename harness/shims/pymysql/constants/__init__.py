from . import ER, CLIENT

"""Functional shim of prometheus_async.aio.web: the metrics endpoint handler (never exercised by the checks)."""


async def server_stats(request):
    from aiohttp import web
    return web.Response(text='')

import functools
import inspect


def time(metric, future=None):
    """prometheus_async.aio.time: used both as `await time(metric, awaitable)` and as a decorator factory."""
    if future is not None:
        async def measure():
            return await future
        return measure()

    def deco(f):
        @functools.wraps(f)
        async def wrapper(*a, **k):
            return await f(*a, **k)
        return wrapper
    return deco


def count_exceptions(metric, future=None, exc=BaseException):
    return time(metric, future)


def track_inprogress(metric, future=None):
    return time(metric, future)

"""Functional shim of prometheus_async: timing decorators/awaiters that just await."""

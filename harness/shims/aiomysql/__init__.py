"""Shim of aiomysql: only the names gear.database imports. The harness replaces `create_pool` by a fake pool over minisql
(harness/minisql/fakepool.py)."""
from . import utils
from .cursors import Cursor, DictCursor, SSCursor, SSDictCursor


class Pool:
    pass


class Connection:
    pass


async def create_pool(*a, **k):
    raise RuntimeError('aiomysql shim: install a fake pool with harness.minisql.fakepool')

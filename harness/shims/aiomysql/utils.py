class _PoolContextManager:
    pass
class _PoolAcquireContextManager:
    pass

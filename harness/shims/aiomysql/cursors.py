class Cursor: pass
class DictCursor(Cursor): pass
class SSCursor(Cursor): pass
class SSDictCursor(SSCursor): pass

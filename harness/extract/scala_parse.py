"""A small parser for the Scala expression subset used by the engine's statistics code (C37, T tie).

Only text is read; nothing Scala is ever compiled or run. Anything outside the grammar raises framework.TieBroken.

AST (tuples):
  ('num', text)  ('str', value)  ('name', n)  ('ph',)                      literals, names, the `_` placeholder
  ('sel', e, name)  ('call', f, [(argname|None, e)...])                      selection, application
  ('binop', op, a, b)  ('unop', op, e)
  ('if', c, a, b|None)  ('block', [stmt...])  ('match', e, [(pat, block)...])
  ('lambda', [(name, type|None)...], body)  ('caselambda', [names|'_'...], block)
  ('new', clsname, args)  ('tuple', [e...])  ('return', e)
statements:
  ('val', name | [names...], type|None, e)   ('def', Def)   ('assign', name, e)   ('expr', e)
"""
from __future__ import annotations

import re
from typing import List, Optional, Tuple

from ..framework import TieBroken


class Tok:
    __slots__ = ('kind', 'text', 'line', 'nl', 'pos', 'end')

    def __init__(self, kind, text, line, nl, pos, end):
        self.kind, self.text, self.line, self.nl, self.pos, self.end = kind, text, line, nl, pos, end

    def __repr__(self):
        return f'{self.text!r}@{self.line}'


_OPS = ['#::', '>>>', '<<', '>>', '<=', '>=', '==', '!=', '&&', '||', '=>', '<-', '->', '+=', '-=', '*=', '/=', '++', '::',
        '+', '-', '*', '/', '%', '|', '&', '^', '!', '<', '>', '=', '(', ')', '{', '}', '[', ']', ',', '.', ':', ';', '@', '_', '#', '~', '?']
_TOKEN = re.compile(
    r'(?P<ws>[ \t\r]+)|(?P<nl>\n)|(?P<lc>//[^\n]*)|(?P<bc>/\*.*?\*/)|'
    r'(?P<chr>\'(?:\\.|[^\'\\\n])\')|'
    r'(?P<str>[a-zA-Z]*"""(?:.|\n)*?"""|[a-zA-Z]*"(?:\\.|[^"\\\n])*")|'
    r'(?P<num>\d+\.\d+(?:[eE][+-]?\d+)?[dDfF]?|\d+[eE][+-]?\d+[dDfF]?|\d+[lLdDfF]?)|'
    r'(?P<id>[A-Za-z][A-Za-z0-9]*_(?:==|!=|<=|>=|<|>)(?![=<>!])|[A-Za-z_][A-Za-z0-9_]*|`[^`\n]+`)|'
    r'(?P<op>' + '|'.join(re.escape(o) for o in _OPS) + r')|(?P<other>.)', re.S)


def tokenize(src: str) -> List[Tok]:
    toks: List[Tok] = []
    i, line, nl = 0, 1, False
    n = len(src)
    while i < n:
        m = _TOKEN.match(src, i)
        k = m.lastgroup
        t = m.group(0)
        if k == 'nl':
            nl = True
            line += 1
        elif k in ('ws', 'lc'):
            pass
        elif k == 'bc':
            line += t.count('\n')
        else:
            if k == 'id' and t == '_':
                k = 'op'
            toks.append(Tok(k, t, line, nl, i, m.end()))
            nl = False
            line += t.count('\n')
        i = m.end()
    return toks


def match_brace(toks: List[Tok], i: int) -> int:
    open_ = toks[i].text
    close = {'{': '}', '(': ')', '[': ']'}[open_]
    depth = 0
    j = i
    while j < len(toks):
        t = toks[j]
        if t.kind == 'op':
            if t.text == open_:
                depth += 1
            elif t.text == close:
                depth -= 1
                if depth == 0:
                    return j
        j += 1
    raise TieBroken(f'unbalanced {open_} at line {toks[i].line}')


class Def:
    def __init__(self, name, paramlists, rtype, body, line0, line1, text):
        self.name, self.paramlists, self.rtype, self.body = name, paramlists, rtype, body
        self.line0, self.line1, self.text = line0, line1, text

    @property
    def params(self):
        return [p for pl in (self.paramlists or []) for p in pl]


# Scala infix precedence by first character, lowest first; alphanumeric operators (`to`) are lowest
_PREC = [None, ('|',), ('^',), ('&',), ('=', '!'), ('<', '>'), (':',), ('+', '-'), ('*', '/', '%'), ('#',)]
_BINOPS = {'|', '||', '&', '&&', '^', '==', '!=', '<', '<=', '>', '>=', '<<', '>>', '>>>', '+', '-', '*', '/', '%', '#::', '::', '++'}
_ALNUM_INFIX = {'to', 'until', 'min', 'max'}


def _prec(tok: Tok) -> Optional[int]:
    if tok.kind == 'id' and tok.text in _ALNUM_INFIX:
        return 0
    if tok.kind != 'op' or tok.text not in _BINOPS:
        return None
    for lvl, chars in enumerate(_PREC):
        if chars and tok.text[0] in chars:
            return lvl
    return None


class Parser:
    def __init__(self, toks: List[Tok], src: str, fname: str):
        self.toks, self.src, self.fname = toks, src, fname
        self.i = 0
        self.nlmode = [True]

    # ---- helpers ----
    def fail(self, why):
        t = self.peek()
        raise TieBroken(f'{self.fname}:{t.line if t else "eof"}: {why}')

    def peek(self, k=0) -> Optional[Tok]:
        j = self.i + k
        return self.toks[j] if 0 <= j < len(self.toks) else None

    def at(self, text, k=0) -> bool:
        t = self.peek(k)
        return t is not None and t.text == text and t.kind in ('op', 'id')

    def eat(self, text) -> Tok:
        if not self.at(text):
            self.fail(f'expected {text!r}, found {self.peek()!r}')
        self.i += 1
        return self.toks[self.i - 1]

    def ident(self) -> str:
        t = self.peek()
        if t is None or t.kind != 'id':
            self.fail(f'expected an identifier, found {t!r}')
        self.i += 1
        return t.text.strip('`')

    def newline_here(self) -> bool:
        t = self.peek()
        return bool(self.nlmode[-1] and t is not None and t.nl)

    # ---- types ----
    def type_text(self) -> str:
        """consume a type; stops at `,` `)` `=` `{` `}` at depth 0 or at a newline in newline mode"""
        out = []
        depth = 0
        first = True
        while True:
            t = self.peek()
            if t is None:
                break
            if depth == 0 and ((t.kind == 'op' and t.text in (',', ')', '=', '{', '}', ';')) or (not first and self.newline_here())):
                break
            if t.kind == 'op' and t.text in ('(', '['):
                depth += 1
            elif t.kind == 'op' and t.text in (')', ']'):
                depth -= 1
            out.append(t.text)
            self.i += 1
            first = False
        if not out:
            self.fail('expected a type')
        return ''.join(out)

    # ---- definitions ----
    def params(self):
        """`( [mods] name : Type [= default] , ... )` -> [(name, type, default-expr|None)]"""
        self.eat('(')
        self.nlmode.append(False)
        ps = []
        while not self.at(')'):
            while self.peek().kind == 'id' and self.peek().text in ('val', 'var', 'override', 'private', 'protected', 'implicit', 'final'):
                self.i += 1
            name = self.ident()
            self.eat(':')
            ty = self.type_text()
            default = None
            if self.at('='):
                self.i += 1
                default = self.expr()
            ps.append((name, ty, default))
            if self.at(','):
                self.i += 1
        self.eat(')')
        self.nlmode.pop()
        return ps

    def definition(self) -> Def:
        start = self.eat('def')
        name = self.ident()
        if self.at('['):
            self.i = match_brace(self.toks, self.i) + 1
        pls = []
        while self.at('(') and not self.newline_here():
            pls.append(self.params())
        rtype = None
        if self.at(':'):
            self.i += 1
            rtype = self.type_text()
        self.eat('=')
        body = self.expr()
        last = self.toks[self.i - 1]
        return Def(name, pls, rtype, body, start.line, last.line, self.src[start.pos:last.end])

    # ---- statements ----
    def block(self):
        self.eat('{')
        self.nlmode.append(True)
        if self.at('case'):
            node = self.case_lambda_body()
        else:
            node = ('block', self.stmts())
        self.eat('}')
        self.nlmode.pop()
        return node

    def stmts(self):
        out = []
        while not self.at('}') and not self.at('case') and self.peek() is not None:
            if self.at(';'):
                self.i += 1
                continue
            out.append(self.stmt())
        return out

    def stmt(self):
        while self.peek().kind == 'id' and self.peek().text in ('override', 'private', 'protected', 'implicit', 'final', 'lazy') \
                and self.peek(1) is not None and self.peek(1).text in ('def', 'val', 'var', 'override', 'private', 'protected', 'implicit', 'final', 'lazy'):
            self.i += 1
        if self.at('def'):
            return ('def', self.definition())
        if self.at('val') or self.at('var'):
            self.i += 1
            if self.at('('):
                self.i += 1
                names = []
                while not self.at(')'):
                    names.append('_' if self.at('_') else None)
                    if names[-1] is None:
                        names[-1] = self.ident()
                    else:
                        self.i += 1
                    if self.at(','):
                        self.i += 1
                self.eat(')')
                pat = names
            else:
                pat = self.ident()
            ty = None
            if self.at(':'):
                self.i += 1
                ty = self.type_text()
            self.eat('=')
            return ('val', pat, ty, self.expr())
        t = self.peek()
        if t.kind == 'id' and self.at('=', 1) and not (self.peek(1).nl and self.nlmode[-1]):
            name = self.ident()
            self.eat('=')
            return ('assign', name, self.expr())
        return ('expr', self.expr())

    # ---- expressions ----
    def expr(self):
        if self.at('if'):
            self.i += 1
            self.eat('(')
            self.nlmode.append(False)
            c = self.expr()
            self.eat(')')
            self.nlmode.pop()
            a = self.expr()
            b = None
            if self.at('else'):
                self.i += 1
                b = self.expr()
            return ('if', c, a, b)
        if self.at('return'):
            self.i += 1
            return ('return', self.expr())
        # lambdas: `(x: T, ...) => e`, `x => e`
        if self.at('('):
            close = match_brace(self.toks, self.i)
            nxt = self.toks[close + 1] if close + 1 < len(self.toks) else None
            if nxt is not None and nxt.text == '=>' and nxt.kind == 'op':
                ps = [(n, ty) for (n, ty, _d) in self.params()]
                self.eat('=>')
                return ('lambda', ps, self.expr())
        t = self.peek()
        if t is not None and t.kind == 'id' and self.at('=>', 1):
            name = self.ident()
            self.eat('=>')
            return ('lambda', [(name, None)], self.expr())
        e = self.infix(0)
        while self.at('match') and not self.newline_here():
            self.i += 1
            self.eat('{')
            self.nlmode.append(True)
            cases = []
            while self.at('case'):
                self.i += 1
                pt = self.peek()
                if pt.kind == 'str':
                    pat = ('str', _string_value(pt.text))
                    self.i += 1
                elif pt.kind == 'num':
                    pat = ('num', pt.text)
                    self.i += 1
                elif self.at('_'):
                    pat = ('ph',)
                    self.i += 1
                else:
                    self.fail(f'match pattern {pt!r} is outside the subset')
                self.eat('=>')
                cases.append((pat, ('block', self.stmts())))
            self.eat('}')
            self.nlmode.pop()
            e = ('match', e, cases)
        return e

    def infix(self, lvl):
        if lvl >= len(_PREC):
            return self.unary()
        left = self.infix(lvl + 1)
        while True:
            t = self.peek()
            if t is None or _prec(t) != lvl or self.newline_here():
                break
            # an alphanumeric infix operator must be followed by an operand on the same line
            self.i += 1
            if t.text.endswith(':'):
                right = self.infix(lvl)     # right-associative
                return ('binop', t.text, left, right)
            right = self.infix(lvl + 1)
            left = ('binop', t.text, left, right)
        return left

    def unary(self):
        if self.at('!') or self.at('-'):
            op = self.peek().text
            self.i += 1
            return ('unop', op, self.unary())
        return self.postfix(self.primary())

    def args(self):
        self.eat('(')
        self.nlmode.append(False)
        out = []
        while not self.at(')'):
            t = self.peek()
            if t.kind == 'id' and self.at('=', 1):
                name = self.ident()
                self.eat('=')
                out.append((name, self.expr()))
            else:
                out.append((None, self.expr()))
            if self.at(','):
                self.i += 1
        self.eat(')')
        self.nlmode.pop()
        return out

    def postfix(self, e):
        while True:
            if self.at('.'):
                nxt = self.peek(1)
                if nxt is None or nxt.kind != 'id':
                    self.fail('selection of a non-identifier')
                self.i += 2
                e = ('sel', e, nxt.text.strip('`'))
            elif self.at('(') and not self.newline_here():
                e = ('call', e, self.args())
            elif self.at('{') and not self.newline_here() and e[0] in ('sel', 'name') and self.at('case', 1):
                e = ('call', e, [(None, self.block())])
            else:
                return e

    def case_lambda_body(self):
        # `case (a, b) => stmts` (exactly one case, a flat tuple of names or `_`)
        self.eat('case')
        self.eat('(')
        names = []
        while not self.at(')'):
            if self.at('_'):
                names.append('_')
                self.i += 1
            else:
                names.append(self.ident())
            if self.at(','):
                self.i += 1
        self.eat(')')
        self.eat('=>')
        body = ('block', self.stmts())
        if self.at('case'):
            self.fail('pattern-matching lambda with more than one case')
        return ('caselambda', names, body)

    def primary(self):
        t = self.peek()
        if t is None:
            self.fail('unexpected end of input')
        if t.kind == 'num':
            self.i += 1
            return ('num', t.text)
        if t.kind == 'str':
            self.i += 1
            return ('str', _string_value(t.text))
        if self.at('('):
            self.i += 1
            self.nlmode.append(False)
            if self.at(')'):
                self.i += 1
                self.nlmode.pop()
                return ('tuple', [])
            es = [self.expr()]
            if self.at(':'):
                # type ascription `(e: @unchecked)` / `(e: T)`
                depth = 0
                while not (self.at(')') and depth == 0):
                    if self.at('(') or self.at('['):
                        depth += 1
                    elif self.at(')') or self.at(']'):
                        depth -= 1
                    self.i += 1
            while self.at(','):
                self.i += 1
                es.append(self.expr())
            self.eat(')')
            self.nlmode.pop()
            return es[0] if len(es) == 1 else ('tuple', es)
        if self.at('{'):
            return self.block()
        if self.at('_'):
            self.i += 1
            return ('ph',)
        if self.at('new'):
            self.i += 1
            cls = self.ident()
            while self.at('.'):
                self.i += 1
                cls = self.ident()
            a = self.args() if self.at('(') else []
            return ('new', cls, a)
        if t.kind == 'id':
            if t.text in ('val', 'var', 'def', 'case', 'else', 'match', 'class', 'object'):
                self.fail(f'unexpected keyword {t.text}')
            self.i += 1
            return ('name', t.text.strip('`'))
        self.fail(f'unexpected token {t.text!r}')


def _string_value(text: str) -> str:
    m = re.fullmatch(r'([a-zA-Z]*)("""|")(.*)\2', text, re.S)
    if not m:
        raise TieBroken(f'string literal {text!r}')
    if m.group(1):
        return '<interpolated>'
    return m.group(3)


def free_names(node, acc=None):
    """all identifiers mentioned in an AST (over-approximation of the free names: binders are not removed)"""
    if acc is None:
        acc = set()
    if isinstance(node, Def):
        for (_n, _t, d) in node.params:
            if d is not None:
                free_names(d, acc)
        free_names(node.body, acc)
    elif isinstance(node, tuple):
        if node and node[0] == 'name':
            acc.add(node[1])
        elif node and node[0] == 'str':
            pass
        else:
            for x in node[1:] if node and isinstance(node[0], str) else node:
                free_names(x, acc)
    elif isinstance(node, list):
        for x in node:
            free_names(x, acc)
    return acc


class Source:
    """one Scala file: token stream + lookup of members of a class / object / package object"""

    def __init__(self, path: str, rel: str):
        try:
            self.src = open(path, encoding='utf-8').read()
        except OSError as e:
            raise TieBroken(f'cannot read {rel}: {e}')
        self.rel = rel
        self.toks = tokenize(self.src)

    def container(self, kind: str, name: str) -> Tuple[int, int, Optional[list]]:
        """(index of `{`, index of matching `}`, class parameter list or None) of `class name(...) {`, `object name {`,
        `package object name {`"""
        toks = self.toks
        hits = []
        for i, t in enumerate(toks):
            if t.kind != 'id' or t.text != name or i == 0:
                continue
            prev = toks[i - 1].text
            if kind == 'class' and prev == 'class':
                hits.append(i)
            elif kind == 'object' and prev == 'object' and (i < 2 or toks[i - 2].text != 'package'):
                hits.append(i)
            elif kind == 'package object' and prev == 'object' and i >= 2 and toks[i - 2].text == 'package':
                hits.append(i)
        if len(hits) != 1:
            raise TieBroken(f'{self.rel}: found {len(hits)} definitions of {kind} {name}')
        i = hits[0] + 1
        cparams = None
        if kind == 'class' and toks[i].text == '(':
            p = Parser(toks, self.src, self.rel)
            p.i = i
            cparams = p.params()
            i = p.i
        while i < len(toks) and not (toks[i].kind == 'op' and toks[i].text == '{'):
            if toks[i].kind == 'op' and toks[i].text == '(':
                i = match_brace(toks, i)
            i += 1
        if i >= len(toks):
            raise TieBroken(f'{self.rel}: {kind} {name} has no body')
        return i, match_brace(toks, i), cparams

    def members(self, lo: int, hi: int, wanted) -> List[Def]:
        """parse the `def`s named in `wanted` (and `val`s, returned as zero-parameter Defs with paramlists None) that are
        direct members of the body toks[lo..hi]"""
        out = []
        depth = 0
        i = lo + 1
        toks = self.toks
        while i < hi:
            t = toks[i]
            if t.kind == 'op' and t.text in '({[':
                depth += 1
            elif t.kind == 'op' and t.text in ')}]':
                depth -= 1
            elif depth == 0 and t.kind == 'id' and t.text == 'def' and toks[i + 1].kind == 'id' and toks[i + 1].text.strip('`') in wanted:
                p = Parser(toks, self.src, self.rel)
                p.i = i
                d = p.definition()
                out.append(d)
                i = p.i
                continue
            elif depth == 0 and t.kind == 'id' and t.text == 'val' and toks[i + 1].kind == 'id' and toks[i + 1].text in wanted:
                p = Parser(toks, self.src, self.rel)
                p.i = i
                st = p.stmt()
                last = toks[p.i - 1]
                d = Def(st[1], None, st[2], st[3], t.line, last.line, self.src[t.pos:last.end])
                out.append(d)
                i = p.i
                continue
            i += 1
        return out

"""T tie for C14: batch/batch/front_end/front_end.py (AST) -> lean/HailVerif/Generated/BatchRoutes.lean.

For every `@routes.<method>(path)` registration: method, path (also split into segments), handler name, the ordered list of the
decorators that sit BELOW the registration (those are the ones wrapped around the function object that gets registered; a
decorator written above `@routes.x` does not guard the route), and `ownerFilter`: whether the FIRST SQL statement the handler reaches
(depth-first, in source order, through module-level functions of front_end.py, nested `async def`s included) is a SELECT whose WHERE
clause has the conjunct `[batches.]user = %s`.  Routes added in `run()` (`app.router.add_get`, `setup_common_static_routes`) are
emitted too.  Anything that registers routes in a way this walker does not understand raises TieBroken (never skipped).
"""
import ast
import os
import re

from ..framework import TieBroken

FRONT_END = 'batch/batch/front_end/front_end.py'
METHODS = {'get', 'post', 'put', 'patch', 'delete', 'head', 'options'}
# decorators whose definition calls the wrapped function unconditionally (checked dynamically by the correspondence: callers that
# pass the guards must reach the body) and that cannot reach the body except through the function they wrap
PASS_THROUGH = {'add_metadata_to_request', 'web_security_headers', 'web_security_headers_swagger', 'web_security_headers_login_page',
                'catch_ui_error_in_dev', 'deprecated'}
SQL_RE = re.compile(r'^\s*(SELECT\s+\S|INSERT\s+(IGNORE\s+)?INTO\s|UPDATE\s+\S+\s+SET\s|DELETE\s+FROM\s|CALL\s+\w+\s*\(|REPLACE\s+INTO\s)', re.I)
OWNER_RE = re.compile(r'\bWHERE\b[^;]*?(?<![\w.`])(?:batches\.)?`?user`?\s*=\s*%s', re.I | re.S)


def _const(node):
    if isinstance(node, ast.Constant):
        return node.value
    raise TieBroken(f'non-literal argument at line {node.lineno}')


def _dotted(node):
    if isinstance(node, ast.Name):
        return node.id
    if isinstance(node, ast.Attribute):
        b = _dotted(node.value)
        return None if b is None else b + '.' + node.attr
    return None


def lean_str(s):
    return '"' + s.replace('\\', '\\\\').replace('"', '\\"') + '"'


def _opt_bool(v):
    return 'none' if v is None else f'(some {"true" if v else "false"})'


def decorator_to_lean(d):
    """-> (lean term, canonical python-ish text)"""
    if isinstance(d, ast.Call):
        name = _dotted(d.func)
        args = [_const(a) for a in d.args]
        kw = {k.arg: _const(k.value) for k in d.keywords}
        if name in ('auth.authenticated_users_only', 'billing_project_users_only'):
            red = args[0] if args else kw.get('redirect')
            if red not in (None, True, False) or len(args) > 1 or set(kw) - {'redirect'}:
                raise TieBroken(f'unexpected arguments of {name} at line {d.lineno}')
            ctor = 'usersOnly' if name.startswith('auth.') else 'billingProjectUsersOnly'
            return f'.{ctor} {_opt_bool(red)}', f'{name}(redirect={red})'
        if name == 'auth.authenticated_developers_only':
            red = args[0] if args else kw.get('redirect', True)
            if red not in (True, False):
                raise TieBroken(f'unexpected arguments of {name} at line {d.lineno}')
            return f'.developersOnly {"true" if red else "false"}', f'{name}(redirect={red})'
        return f'.passThrough {lean_str("unknown:" + str(name))}', f'unknown:{name}(...)'
    name = _dotted(d)
    if name == 'authenticated_developers_or_auth_only':
        return '.developersOrAuthOnly', name
    if name == 'auth.maybe_authenticated_user':
        return '.maybeAuthenticated', name
    if name in PASS_THROUGH:
        return f'.passThrough {lean_str(name)}', name
    return f'.passThrough {lean_str("unknown:" + str(name))}', f'unknown:{name}'


class Extract:
    def __init__(self, repo):
        self.path = os.path.join(repo, FRONT_END)
        with open(self.path, encoding='utf-8') as f:
            self.src = f.read()
        self.tree = ast.parse(self.src)
        self.funcs = {n.name: n for n in self.tree.body if isinstance(n, (ast.FunctionDef, ast.AsyncFunctionDef))}

    # ---- SQL reachability --------------------------------------------------------------------------------------------
    def first_sql(self, fn_name, seen=None):
        """first SQL string literal reached from fn (source order, DFS through module-level functions)"""
        seen = seen if seen is not None else set()
        if fn_name in seen or fn_name not in self.funcs:
            return None
        seen.add(fn_name)
        return self._first_sql_in(self.funcs[fn_name], seen)

    def _first_sql_in(self, node, seen):
        events = []   # (lineno, col, kind, payload)
        for n in ast.walk(node):
            if isinstance(n, ast.Constant) and isinstance(n.value, str) and SQL_RE.search(n.value):
                events.append((n.lineno, n.col_offset, 'sql', n.value))
            elif isinstance(n, ast.JoinedStr):
                txt = ''.join(v.value if isinstance(v, ast.Constant) else '{}' for v in n.values)
                if SQL_RE.search(txt):
                    events.append((n.lineno, n.col_offset, 'sql', txt))
            elif isinstance(n, ast.Call) and isinstance(n.func, ast.Name) and n.func.id in self.funcs:
                events.append((n.lineno, n.col_offset, 'call', n.func.id))
        for _, _, kind, payload in sorted(events, key=lambda e: (e[0], e[1])):
            if kind == 'sql':
                return payload
            r = self.first_sql(payload, seen)
            if r is not None:
                return r
        return None

    # ---- routes -------------------------------------------------------------------------------------------------------------
    def routes(self):
        out = []
        for fn in self.tree.body:
            if not isinstance(fn, (ast.FunctionDef, ast.AsyncFunctionDef)):
                continue
            decs = fn.decorator_list
            for i, d in enumerate(decs):
                if isinstance(d, ast.Call) and isinstance(d.func, ast.Attribute) and _dotted(d.func.value) == 'routes':
                    meth = d.func.attr
                    if meth not in METHODS:
                        raise TieBroken(f'routes.{meth} at line {d.lineno}: unknown kind of registration')
                    path = _const(d.args[0]) if d.args else _const(next(k.value for k in d.keywords if k.arg == 'path'))
                    inner = [x for x in decs[i + 1:]
                             if not (isinstance(x, ast.Call) and isinstance(x.func, ast.Attribute) and _dotted(x.func.value) == 'routes')]
                    sql = self.first_sql(fn.name)
                    out.append({
                        'method': meth, 'path': path, 'handler': fn.name, 'line': d.lineno,
                        'decorators': [decorator_to_lean(x) for x in inner],
                        'owner_filter': bool(sql and re.search(r'^\s*SELECT\b', sql, re.I) and OWNER_RE.search(sql)),
                    })
        # any other use of `routes.` / `app.router.` / add_routes outside decorators and run()
        for n in ast.walk(self.tree):
            if isinstance(n, ast.Call) and isinstance(n.func, ast.Attribute):
                base = _dotted(n.func.value)
                if base == 'routes' and n.func.attr not in METHODS:
                    raise TieBroken(f'routes.{n.func.attr}(...) at line {n.lineno}: registration the extractor does not understand')
        run = self.funcs.get('run')
        if run is None:
            raise TieBroken('no run() in front_end.py')
        for n in ast.walk(run):
            if not isinstance(n, ast.Call):
                continue
            name = _dotted(n.func)
            if name is None:
                continue
            m = re.fullmatch(r'app\.router\.add_(\w+)', name)
            if m:
                if m.group(1) not in METHODS:
                    raise TieBroken(f'{name} at line {n.lineno}: registration the extractor does not understand')
                out.append({'method': m.group(1), 'path': _const(n.args[0]), 'handler': _dotted(n.args[1]) or '?', 'line': n.lineno,
                            'decorators': [], 'owner_filter': False})
            elif name == 'setup_common_static_routes':
                out.append({'method': 'get', 'path': '/common_static/{filename}', 'handler': 'static', 'line': n.lineno,
                            'decorators': [], 'owner_filter': False})
            elif name == 'app.add_routes':
                if not (len(n.args) == 1 and _dotted(n.args[0]) == 'routes'):
                    raise TieBroken(f'app.add_routes at line {n.lineno} registers something other than `routes`')
            elif name.startswith('app.router.') or name == 'app.add_subapp':
                raise TieBroken(f'{name} at line {n.lineno}: registration the extractor does not understand')
        return out

    def user_filters(self):
        """(where, column, case_sensitive) for every `<col> = %s` whose column is a user-name column, in front_end.py and query/*.py"""
        out = []
        pat = re.compile(r'((?:[A-Za-z_]+\.)?`?user(?:_cs)?`?)\s*=\s*%s')
        files = [(self.path, self.tree)]
        qd = os.path.join(os.path.dirname(self.path), 'query')
        for fn in sorted(os.listdir(qd)) if os.path.isdir(qd) else []:
            if fn.endswith('.py'):
                with open(os.path.join(qd, fn), encoding='utf-8') as f:
                    files.append((os.path.join(qd, fn), ast.parse(f.read())))
        for path, tree in files:
            owner_of = {}
            for fn in ast.walk(tree):
                if isinstance(fn, (ast.FunctionDef, ast.AsyncFunctionDef)):
                    for n in ast.walk(fn):
                        owner_of.setdefault(id(n), fn.name)
            for n in ast.walk(tree):
                txt = None
                if isinstance(n, ast.Constant) and isinstance(n.value, str):
                    txt = n.value
                if txt:
                    for m in pat.finditer(txt):
                        col = m.group(1).replace('`', '')
                        out.append((f'{os.path.basename(path)}:{owner_of.get(id(n), "<module>")}', col, col.endswith('_cs')))
        return sorted(set(out))

    def user_can_access_sql(self):
        return self.first_sql('_user_can_access') or ''


def segs(path):
    return [s for s in path.split('/') if s != '']


def emit(repo):
    ex = Extract(repo)
    rs = ex.routes()
    lines = []
    for r in rs:
        decs = ', '.join(t for t, _ in r['decorators'])
        sg = ', '.join(lean_str(s) for s in segs(r['path']))
        lines.append(
            f'  {{ method := .{r["method"]}, path := {lean_str(r["path"])}, segs := [{sg}], handler := {lean_str(r["handler"])},\n'
            f'    isApi := {"true" if "/api/" in r["path"] else "false"}, decorators := [{decs}], '
            f'ownerFilter := {"true" if r["owner_filter"] else "false"} }}')
    uca = ex.user_can_access_sql()
    mcol = re.search(r'billing_project_users\.`?(user\w*)`?\s*=\s*%s', uca)
    member_col = mcol.group(1) if mcol else '?'
    user_filters = ex.user_filters()
    member_filter = bool(re.search(r'billing_project_users', uca) and re.search(r'billing_project_users\.`?user(_cs)?`?\s*=\s*%s', uca)
                         and re.search(r'\bid\s*=\s*%s', uca))
    src = f'''import HailVerif.Model.Access
/-! GENERATED by harness/extract/routes.py from {FRONT_END} of the working tree — do not edit. -/
namespace HailVerif.Generated.BatchRoutes
open HailVerif.Access

def routes : List Route := [
{(',' + chr(10)).join(lines)}
]

/-- `_user_can_access` selects on `batches.id = %s` joined with `billing_project_users` filtered by the user -/
def userCanAccessFiltersByMembership : Bool := {"true" if member_filter else "false"}

/-- the column of `billing_project_users` that `_user_can_access` compares with the user name: `user_cs` has the case- and
accent-sensitive collation utf8mb4_0900_as_cs, `user` the default insensitive one -/
def userCanAccessColumn : String := {lean_str(member_col)}

/-- every comparison of a column with the user name in the SQL of front_end.py and front_end/query/*.py:
(function or file, column as written, case-sensitive?) -/
def userFilters : List (String × String × Bool) := [
{(',' + chr(10)).join(f'  ({lean_str(a)}, {lean_str(b)}, {"true" if c else "false"})' for a, b, c in user_filters)}
]

end HailVerif.Generated.BatchRoutes
'''
    return src, rs

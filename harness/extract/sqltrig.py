"""Translator: straight-line MySQL trigger bodies and scalar expressions -> Lean 4 (DESIGN.md §3 item 2).

Subset: BEGIN (IF cond THEN (SET NEW.col = expr;)+ END IF;)* END over OLD./NEW. columns; expressions: column refs, integer and
string literals, NULL, + - *, comparisons < <= > >= = != <>, IS [NOT] NULL, AND / OR / NOT, parentheses, GREATEST, LEAST,
COALESCE, IFNULL. Anything else raises TieBroken — never guessed.  SQL three-valued logic is kept: conditions become `Option Bool`
and an IF fires when the condition is `some true`.
"""
import re

from ..framework import TieBroken

TOK = re.compile(r"""\s*(?:(\#[^\n]*|--[^\n]*)|('(?:[^'\\]|\\.)*'|"(?:[^"\\]|\\.)*")|(\d+)|([A-Za-z_][A-Za-z_0-9]*(?:\.[A-Za-z_][A-Za-z_0-9]*)?)|(<=|>=|<>|!=|[-+*/(),;=<>]))""")


def tokenize(s):
    pos = 0
    out = []
    s = s.rstrip()
    while pos < len(s):
        m = TOK.match(s, pos)
        if not m:
            raise TieBroken(f'sqltrig: cannot tokenize at {s[pos:pos + 30]!r}')
        pos = m.end()
        if m.group(1) is not None:
            continue
        if m.group(2) is not None:
            out.append(('str', m.group(2)[1:-1]))
        elif m.group(3) is not None:
            out.append(('int', int(m.group(3))))
        elif m.group(4) is not None:
            out.append(('id', m.group(4)))
        else:
            out.append(('op', m.group(5)))
    return out


class P:
    def __init__(self, toks):
        self.t = toks
        self.i = 0

    def peek(self, k=0):
        return self.t[self.i + k] if self.i + k < len(self.t) else ('eof', None)

    def kw(self, *words):
        for k, w in enumerate(words):
            a = self.peek(k)
            if not (a[0] == 'id' and a[1].upper() == w):
                return False
        return True

    def eat_kw(self, *words):
        if not self.kw(*words):
            raise TieBroken(f'sqltrig: expected {" ".join(words)} at token {self.i}: {self.t[self.i:self.i + 6]}')
        self.i += len(words)

    def eat_op(self, op):
        a = self.peek()
        if a != ('op', op):
            raise TieBroken(f'sqltrig: expected {op!r} at token {self.i}: {self.t[self.i:self.i + 6]}')
        self.i += 1

    # expr grammar: or > and > not > cmp > add > mul > atom
    def expr(self):
        e = self.and_()
        while self.kw('OR'):
            self.i += 1
            e = ('or', e, self.and_())
        return e

    def and_(self):
        e = self.not_()
        while self.kw('AND'):
            self.i += 1
            e = ('and', e, self.not_())
        return e

    def not_(self):
        if self.kw('NOT'):
            self.i += 1
            return ('not', self.not_())
        return self.cmp()

    def cmp(self):
        e = self.add()
        if self.kw('IS', 'NOT', 'NULL'):
            self.i += 3
            return ('isnotnull', e)
        if self.kw('IS', 'NULL'):
            self.i += 2
            return ('isnull', e)
        a = self.peek()
        if a[0] == 'op' and a[1] in ('<', '<=', '>', '>=', '=', '!=', '<>'):
            self.i += 1
            return ('cmp', a[1], e, self.add())
        return e

    def add(self):
        e = self.mul()
        while self.peek() in (('op', '+'), ('op', '-')):
            op = self.peek()[1]
            self.i += 1
            e = ('arith', op, e, self.mul())
        return e

    def mul(self):
        e = self.atom()
        while self.peek() == ('op', '*'):
            self.i += 1
            e = ('arith', '*', e, self.atom())
        return e

    def atom(self):
        a = self.peek()
        if a == ('op', '('):
            self.i += 1
            e = self.expr()
            self.eat_op(')')
            return e
        if a == ('op', '-'):
            self.i += 1
            return ('arith', '-', ('int', 0), self.atom())
        if a[0] == 'int':
            self.i += 1
            return ('int', a[1])
        if a[0] == 'str':
            self.i += 1
            return ('str', a[1])
        if a[0] == 'id':
            up = a[1].upper()
            if up == 'NULL':
                self.i += 1
                return ('null',)
            if up in ('TRUE', 'FALSE'):
                self.i += 1
                return ('int', 1 if up == 'TRUE' else 0)
            if self.peek(1) == ('op', '('):
                if up not in ('GREATEST', 'LEAST', 'COALESCE', 'IFNULL'):
                    raise TieBroken(f'sqltrig: function {a[1]} outside the translated subset')
                self.i += 2
                args = [self.expr()]
                while self.peek() == ('op', ','):
                    self.i += 1
                    args.append(self.expr())
                self.eat_op(')')
                return ('call', up, args)
            self.i += 1
            return ('col', a[1])
        raise TieBroken(f'sqltrig: unexpected token {a} at {self.i}')

    def body(self):
        """BEGIN stmt* END  ->  [('if', cond, [(col, expr)...])] | ('set', col, expr)"""
        self.eat_kw('BEGIN')
        stmts = []
        while not self.kw('END'):
            stmts.append(self.stmt())
        self.eat_kw('END')
        return stmts

    def stmt(self):
        if self.kw('IF'):
            self.i += 1
            c = self.expr()
            self.eat_kw('THEN')
            inner = []
            while not self.kw('END', 'IF'):
                if self.kw('ELSE') or self.kw('ELSEIF'):
                    raise TieBroken('sqltrig: ELSE / ELSEIF outside the translated subset')
                inner.append(self.stmt())
            self.eat_kw('END', 'IF')
            self.eat_op(';')
            return ('if', c, inner)
        if self.kw('SET'):
            self.i += 1
            a = self.peek()
            if a[0] != 'id':
                raise TieBroken(f'sqltrig: SET target {a}')
            self.i += 1
            self.eat_op('=')
            e = self.expr()
            self.eat_op(';')
            return ('set', a[1], e)
        raise TieBroken(f'sqltrig: statement outside the translated subset at {self.t[self.i:self.i + 5]}')


def parse_trigger_body(text):
    m = re.search(r'FOR\s+EACH\s+ROW\s+(BEGIN\b.*)$', text, re.S | re.I)
    if not m:
        raise TieBroken('sqltrig: no FOR EACH ROW BEGIN … END body')
    p = P(tokenize(m.group(1)))
    b = p.body()
    if p.peek()[0] != 'eof':
        raise TieBroken('sqltrig: trailing tokens after END')
    return b


def parse_expr(text):
    p = P(tokenize(text))
    e = p.expr()
    if p.peek()[0] != 'eof':
        raise TieBroken(f'sqltrig: trailing tokens in expression {text!r}')
    return e


# ---- typing + Lean emission ---------------------------------------------------------------------
# types: 'int' | 'str' | 'bool'   (all nullable: Option Int / Option String / Option Bool)


class Emit:
    def __init__(self, coltypes, colmap):
        """coltypes: lowercase column/variable name (without OLD./NEW.) -> 'int'|'str'; colmap: sql ref -> lean term"""
        self.coltypes = coltypes
        self.colmap = colmap

    def ref(self, name):
        key = name.lower()
        if key in self.colmap:
            base = key.split('.')[-1]
            if base not in self.coltypes:
                raise TieBroken(f'sqltrig: column {name} has no declared type')
            return self.colmap[key], self.coltypes[base]
        raise TieBroken(f'sqltrig: reference {name} outside the row model')

    def e(self, x):
        """-> (lean term : Option T, type)"""
        k = x[0]
        if k == 'int':
            return f'(some ({x[1]} : Int))', 'int'
        if k == 'str':
            return f'(some {lean_str(x[1])})', 'str'
        if k == 'null':
            return 'none', 'null'
        if k == 'col':
            return self.ref(x[1])
        if k == 'arith':
            a, ta = self.e(x[2])
            b, tb = self.e(x[3])
            self.need(ta, 'int'), self.need(tb, 'int')
            fn = {'+': 'Sql3.add', '-': 'Sql3.sub', '*': 'Sql3.mul'}[x[1]]
            return f'({fn} {a} {b})', 'int'
        if k == 'call':
            args = [self.e(a) for a in x[2]]
            ts = {t for _, t in args if t != 'null'}
            if len(ts) > 1:
                raise TieBroken('sqltrig: mixed types in ' + x[1])
            t = ts.pop() if ts else 'int'
            if t != 'int':
                raise TieBroken('sqltrig: only integer GREATEST/LEAST/COALESCE are translated')
            fn = {'GREATEST': 'Sql3.greatest', 'LEAST': 'Sql3.least', 'COALESCE': 'Sql3.coalesce', 'IFNULL': 'Sql3.coalesce'}[x[1]]
            return f'({fn} [{", ".join(a for a, _ in args)}])', 'int'
        if k in ('and', 'or'):
            a, ta = self.e(x[1])
            b, tb = self.e(x[2])
            self.need(ta, 'bool'), self.need(tb, 'bool')
            return f'(Sql3.{k}3 {a} {b})', 'bool'
        if k == 'not':
            a, ta = self.e(x[1])
            self.need(ta, 'bool')
            return f'(Sql3.not3 {a})', 'bool'
        if k in ('isnull', 'isnotnull'):
            a, _ = self.e(x[1])
            return f'(Sql3.{"isNull" if k == "isnull" else "isNotNull"} {a})', 'bool'
        if k == 'cmp':
            a, ta = self.e(x[2])
            b, tb = self.e(x[3])
            t = ta if ta != 'null' else tb
            if tb not in (t, 'null') or t not in ('int', 'str'):
                raise TieBroken(f'sqltrig: comparison between {ta} and {tb}')
            op = {'<': 'lt', '<=': 'le', '>': 'gt', '>=': 'ge', '=': 'eq', '!=': 'ne', '<>': 'ne'}[x[1]]
            if t == 'str' and op not in ('eq', 'ne'):
                raise TieBroken('sqltrig: string ordering not translated')
            return f'(Sql3.{op}{"S" if t == "str" else "I"} {a} {b})', 'bool'
        raise TieBroken(f'sqltrig: node {k}')

    @staticmethod
    def need(t, want):
        if t != want and not (t == 'null'):
            raise TieBroken(f'sqltrig: expected {want}, got {t}')


def lean_str(s):
    return '"' + s.replace('\\', '\\\\').replace('"', '\\"') + '"'


def emit_row_trigger(name, stmts, fields, coltypes):
    """Lean defs for a BEFORE UPDATE trigger that only assigns NEW.<field>: one def `name_s<i> (old new : Row) : Row` per
    top-level statement (so proofs can treat the clamps one at a time) and `name old new` = their composition in order."""
    colmap = {}
    for f in fields:
        colmap[f'old.{f}'] = f'old.{f}'
        colmap[f'new.{f}'] = f'new.{f}'
    em = Emit(coltypes, colmap)

    def block(stmts, indent):
        out = []
        for s in stmts:
            if s[0] == 'set':
                tgt = s[1].lower()
                if not tgt.startswith('new.') or tgt[4:] not in fields:
                    raise TieBroken(f'sqltrig: SET target {s[1]} is not a NEW.<modelled column>')
                v, t = em.e(s[2])
                want = coltypes[tgt[4:]]
                if t not in (want, 'null'):
                    raise TieBroken(f'sqltrig: SET {s[1]} of type {want} := {t}')
                out.append(f'{indent}let new : Row := {{ new with {tgt[4:]} := {v} }}')
            elif s[0] == 'if':
                c, t = em.e(s[1])
                Emit.need(t, 'bool')
                inner = block(s[2], indent + '    ')
                out.append(f'{indent}let new : Row :=')
                out.append(f'{indent}  if {c} = some true then')
                out += inner
                out.append(f'{indent}    new')
                out.append(f'{indent}  else new')
        return out

    defs = []
    for i, s in enumerate(stmts, 1):
        defs.append('\n'.join([f'def {name}_s{i} (old new : Row) : Row :='] + block([s], '  ') + ['  new']))
    comp = 'new'
    for i in range(1, len(stmts) + 1):
        comp = f'({name}_s{i} old {comp})'
    defs.append(f'def {name} (old new : Row) : Row :=\n  {comp}')
    return '\n\n'.join(defs)


def emit_scalar(name, expr, params, coltypes):
    """Lean def name (p1 p2 … : Option Int/String) : Option Int for a scalar SQL expression over named variables"""
    colmap = {p.lower(): lean_ident(p) for p in params}
    em = Emit({p.lower().split('.')[-1]: coltypes[p.lower().split('.')[-1]] for p in params} | coltypes, colmap)
    v, t = em.e(expr)
    ty = {'int': 'Option Int', 'str': 'Option String', 'bool': 'Option Bool'}[t]
    args = ' '.join(f'({lean_ident(p)} : Option {"Int" if coltypes[p.lower().split(".")[-1]] == "int" else "String"})' for p in params)
    return f'def {name} {args} : {ty} :=\n  {v}'


def lean_ident(p):
    return p.lower().replace('.', '_')

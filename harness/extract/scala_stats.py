"""Scala -> Lean translator for the engine's exact-test statistics (C37, T tie).

Input (text only; nothing Scala is ever compiled or run):
  hail/hail/src/is/hail/stats/LeveneHaldane.scala   class LeveneHaldane (probability, cumulativeProbability x2, survivalFunction,
                                                     rightMidP, leftMidP, exactMidP, nB, getNumericalMean, getSupport*Bound),
                                                     object LeveneHaldane (apply x2)
  hail/hail/src/is/hail/stats/package.scala          hardyWeinbergTest, chiSquaredTest, contingencyTableTest, fisherExactTest x2
                                                     (the 7-argument one sliced on `pvalue`), pchisqtail x2, pnorm x2 (pinned)
  hail/hail/utils/src/is/hail/utils/package.scala    D_==, D_>, D_epsilon, defaultTolerance
Output: lean/HailVerif/Generated/ScalaStats.lean — every translated member TWICE, from the same parsed expression:
  namespace Exact : Double ↦ Rat; every Double literal of magnitude ≤ 1e-6 (the cut-offs / tolerances 1e-16, 0.5e-16, 1e-12,
                    1e-7, 1e-6, java.lang.Double.MIN_NORMAL) is multiplied by the extra first parameter τ, so τ = 1 is the code
                    read over ℚ and τ = 0 the idealised code without truncation, about which Props/C37.lean proves its theorems
  namespace Flt   : Double ↦ Float (IEEE double), same operation order, literals emitted by their correctly rounded bit pattern

Scala `Int`/`Long` ↦ Lean `Int`: unbounded in `Exact` (theorems carry the side condition StatsSpec.int32Safe), wrapping 32-/64-bit in `Flt`
(i32add, i64mul, … with Int → Double widening exactly where the static types put it); `/` `%` only by non-zero literals (truncating);
`d.toInt`/`d.toLong` = saturating truncation toward zero, `math.round/floor/ceil/abs/min/max`; every Int arithmetic operation is listed in the
generated `intArith` inventory (Props/C37.lean proves chiSquaredTest / contingencyTableTest have none);
`LazyList[Double]` ↦ fuel-truncated `List` (StatsLib.unfold); functions that can throw (`fatal`, `require`, `assert`, MatchError) or
take fisherExactTest's early `return Array(NaN, …)` return `StatsLib.Out`; library calls that are not repository code
(HypergeometricDistribution methods, ChiSquare.cumulative, and the log/exp block `logdc`/`dnhyper`, which is pinned textually)
become fields of the parameter `lib : StatsLib.Lib`.

Anything outside the subset raises framework.TieBroken — the translator never guesses.
"""
from __future__ import annotations

import hashlib
import os
import re
import struct
from fractions import Fraction
from typing import Dict, List, Optional, Tuple

from ..framework import LEAN, TieBroken, write_if_changed
from .scala_parse import Def, Parser, Source, free_names, tokenize

LH_FILE = 'hail/hail/src/is/hail/stats/LeveneHaldane.scala'
STATS_FILE = 'hail/hail/src/is/hail/stats/package.scala'
UTILS_FILE = 'hail/hail/utils/src/is/hail/utils/package.scala'
OUT = os.path.join(LEAN, 'HailVerif', 'Generated', 'ScalaStats.lean')

LH_CLASS_PARAMS = [('n', 'Int'), ('nA', 'Int'), ('mode', 'Int'), ('pRU', 'LazyList[Double]'), ('pLU', 'LazyList[Double]'), ('pN', 'Double'),
                   ('rng', 'RandomGenerator')]
LH_METHODS = ['probability', 'cumulativeProbability', 'survivalFunction', 'rightMidP', 'leftMidP', 'exactMidP', 'nB', 'getNumericalMean',
              'getSupportUpperBound', 'getSupportLowerBound']
ROOTS = [('LH', m, None) for m in LH_METHODS if m != 'cumulativeProbability'] + [
    ('LH', 'cumulativeProbability', 2), ('LH', 'cumulativeProbability', 1),
    ('LHobj', 'apply', 3), ('LHobj', 'apply', 2),
    ('stats', 'hardyWeinbergTest', 4), ('stats', 'chiSquaredTest', 4), ('stats', 'fisherExactTest', 7), ('stats', 'fisherExactTest', 4),
    ('stats', 'contingencyTableTest', 5)]

# textual pins (compared as ASTs, i.e. modulo whitespace and comments)
PIN_PCHISQTAIL_4 = 'ChiSquare.cumulative(x, df, lowerTail, logP)'
PIN_PCHISQTAIL_2 = 'pchisqtail(x, df, lowerTail = false, logP = false)'
PIN_PNORM_5 = 'Normal.cumulative(x, mu, sigma, lowerTail, logP)'
PIN_PNORM_1 = 'pnorm(x, mu = 0, sigma = 1, lowerTail = true, logP = false)'
PIN_SUPPORT = '(low to high).toArray'
PIN_DHYPER = 'if (logProb) hgd.logProbability(k) else hgd.probability(k)'
PIN_LOGDC = 'support.map(dhyper(_, logProb = true))'
PIN_DNHYPER = '''{
      var d = logdc.zipWithIndex.map { case (hr, i) => hr + math.log(ncp) * i }
      d = d.map(dens => math.exp(dens - d.max))
      d.map(_ / d.sum)
    }'''
PIN_HGD = 'new HypergeometricDistribution(null, popSize, numSuccessPopulation, sampleSize)'

_SYM = {'D_==': 'D_eq', 'D_>': 'D_gt', 'D_<': 'D_lt', 'D_!=': 'D_ne', 'D_<=': 'D_le', 'D_>=': 'D_ge'}


def _parse_expr(text: str):
    p = Parser(tokenize(text), text, '<pin>')
    e = p.expr()
    if p.peek() is not None:
        raise TieBroken(f'pin {text!r} not fully parsed')
    return e


def _strip(node):
    """AST with Def objects expanded (for structural comparison)"""
    if isinstance(node, Def):
        return ('Def', node.name, [[(n, t, _strip(d)) for (n, t, d) in pl] for pl in (node.paramlists or [])], node.rtype, _strip(node.body))
    if isinstance(node, tuple):
        return tuple(_strip(x) for x in node)
    if isinstance(node, list):
        return [_strip(x) for x in node]
    return node


def render(e) -> str:
    """Scala-like text of an expression (for the inventory of Int arithmetic)"""
    k = e[0]
    if k == 'num':
        return e[1]
    if k == 'name':
        return e[1]
    if k == 'str':
        return '"' + e[1] + '"'
    if k == 'ph':
        return '_'
    if k == 'binop':
        return f'({render(e[2])} {e[1]} {render(e[3])})'
    if k == 'unop':
        return f'{e[1]}{render(e[2])}'
    if k == 'sel':
        return f'{render(e[1])}.{e[2]}'
    if k == 'call':
        return f'{render(e[1])}(' + ', '.join(render(a) for (_n, a) in e[2]) + ')'
    if k == 'if':
        return f'if ({render(e[1])}) {render(e[2])} else {render(e[3]) if e[3] else "()"}'
    return f'<{k}>'


class V:
    __slots__ = ('term', 'ty', 'out')

    def __init__(self, term, ty, out=False):
        self.term, self.ty, self.out = term, ty, out


class LocalFn:
    def __init__(self, name, params, rty, out, special=None):
        self.name, self.params, self.rty, self.out, self.special = name, params, rty, out, special


class Member:
    def __init__(self, cont, d: Def, fname):
        self.cont, self.d, self.fname = cont, d, fname
        self.arity = len(d.params) if d.paramlists is not None else 0
        self.lean = None
        self.done = {}       # dom -> dict(rty, out, uses_lib, text)


_SCALA_TYPES = {'Int': 'Int', 'Long': 'Long', 'Double': 'Dbl', 'Boolean': 'Bool', 'String': 'Str', 'LazyList[Double]': ('List', 'Dbl'),
                'Array[Double]': ('List', 'Dbl'), 'Array[Int]': ('List', 'Int'), 'LeveneHaldane': 'LH', 'RandomGenerator': 'Erased'}


class Dom:
    def __init__(self, q: bool):
        self.q = q
        self.num = 'Rat' if q else 'Float'
        self.ns = 'Exact' if q else 'Flt'

    def ty(self, t) -> str:
        if t in ('Int', 'Long'):
            return 'Int'
        if t == 'Dbl':
            return self.num
        if t == 'Bool':
            return 'Bool'
        if t == 'Str':
            return 'String'
        if t == 'LH':
            return f'LHDist {self.num}'
        if t == 'Hgd':
            return 'Hgd'
        if isinstance(t, tuple) and t[0] == 'List':
            return f'List ({self.ty(t[1])})'
        if isinstance(t, tuple) and t[0] == 'Tup':
            return f'({self.ty(t[1])} × {self.ty(t[2])})'
        raise TieBroken(f'no Lean type for {t}')

    def lit(self, text: str) -> str:
        body = text.rstrip('dDfF')
        val = Fraction(body)
        tol = 0 < abs(val) <= Fraction(1, 10 ** 6)
        return self.const(val, tol, text)

    def const(self, val: Fraction, tol: bool, shown: str) -> str:
        if self.q:
            t = f'({val.numerator} : Rat)' if val.denominator == 1 else f'(({val.numerator} : Rat) / {val.denominator})'
            return f'(τ * {t})' if tol else t
        f = val.numerator / val.denominator           # correctly rounded (int/int true division), as Double.parseDouble
        bits = struct.unpack('<Q', struct.pack('<d', f))[0]
        return f'(Float.ofBits 0x{bits:016X} /- {shown} -/)'

    def conv(self, t: str) -> str:
        return f'(({t} : Int) : Rat)' if self.q else f'(Float.ofInt {t})'

    def eq(self, a, b) -> str:
        return f'decide ({a} = {b})' if self.q else f'({a} == {b})'


MIN_NORMAL = Fraction(2) ** -1022


class Compiler:
    def __init__(self, tr: 'Translator', dom: Dom, m: Member):
        self.tr, self.dom, self.m = tr, dom, m
        self.fresh = 0
        self.uses_lib = False
        self.skipped: List[str] = []
        self.int_ops: List[str] = []

    def fail(self, why):
        raise TieBroken(f'{self.m.fname}:{self.m.d.line0}-{self.m.d.line1}: {self.m.cont}.{self.m.d.name}: {why}')

    def name(self, base='t'):
        self.fresh += 1
        return f'{base}{self.fresh}'

    # ---- plumbing ----
    def as_out(self, v: V) -> str:
        return v.term if v.out else f'(Out.val {v.term})'

    def strict(self, args: List[V], build, ty, out=False) -> V:
        names = [self.name() if a.out else a.term for a in args]
        inner = build(names)
        if not any(a.out for a in args):
            return V(inner, ty, out)
        inner = inner if out else f'(Out.val {inner})'
        for a, n in reversed(list(zip(args, names))):
            if a.out:
                inner = f'(Out.bind {a.term} fun {n} => {inner})'
        return V(inner, ty, True)

    def coerce(self, v: V, ty) -> V:
        if v.ty == ty:
            return v
        if v.ty in ('Int', 'Long') and ty == 'Dbl':
            return self.strict([v], lambda n: self.dom.conv(n[0]), 'Dbl')
        if v.ty == 'Int' and ty == 'Long':
            return V(v.term, 'Long', v.out)
        self.fail(f'cannot use a value of type {v.ty} as {ty}')

    def scala_type(self, text: Optional[str]):
        if text is None:
            return None
        if text not in _SCALA_TYPES:
            self.fail(f'type {text} is outside the subset')
        return _SCALA_TYPES[text]

    # ---- member ----
    def compile_member(self) -> Tuple[str, object, bool]:
        d = self.m.d
        env: Dict[str, object] = {}
        if self.m.cont == 'LH':
            for (n, ty) in LH_CLASS_PARAMS:
                if ty != 'RandomGenerator':
                    env[n] = ('var', f'self.{n}', _SCALA_TYPES[ty])
        params = []
        for (n, ty, _dflt) in d.params:
            t = self.scala_type(ty)
            if t == 'Erased':
                env[n] = ('erased',)
                continue
            env[n] = ('var', n, t)
            params.append((n, t))
        if d.body[0] == 'block':
            stmts = d.body[1]
        else:
            stmts = [('expr', d.body)]
        key = (self.m.cont, d.name, self.m.arity)
        if key == ('stats', 'fisherExactTest', 7):
            stmts = self.slice_fisher(stmts)
        v = self.stmts(list(stmts), env, top=True)
        declared = self.scala_type(d.rtype)
        if declared is not None and declared != v.ty and not (declared == 'Dbl' and v.ty == 'Int'):
            self.fail(f'body has type {v.ty}, declared {d.rtype}')
        if declared == 'Dbl' and v.ty == 'Int':
            v = self.coerce(v, 'Dbl')
        return v, params

    # ---- fisherExactTest: slice on `pvalue`, pinned log/exp block ----
    def slice_fisher(self, stmts):
        last = stmts[-1]
        if not (last[0] == 'expr' and last[1][0] == 'call' and last[1][1] == ('name', 'Array') and last[1][2]
                and last[1][2][0] == (None, ('name', 'pvalue'))):
            self.fail('the result is no longer Array(pvalue, …)')
        need = {'pvalue'}
        keep = []
        pinned = {'support': PIN_SUPPORT, 'dhyper': PIN_DHYPER, 'logdc': PIN_LOGDC, 'dnhyper': PIN_DNHYPER, 'hgd': PIN_HGD}
        seen_pins = set()
        for st in reversed(stmts[:-1]):
            if st[0] == 'expr':
                keep.append(st)
                need |= free_names(st[1])
                continue
            nm = st[1].name if st[0] == 'def' else st[1]
            if not isinstance(nm, str):
                self.fail('tuple pattern at the top level of fisherExactTest')
            if nm in pinned:
                body = st[1].body if st[0] == 'def' else st[3]
                if _strip(body) != _strip(_parse_expr(pinned[nm])):
                    self.fail(f'`{nm}` is no longer `{" ".join(pinned[nm].split())}` (pinned: StatsLib.dnhyper / Lib / rangeIncl give it its meaning)')
                seen_pins.add(nm)
            if nm in ('dhyper', 'logdc'):
                continue            # only used inside the pinned dnhyper
            if nm == 'dnhyper':
                if nm in need:
                    keep.append(('pinned-dnhyper',))
                    need |= {'hgd', 'low', 'high'}
                continue
            if nm in need:
                keep.append(st)
                need |= free_names(st[1] if st[0] == 'def' else st[3])
            else:
                self.skipped.append(nm)
        if seen_pins != set(pinned):
            self.fail(f'pinned definitions missing: {sorted(set(pinned) - seen_pins)}')
        keep.reverse()
        keep.append(('expr', ('call', ('name', 'Array'), [(None, ('name', 'pvalue'))])))
        return keep

    # ---- statements ----
    def is_fatal_call(self, e) -> bool:
        return e[0] == 'call' and e[1] == ('name', 'fatal')

    def is_nan_return(self, e) -> bool:
        if e[0] != 'return':
            return False
        a = e[1]
        nan = ('sel', ('name', 'Double'), 'NaN')
        return a[0] == 'call' and a[1] == ('name', 'Array') and len(a[2]) >= 1 and all(x == (None, nan) for x in a[2])

    def stmts(self, stmts, env, top=False, want_out=False) -> V:
        sep = '\n  ' if top else ' '
        if not stmts:
            self.fail('block without a result expression')
        st = stmts[0]
        rest = stmts[1:]
        if st[0] == 'pinned-dnhyper':
            env = dict(env)
            env['dnhyper'] = ('fn', LocalFn('dnhyper', [('ncp', 'Dbl', None)], ('List', 'Dbl'), False, special='dnhyper'))
            return self.stmts(rest, env, top, want_out)
        if st[0] == 'val':
            _, pat, ty, e = st
            v = self.expr(e, env)
            declared = self.scala_type(ty)
            if declared is not None and declared != v.ty:
                v = self.coerce(v, declared)
            env = dict(env)
            if isinstance(pat, list):
                if not (isinstance(v.ty, tuple) and v.ty[0] == 'Tup' and len(pat) == 2):
                    self.fail('tuple pattern on a non-pair')
                pr = self.name('pr')
                binds = []
                for k, n in enumerate(pat):
                    if n != '_':
                        env[n] = ('var', n, v.ty[k + 1])
                        binds.append(f'let {n} := {pr}.{k + 1};')
                r = self.stmts(rest, env, top, want_out or v.out)
                inner = V(sep.join(binds + [r.term]), r.ty, r.out)
                return self.let(pr, v, inner, sep)
            if v.ty == 'Hgd' or isinstance(v.ty, (str, tuple)):
                env[pat] = ('var', pat, v.ty)
            if not rest:
                self.fail('block ends with a val')
            r = self.stmts(rest, env, top, want_out or v.out)
            return self.let(pat, v, r, sep)
        if st[0] == 'def':
            d: Def = st[1]
            env = dict(env)
            fn, term = self.local_def(d, env)
            env[d.name] = ('fn', fn)
            r = self.stmts(rest, env, top, want_out)
            return V(f'let {d.name} := {term}{";" if not top else ""}{sep}{r.term}', r.ty, r.out)
        if st[0] == 'assign':
            self.fail(f'assignment to {st[1]} is outside the subset')
        e = st[1]
        # guards
        if e[0] == 'if' and e[3] is None:
            c = self.expr(e[1], env)
            if c.ty != 'Bool' or c.out:
                self.fail('guard condition')
            if self.is_fatal_call(e[2]):
                what = 'Out.fatal'
            elif self.is_nan_return(e[2]):
                what = 'Out.nan'
            else:
                self.fail('`if` without `else` whose branch is neither fatal(..) nor return Array(NaN, …)')
            if not rest:
                self.fail('block ends with a guard')
            r = self.stmts(rest, env, top, True)
            return V(f'if {c.term} then {what} else{sep}{self.as_out(r)}', r.ty, True)
        if e[0] == 'call' and e[1] in (('name', 'require'), ('name', 'assert')):
            c = self.expr(e[2][0][1], env)
            if c.ty != 'Bool' or c.out:
                self.fail('require/assert condition')
            if not rest:
                self.fail('block ends with require/assert')
            r = self.stmts(rest, env, top, True)
            return V(f'if !({c.term}) then Out.fatal else{sep}{self.as_out(r)}', r.ty, True)
        if rest:
            self.fail(f'statement outside the subset: {str(e)[:80]}')
        v = self.expr(e, env)
        if want_out and not v.out:
            return V(f'(Out.val {v.term})', v.ty, True)
        return v

    def let(self, x, v: V, r: V, sep) -> V:
        if v.out:
            return V(f'Out.bind {v.term} fun {x} =>{sep}{self.as_out(r)}', r.ty, True)
        semi = ';' if sep == ' ' else ''
        return V(f'let {x} := {v.term}{semi}{sep}{r.term}', r.ty, r.out)

    def local_def(self, d: Def, env):
        if len(d.paramlists) != 1:
            self.fail(f'local def {d.name} with {len(d.paramlists)} parameter lists')
        ps = [(n, self.scala_type(ty), dflt) for (n, ty, dflt) in d.params]
        rty = self.scala_type(d.rtype)
        body = d.body
        # `def f(i: Int, p: Double): LazyList[Double] = p #:: f(i ± 2, e)`
        if rty == ('List', 'Dbl'):
            ok = (len(ps) == 2 and ps[0][1] == 'Int' and ps[1][1] == 'Dbl' and body[0] == 'binop' and body[1] == '#::'
                  and body[2] == ('name', ps[1][0]) and body[3][0] == 'call' and body[3][1] == ('name', d.name) and len(body[3][2]) == 2
                  and all(a[0] is None for a in body[3][2]))
            if not ok:
                self.fail(f'LazyList def {d.name} is not of the shape `p #:: {d.name}(i’, p’)`')
            if env.get('nA') != ('var', 'nA', 'Int'):
                self.fail('stream fuel: no Int `nA` in scope (StatsLib.lhFuel nA bounds the unfolding)')
            e2 = dict(env)
            e2[ps[0][0]] = ('var', ps[0][0], 'Int')
            e2[ps[1][0]] = ('var', ps[1][0], 'Dbl')
            a1 = self.expr(body[3][2][0][1], e2)
            a2 = self.coerce(self.expr(body[3][2][1][1], e2), 'Dbl')
            if a1.ty != 'Int' or a1.out or a2.out:
                self.fail(f'LazyList def {d.name}: step')
            D = self.dom.num
            step = f'(fun ({ps[0][0]} : Int) ({ps[1][0]} : {D}) => ({a1.term}, {a2.term}))'
            term = f'fun (i0 : Int) (p0 : {D}) => unfold {step} (lhFuel nA) i0 p0'
            return LocalFn(d.name, [(ps[0][0], 'Int', None), (ps[1][0], 'Dbl', None)], ('List', 'Dbl'), False), term
        e2 = dict(env)
        for (n, t, _dflt) in ps:
            if t is None or t == 'Erased':
                self.fail(f'local def {d.name}: parameter {n}')
            e2[n] = ('var', n, t)
        stmts = body[1] if body[0] == 'block' else [('expr', body)]
        v = self.stmts(list(stmts), e2)
        if rty is not None and rty != v.ty:
            v = self.coerce(v, rty)
        binders = ' '.join(f'({n} : {self.dom.ty(t)})' for (n, t, _d) in ps)
        return LocalFn(d.name, ps, v.ty, v.out), f'fun {binders} => ({v.term})'

    # ---- expressions ----
    def expr(self, e, env) -> V:
        k = e[0]
        if k == 'num':
            txt = e[1]
            if txt.isdigit():
                if int(txt) >= 2 ** 31:
                    self.fail(f'Int literal {txt} out of range')
                return V(f'({int(txt)} : Int)', 'Int')
            if txt[:-1].isdigit() and txt[-1] in 'lL':
                return V(f'({int(txt[:-1])} : Int)', 'Long')
            return V(self.dom.lit(txt), 'Dbl')
        if k == 'str':
            if '"' in e[1] or '\\' in e[1]:
                self.fail('string literal with quotes/escapes')
            return V(f'"{e[1]}"', 'Str')
        if k == 'name':
            return self.name_ref(e[1], env)
        if k == 'block':
            v = self.stmts(list(e[1]), env)
            return V(f'({v.term})', v.ty, v.out)
        if k == 'if':
            if e[3] is None:
                self.fail('`if` without `else` in expression position')
            c = self.expr(e[1], env)
            if c.ty != 'Bool':
                self.fail('if condition is not Boolean')
            a = self.expr(e[2], env)
            b = self.expr(e[3], env)
            if a.ty != b.ty:
                if {a.ty, b.ty} == {'Int', 'Dbl'}:
                    a, b = self.coerce(a, 'Dbl'), self.coerce(b, 'Dbl')
                else:
                    self.fail(f'if branches of types {a.ty} / {b.ty}')
            if a.out or b.out:
                return self.strict([c], lambda n: f'(if {n[0]} then {self.as_out(a)} else {self.as_out(b)})', a.ty, True)
            return self.strict([c], lambda n: f'(if {n[0]} then {a.term} else {b.term})', a.ty)
        if k == 'unop':
            v = self.expr(e[2], env)
            if e[1] == '!':
                if v.ty != 'Bool':
                    self.fail('! on a non-Boolean')
                return self.strict([v], lambda n: f'(!{n[0]})', 'Bool')
            if v.ty not in ('Int', 'Long', 'Dbl'):
                self.fail('unary - on a non-number')
            if v.ty != 'Dbl':
                self.int_ops.append(render(e))
                if not self.dom.q:
                    f = 'i32neg' if v.ty == 'Int' else 'i64neg'
                    return self.strict([v], lambda n: f'({f} {n[0]})', v.ty)
            return self.strict([v], lambda n: f'(-{n[0]})', v.ty)
        if k == 'binop':
            return self.binop(e[1], e[2], e[3], env)
        if k == 'sel':
            return self.select(e, env)
        if k == 'call':
            return self.call(e, env)
        if k == 'new':
            return self.new(e, env)
        if k == 'match':
            return self.match(e, env)
        self.fail(f'expression form {k} is outside the subset')

    def name_ref(self, n, env) -> V:
        if n in ('true', 'false'):
            return V(n, 'Bool')
        b = env.get(n)
        if b is not None:
            if b[0] == 'var':
                return V(b[1], b[2])
            self.fail(f'{n} used as a value')
        # zero-parameter member of the same container, or a `val` of utils
        for cont in (self.m.cont, 'utils'):
            mem = self.tr.lookup(cont, n, 0)
            if mem is not None:
                return self.member_call(mem, [], env)
        self.fail(f'unknown name {n}')

    def binop(self, op, ea, eb, env) -> V:
        inf = ('sel', ('name', 'Double'), 'PositiveInfinity')
        if op in ('==', '!=') and (eb == inf or ea == inf):
            other = self.coerce(self.expr(ea if eb == inf else eb, env), 'Dbl')
            if self.dom.q:
                r = self.strict([other], lambda n: 'false', 'Bool')   # a rational is never +∞
            else:
                r = self.strict([other], lambda n: f'({n[0]} == posInf)', 'Bool')
            return r if op == '==' else self.strict([r], lambda n: f'(!{n[0]})', 'Bool')
        a = self.expr(ea, env)
        b = self.expr(eb, env)
        if op in ('||', '&&'):
            if (a.ty, b.ty) != ('Bool', 'Bool') or b.out:
                self.fail(f'{op} operands')
            return self.strict([a, b], lambda n: f'({n[0]} {op} {n[1]})', 'Bool')
        if op == 'to':
            if (a.ty, b.ty) != ('Int', 'Int'):
                self.fail('`to` on non-Ints')
            return self.strict([a, b], lambda n: f'(rangeIncl {n[0]} {n[1]})', ('List', 'Int'))
        if op in ('+', '-', '*', '/', '%'):
            if a.ty in ('Int', 'Long') and b.ty in ('Int', 'Long'):
                rt = 'Long' if 'Long' in (a.ty, b.ty) else 'Int'
                self.int_ops.append(render(('binop', op, ea, eb)))
                if op in ('/', '%'):
                    # JVM: ArithmeticException on a zero divisor — only non-zero literal divisors are admitted
                    if not (eb[0] == 'num' and eb[1].rstrip('lL').isdigit() and int(eb[1].rstrip('lL')) != 0):
                        self.fail(f'integer {op} by a divisor that is not a non-zero literal')
                if self.dom.q:
                    if op == '/':
                        return self.strict([a, b], lambda n: f'(idiv {n[0]} {n[1]})', rt)
                    if op == '%':
                        return self.strict([a, b], lambda n: f'(imod {n[0]} {n[1]})', rt)
                    return self.strict([a, b], lambda n: f'({n[0]} {op} {n[1]})', rt)
                f = ('i32' if rt == 'Int' else 'i64') + {'+': 'add', '-': 'sub', '*': 'mul', '/': 'div', '%': 'mod'}[op]
                return self.strict([a, b], lambda n: f'({f} {n[0]} {n[1]})', rt)
            if a.ty not in ('Int', 'Long', 'Dbl') or b.ty not in ('Int', 'Long', 'Dbl') or op == '%':
                self.fail(f'operator {op} on {a.ty}, {b.ty}')
            a, b = self.coerce(a, 'Dbl'), self.coerce(b, 'Dbl')
            return self.strict([a, b], lambda n: f'({n[0]} {op} {n[1]})', 'Dbl')
        if op in ('==', '!=', '<', '<=', '>', '>='):
            if a.ty == 'Str' and b.ty == 'Str' and op in ('==', '!='):
                r = self.strict([a, b], lambda n: f'decide ({n[0]} = {n[1]})', 'Bool')
            elif a.ty in ('Int', 'Long') and b.ty in ('Int', 'Long'):
                lop = '=' if op == '==' else '≠' if op == '!=' else op
                return self.strict([a, b], lambda n: f'decide ({n[0]} {lop} {n[1]})', 'Bool')
            elif a.ty in ('Int', 'Long', 'Dbl') and b.ty in ('Int', 'Long', 'Dbl'):
                a, b = self.coerce(a, 'Dbl'), self.coerce(b, 'Dbl')
                if op in ('==', '!='):
                    r = self.strict([a, b], lambda n: self.dom.eq(n[0], n[1]), 'Bool')
                else:
                    return self.strict([a, b], lambda n: f'decide ({n[0]} {op} {n[1]})', 'Bool')
            else:
                self.fail(f'comparison {op} on {a.ty}, {b.ty}')
            return r if op == '==' else self.strict([r], lambda n: f'(!{n[0]})', 'Bool')
        self.fail(f'operator {op} is outside the subset')

    # ---- selections ----
    def select(self, e, env) -> V:
        _, recv, sel = e
        if recv == ('name', 'Double') or recv == ('sel', ('sel', ('name', 'java'), 'lang'), 'Double'):
            if sel == 'MIN_NORMAL':
                return V(self.dom.const(MIN_NORMAL, True, 'java.lang.Double.MIN_NORMAL'), 'Dbl')
            self.fail(f'Double.{sel} outside a recognised position')
        v = self.expr(recv, env)
        t = v.ty
        if t == 'Int':
            if sel == 'toDouble':
                return self.coerce(v, 'Dbl')
            if sel == 'toInt':
                return v
            if sel == 'toLong':
                return V(v.term, 'Long', v.out)
        if t == 'Long':
            if sel == 'toDouble':
                return self.coerce(v, 'Dbl')
            if sel == 'toLong':
                return v
            if sel == 'toInt':          # narrowing: the low 32 bits
                if self.dom.q:
                    return V(v.term, 'Int', v.out)
                return self.strict([v], lambda n: f'(wrap32 {n[0]})', 'Int')
        if t == 'Dbl':
            if sel == 'toDouble':
                return v
            if sel in ('toInt', 'toLong'):    # truncation toward zero, saturating, NaN -> 0
                f = 'truncQ' if self.dom.q else ('dblToInt32' if sel == 'toInt' else 'dblToInt64')
                return self.strict([v], lambda n: f'({f} {n[0]})', 'Int' if sel == 'toInt' else 'Long')
        if isinstance(t, tuple) and t[0] == 'List':
            if sel == 'sum' and t[1] == 'Dbl':
                return self.strict([v], lambda n: f'(sumL {n[0]})', 'Dbl')
            if sel == 'tail':
                return self.strict([v], lambda n: f'(List.tail {n[0]})', t)
            if sel == 'zipWithIndex':
                return self.strict([v], lambda n: f'(zipWithIndex {n[0]})', ('List', ('Tup', t[1], 'Int')))
            if sel == 'toArray':
                return v
        if isinstance(t, tuple) and t[0] == 'Tup' and sel in ('_1', '_2'):
            return self.strict([v], lambda n: f'{n[0]}.{sel[1]}', t[int(sel[1])])
        if t == 'LH':
            mem = self.tr.lookup('LH', sel, 0)
            if mem is not None:
                return self.member_call(mem, [], env, self_v=v)
        self.fail(f'selection .{sel} on {t}')

    # ---- calls ----
    def lam(self, node, elem_ty, env):
        """a function argument of a collection method -> (Lean fun term, result type)"""
        e2 = dict(env)
        D = self.dom.ty(elem_ty)
        if node[0] == 'caselambda':
            if not (isinstance(elem_ty, tuple) and elem_ty[0] == 'Tup' and len(node[1]) == 2):
                self.fail('pattern lambda on a non-pair element')
            p = self.name('pr')
            binds = []
            for k, n in enumerate(node[1]):
                if n != '_':
                    e2[n] = ('var', n, elem_ty[k + 1])
                    binds.append(f'let {n} := {p}.{k + 1};')
            v = self.stmts(list(node[2][1]), e2)
            if v.out:
                self.fail('throwing lambda')
            return f'(fun ({p} : {D}) => {" ".join(binds)} {v.term})', v.ty
        if node[0] == 'lambda':
            if len(node[1]) != 1:
                self.fail('lambda arity')
            x = node[1][0][0]
            e2[x] = ('var', x, elem_ty)
            v = self.expr(node[2], e2)
        else:
            x = self.name('x')
            e2[x] = ('var', x, elem_ty)

            def subst(nd):
                if nd == ('ph',):
                    return ('name', x)
                if isinstance(nd, tuple):
                    return tuple(subst(c) for c in nd)
                if isinstance(nd, list):
                    return [subst(c) for c in nd]
                return nd
            new = subst(node)
            if new == node:
                self.fail('function argument without placeholder')
            v = self.expr(new, e2)
        if v.out:
            self.fail('throwing lambda')
        return f'(fun ({x} : {D}) => {v.term})', v.ty

    def args_for(self, params, args, env, what) -> List[V]:
        """positional / named / default arguments -> values in parameter order, coerced"""
        pos = [a for (n, a) in args if n is None]
        named = {n: a for (n, a) in args if n is not None}
        if len(pos) > len(params) or any(n not in [p[0] for p in params[len(pos):]] for n in named):
            self.fail(f'arguments of {what}')
        out = []
        for i, (pn, pty, dflt) in enumerate(params):
            if i < len(pos):
                a = pos[i]
            elif pn in named:
                a = named[pn]
            elif dflt is not None:
                a = dflt
            else:
                self.fail(f'{what}: no argument for {pn}')
            if pty == 'Erased':
                continue
            out.append(self.coerce(self.expr(a, env), pty))
        return out

    def member_call(self, mem: Member, args, env, self_v: Optional[V] = None) -> V:
        info = self.tr.compile(mem, self.dom)
        if info['uses_lib']:
            self.uses_lib = True
        params = [(n, _SCALA_TYPES.get(ty), d) for (n, ty, d) in mem.d.params]
        # defaults refer to utils vals: evaluated in the callee's container
        vals = self.args_for(params, args, env, f'{mem.cont}.{mem.d.name}') if params else []
        pre = []
        if self.dom.q:
            pre.append('τ')
        if info['uses_lib']:
            pre.append('lib')
        extra = []
        if mem.cont == 'LH':
            if self_v is None:
                if self.m.cont != 'LH':
                    self.fail('method call without receiver')
                self_v = V('self', 'LH')
            extra = [self_v]
        allv = extra + vals
        return self.strict(allv, lambda n: '(' + ' '.join([mem.lean] + pre + n) + ')', info['rty'], info['out'])

    def call(self, e, env) -> V:
        _, f, args = e
        # ((x: Double) => body)(arg)
        if f[0] == 'lambda':
            if len(f[1]) != 1 or len(args) != 1:
                self.fail('lambda application arity')
            (x, ty) = f[1][0]
            t = self.scala_type(ty)
            a = self.coerce(self.expr(args[0][1], env), t)
            e2 = dict(env)
            e2[x] = ('var', x, t)
            b = self.expr(f[2], e2)
            return self.strict([a], lambda n: f'(let {x} := {n[0]}; {b.term})', b.ty, b.out)
        if f[0] == 'name':
            n = f[1]
            b = env.get(n)
            if b is not None and b[0] == 'fn':
                fn: LocalFn = b[1]
                vals = self.args_for(fn.params, args, env, n)
                if fn.special == 'dnhyper':
                    self.uses_lib = True
                    return self.strict(vals, lambda a: f'(lib.dnhyper hgd low high {a[0]})', fn.rty)
                return self.strict(vals, lambda a: '(' + ' '.join([n] + a) + ')', fn.rty, fn.out)
            if b is not None and b[0] == 'var' and isinstance(b[2], tuple) and b[2][0] == 'List':
                if len(args) != 1:
                    self.fail('indexing arity')
                i = self.expr(args[0][1], env)
                if i.ty != 'Int':
                    self.fail('index is not an Int')
                fnm = 'idx' if b[2][1] == 'Dbl' else 'idxI' if b[2][1] == 'Int' else None
                if fnm is None:
                    self.fail('indexing a list of ' + str(b[2][1]))
                return self.strict([i], lambda a: f'({fnm} {b[1]} {a[0]})', b[2][1])
            if n == 'Array':
                vs = [self.expr(a, env) for (_n, a) in args]
                if any(v.ty not in ('Int', 'Dbl') for v in vs):
                    self.fail('Array(..) of non-numbers')
                vs = [self.coerce(v, 'Dbl') for v in vs]
                return self.strict(vs, lambda a: '[' + ', '.join(a) + ']', ('List', 'Dbl'))
            if n == 'LeveneHaldane':
                mem = self.tr.lookup('LHobj', 'apply', len(args))
                if mem is None:
                    self.fail(f'LeveneHaldane.apply/{len(args)}')
                return self.member_call(mem, args, env)
            if n == 'pnorm' and len(args) == 1:
                self.tr.check_pnorm()
                self.uses_lib = True
                vs = [self.coerce(self.expr(a, env), 'Dbl') for (_n, a) in args]
                return self.strict(vs, lambda a: f'(lib.normCdf {a[0]})', 'Dbl')
            if n == 'pchisqtail' and len(args) == 2:
                self.tr.check_pchisqtail()
                self.uses_lib = True
                vs = [self.coerce(self.expr(a, env), 'Dbl') for (_n, a) in args]
                return self.strict(vs, lambda a: f'(lib.chisqTail {a[0]} {a[1]})', 'Dbl')
            for cont in ([self.m.cont] if self.m.cont != 'LHobj' else []) + ['stats', 'utils']:
                mem = self.tr.lookup(cont, n, None, nargs=len(args), named=[a for (a, _x) in args if a])
                if mem is not None:
                    return self.member_call(mem, args, env)
            self.fail(f'unknown function {n}')
        if f[0] == 'sel':
            recv, sel = f[1], f[2]
            if recv == ('name', 'math'):
                vs = [self.expr(a, env) for (_n, a) in args]
                if sel == 'round' and len(vs) == 1:
                    v = self.coerce(vs[0], 'Dbl')
                    return self.strict([v], lambda a: f'({"roundQ" if self.dom.q else "roundF"} {a[0]})', 'Long')
                if sel == 'sqrt' and len(vs) == 1:
                    v = self.coerce(vs[0], 'Dbl')
                    if self.dom.q:
                        self.uses_lib = True       # no rational square root: a parameter of the exact model
                        return self.strict([v], lambda a: f'(lib.sqrt {a[0]})', 'Dbl')
                    return self.strict([v], lambda a: f'(Float.sqrt {a[0]})', 'Dbl')
                if sel == 'abs' and len(vs) == 1 and vs[0].ty == 'Dbl':
                    return self.strict(vs, lambda a: f'({"absQ" if self.dom.q else "Float.abs"} {a[0]})', 'Dbl')
                if sel == 'abs' and len(vs) == 1 and vs[0].ty in ('Int', 'Long'):
                    self.int_ops.append(render(e))
                    w = 'wrap32' if vs[0].ty == 'Int' else 'wrap64'
                    if self.dom.q:
                        return self.strict(vs, lambda a: f'(Int.ofNat (Int.natAbs {a[0]}))', vs[0].ty)
                    return self.strict(vs, lambda a: f'({w} (Int.ofNat (Int.natAbs {a[0]})))', vs[0].ty)
                if sel in ('floor', 'ceil') and len(vs) == 1:
                    v = self.coerce(vs[0], 'Dbl')
                    f = {('floor', True): 'floorQ', ('ceil', True): 'ceilQ', ('floor', False): 'Float.floor', ('ceil', False): 'Float.ceil'}[(sel, self.dom.q)]
                    return self.strict([v], lambda a: f'({f} {a[0]})', 'Dbl')
                if sel in ('max', 'min') and len(vs) == 2:
                    if vs[0].ty in ('Int', 'Long') and vs[1].ty in ('Int', 'Long'):
                        rt = 'Long' if 'Long' in (vs[0].ty, vs[1].ty) else 'Int'
                        return self.strict(vs, lambda a: f'({sel} {a[0]} {a[1]})', rt)
                    vs = [self.coerce(v, 'Dbl') for v in vs]
                    if sel == 'max':
                        return self.strict(vs, lambda a: f'({"max" if self.dom.q else "fmax"} {a[0]} {a[1]})', 'Dbl')
                    return self.strict(vs, lambda a: f'({"min" if self.dom.q else "fmin"} {a[0]} {a[1]})', 'Dbl')
                self.fail(f'math.{sel} is outside the subset')
            rv = self.expr(recv, env)
            t = rv.ty
            if t == 'Int' and sel in ('min', 'max') and len(args) == 1:
                o = self.expr(args[0][1], env)
                if o.ty != 'Int':
                    self.fail(f'Int.{sel} of a non-Int')
                return self.strict([rv, o], lambda a: f'({sel} {a[0]} {a[1]})', 'Int')
            if t == 'Hgd' and len(args) == 1:
                fld = {'logProbability': 'hyperLogPmf', 'probability': 'hyperPmf', 'cumulativeProbability': 'hyperCdf',
                       'upperCumulativeProbability': 'hyperUpper'}.get(sel)
                k = self.expr(args[0][1], env)
                if fld is None or k.ty != 'Int':
                    self.fail(f'HypergeometricDistribution.{sel}')
                self.uses_lib = True
                return self.strict([rv, k], lambda a: f'(lib.{fld} {a[0]} {a[1]})', 'Dbl')
            if t == 'LH':
                mem = self.tr.lookup('LH', sel, None, nargs=len(args), named=[])
                if mem is None:
                    self.fail(f'LeveneHaldane.{sel}/{len(args)}')
                return self.member_call(mem, args, env, self_v=rv)
            if isinstance(t, tuple) and t[0] == 'List':
                el = t[1]
                if sel == 'slice' and len(args) == 2:
                    a = [self.expr(x, env) for (_n, x) in args]
                    if any(x.ty != 'Int' for x in a):
                        self.fail('slice bounds')
                    return self.strict([rv] + a, lambda n: f'(slice {n[0]} {n[1]} {n[2]})', t)
                if sel in ('takeWhile', 'dropWhile', 'filter', 'span', 'map') and len(args) == 1:
                    fun, rty = self.lam(args[0][1], el, env)
                    if sel == 'map':
                        return self.strict([rv], lambda n: f'(List.map {fun} {n[0]})', ('List', rty))
                    if rty != 'Bool':
                        self.fail(f'{sel} with a non-Boolean predicate')
                    if sel == 'span':
                        return self.strict([rv], lambda n: f'(List.span {fun} {n[0]})', ('Tup', t, t))
                    return self.strict([rv], lambda n: f'(List.{sel} {fun} {n[0]})', t)
                if len(args) == 1 and sel == 'apply':
                    pass
            # application of a selected list, e.g. `self.pRU(i)` does not occur; `x.f(..)(i)` neither
            self.fail(f'method .{sel}/{len(args)} on {t}')
        # application of a general expression of list type: e(i)
        v = self.expr(f, env)
        if isinstance(v.ty, tuple) and v.ty[0] == 'List' and len(args) == 1:
            i = self.expr(args[0][1], env)
            fnm = 'idx' if v.ty[1] == 'Dbl' else 'idxI'
            return self.strict([v, i], lambda a: f'({fnm} {a[0]} {a[1]})', v.ty[1])
        self.fail('application outside the subset')

    def new(self, e, env) -> V:
        _, cls, args = e
        if cls == 'LeveneHaldane':
            want = [n for (n, _t) in LH_CLASS_PARAMS]
            if len(args) != len(want) or any(a[0] is not None for a in args):
                self.fail('new LeveneHaldane(..) arguments')
            vs = []
            for (n, ty), (_n, a) in zip(LH_CLASS_PARAMS, args):
                if ty == 'RandomGenerator':
                    continue
                vs.append(self.coerce(self.expr(a, env), _SCALA_TYPES[ty]))
            names = [n for (n, ty) in LH_CLASS_PARAMS if ty != 'RandomGenerator']
            return self.strict(vs, lambda a: '({ ' + ', '.join(f'{n} := {t}' for n, t in zip(names, a)) + f' }} : LHDist {self.dom.num})', 'LH')
        if cls == 'HypergeometricDistribution':
            if len(args) != 4 or args[0][1] != ('name', 'null'):
                self.fail('new HypergeometricDistribution(null, N, m, n)')
            vs = [self.expr(a, env) for (_n, a) in args[1:]]
            if any(v.ty != 'Int' for v in vs):
                self.fail('HypergeometricDistribution parameters')
            return self.strict(vs, lambda a: f'(Hgd.mk {a[0]} {a[1]} {a[2]})', 'Hgd')
        self.fail(f'new {cls}')

    def match(self, e, env) -> V:
        _, scrut, cases = e
        s = self.expr(scrut, env)
        if s.ty != 'Str' or s.out:
            self.fail('match on a non-String')
        branches = []
        for pat, body in cases:
            if pat[0] != 'str':
                self.fail('match pattern')
            v = self.stmts(list(body[1]), env)
            branches.append((pat[1], v))
        tys = {str(v.ty) for _p, v in branches}
        if len(tys) != 1:
            if tys == {'Int', 'Dbl'}:
                branches = [(p, self.coerce(v, 'Dbl')) for p, v in branches]
            else:
                self.fail('match branches of different types')
        term = 'Out.fatal'      # scala.MatchError
        for p, v in reversed(branches):
            term = f'(if decide ({s.term} = "{p}") then {self.as_out(v)} else {term})'
        return V(term, branches[0][1].ty, True)


class Translator:
    def __init__(self, repo: str):
        self.repo = repo
        self.members: Dict[str, List[Member]] = {}
        self.order: Dict[str, List[Member]] = {'Q': [], 'F': []}
        self.in_progress = set()
        self.notes: List[str] = []
        lh = Source(os.path.join(repo, LH_FILE), LH_FILE)
        lo, hi, cparams = lh.container('class', 'LeveneHaldane')
        got = [(n, t) for (n, t, _d) in (cparams or [])]
        if got != LH_CLASS_PARAMS:
            raise TieBroken(f'{LH_FILE}: class LeveneHaldane parameters are {got}, StatsLib.LH models {LH_CLASS_PARAMS}')
        self.members['LH'] = [Member('LH', d, LH_FILE) for d in lh.members(lo, hi, set(LH_METHODS))]
        lo, hi, _ = lh.container('object', 'LeveneHaldane')
        self.members['LHobj'] = [Member('LHobj', d, LH_FILE) for d in lh.members(lo, hi, {'apply'})]
        st = Source(os.path.join(repo, STATS_FILE), STATS_FILE)
        lo, hi, _ = st.container('package object', 'stats')
        self.members['stats'] = [Member('stats', d, STATS_FILE) for d in st.members(
            lo, hi, {'hardyWeinbergTest', 'chiSquaredTest', 'contingencyTableTest', 'fisherExactTest', 'pchisqtail', 'pnorm'})]
        ut = Source(os.path.join(repo, UTILS_FILE), UTILS_FILE)
        lo, hi, _ = ut.container('package object', 'utils')
        self.members['utils'] = [Member('utils', d, UTILS_FILE) for d in ut.members(lo, hi, {'D_==', 'D_>', 'D_epsilon', 'defaultTolerance'})]
        for cont, ms in self.members.items():
            names: Dict[str, int] = {}
            for m in ms:
                names[m.d.name] = names.get(m.d.name, 0) + 1
            for m in ms:
                base = {'LH': 'LeveneHaldane', 'LHobj': 'LeveneHaldane', 'stats': 'stats', 'utils': 'utils'}[cont]
                nm = _SYM.get(m.d.name, m.d.name)
                m.lean = f'{base}_{nm}' + (f'_{m.arity}' if names[m.d.name] > 1 else '')
        self._pchisq_checked = False
        self._pnorm_checked = False

    def lookup(self, cont, name, arity, nargs=None, named=None) -> Optional[Member]:
        cands = [m for m in self.members.get(cont, []) if m.d.name == name]
        if arity is not None:
            cands = [m for m in cands if m.arity == arity]
        elif nargs is not None:
            ok = []
            for m in cands:
                ps = m.d.params
                if nargs > len(ps):
                    continue
                npos = nargs - len(named or [])
                if any(k not in [p[0] for p in ps[npos:]] for k in (named or [])):
                    continue
                if all(i < npos or p[0] in (named or []) or p[2] is not None for i, p in enumerate(ps)):
                    ok.append(m)
            exact = [m for m in ok if len(m.d.params) == nargs]
            cands = exact if exact else ok
        if len(cands) > 1:
            raise TieBroken(f'ambiguous reference to {cont}.{name}')
        return cands[0] if cands else None

    def check_pnorm(self):
        if self._pnorm_checked:
            return
        m5 = self.lookup('stats', 'pnorm', 5)
        m1 = self.lookup('stats', 'pnorm', 1)
        if m5 is None or m1 is None:
            raise TieBroken('pnorm/5 or pnorm/1 not found')
        if [p[0] for p in m5.d.params] != ['x', 'mu', 'sigma', 'lowerTail', 'logP'] or _strip(m5.d.body) != _strip(_parse_expr(PIN_PNORM_5)):
            raise TieBroken(f'pnorm/5 is no longer `{PIN_PNORM_5}` (Lib.normCdf)')
        if [p[0] for p in m1.d.params] != ['x'] or _strip(m1.d.body) != _strip(_parse_expr(PIN_PNORM_1)):
            raise TieBroken(f'pnorm/1 is no longer `{PIN_PNORM_1}` (standard normal lower tail: Lib.normCdf)')
        self._pnorm_checked = True

    def check_pchisqtail(self):
        if self._pchisq_checked:
            return
        m4 = self.lookup('stats', 'pchisqtail', 4)
        m2 = self.lookup('stats', 'pchisqtail', 2)
        if m4 is None or m2 is None:
            raise TieBroken('pchisqtail/4 or pchisqtail/2 not found')
        if [p[0] for p in m4.d.params] != ['x', 'df', 'lowerTail', 'logP'] or _strip(m4.d.body) != _strip(_parse_expr(PIN_PCHISQTAIL_4)):
            raise TieBroken(f'pchisqtail/4 is no longer `{PIN_PCHISQTAIL_4}` (Lib.chisqTail)')
        if [p[0] for p in m2.d.params] != ['x', 'df'] or _strip(m2.d.body) != _strip(_parse_expr(PIN_PCHISQTAIL_2)):
            raise TieBroken(f'pchisqtail/2 is no longer `{PIN_PCHISQTAIL_2}` (upper tail, not log: Lib.chisqTail)')
        self._pchisq_checked = True

    def compile(self, m: Member, dom: Dom) -> dict:
        key = 'Q' if dom.q else 'F'
        if key in m.done:
            return m.done[key]
        ident = (m.cont, m.d.name, m.arity, key)
        if ident in self.in_progress:
            raise TieBroken(f'{m.cont}.{m.d.name} is recursive')
        self.in_progress.add(ident)
        c = Compiler(self, dom, m)
        v, params = c.compile_member()
        pre = []
        if dom.q:
            pre.append('(τ : Rat)')
        if c.uses_lib:
            pre.append(f'(lib : Lib {dom.num})')
        if m.cont == 'LH':
            pre.append(f'(self : LHDist {dom.num})')
        binders = ' '.join(pre + [f'({n} : {dom.ty(t)})' for (n, t) in params])
        rty = dom.ty(v.ty)
        rty = f'Out ({rty})' if v.out else rty
        h = hashlib.sha1(m.d.text.encode()).hexdigest()[:12]
        slice_note = f'; sliced on `pvalue`, skipped: {", ".join(sorted(c.skipped))}' if c.skipped else ''
        text = (f'/-- `{m.d.name}` — {m.fname}:{m.d.line0}-{m.d.line1} (sha1 of the text {h}){slice_note} -/\n'
                f'def {m.lean}{" " + binders if binders else ""} : {rty} :=\n  {v.term}\n')
        info = {'rty': v.ty, 'out': v.out, 'uses_lib': c.uses_lib, 'text': text, 'skipped': c.skipped, 'int_ops': c.int_ops,
                'lib_fields': sorted(set(re.findall(r'lib\.(\w+)', v.term)))}
        m.done[key] = info
        self.order[key].append(m)
        self.in_progress.discard(ident)
        return info

    def run(self) -> str:
        out = ['import HailVerif.Model.StatsLib',
               '/-!',
               '# GENERATED by harness/extract/scala_stats.py — do not edit',
               '',
               'Re-emitted from the working tree on every run of `./check C37` from',
               f'* `{LH_FILE}`', f'* `{STATS_FILE}`', f'* `{UTILS_FILE}` (D_==, D_>, D_epsilon)',
               '',
               '`Exact`: Double ↦ Rat, tolerance literals (|x| ≤ 1e-6) scaled by the first parameter τ.  `Flt`: Double ↦ Float.',
               'See the header of the translator for the subset and the meaning of `Out`, `Lib`, `LH`, `unfold`.',
               '-/',
               'set_option linter.unusedVariables false',
               'namespace HailVerif.Generated.ScalaStats',
               'open HailVerif.StatsLib',
               '']
        for key, dom in (('Q', Dom(True)), ('F', Dom(False))):
            for (cont, name, ar) in ROOTS:
                m = self.lookup(cont, name, ar)
                if m is None:
                    raise TieBroken(f'root {cont}.{name}/{ar} not found')
                self.compile(m, dom)
            out.append(f'namespace {dom.ns}')
            out.append('')
            for m in self.order[key]:
                out.append(m.done[key]['text'])
            out.append(f'end {dom.ns}')
            out.append('')
            if key == 'Q':
                out.append('/-- every `Int` / `Long` arithmetic operation (`+ - * / %`, unary `-`, `abs`) the translated members perform, as Scala text:')
                out.append('on these (and only these) the exact model over ℤ and the JVM can differ, namely when a result leaves the 32-bit (Int) or 64-bit (Long) range -/')
                out.append('def intArith : List (String × List String) := [')
                rows = []
                for m in self.order[key]:
                    ops = m.done[key]['int_ops']
                    rows.append(f'  ("{m.lean}", [' + ', '.join('"' + o.replace('"', "'") + '"' for o in ops) + '])')
                out.append(',\n'.join(rows) + ']')
                out.append('')
        out.append('end HailVerif.Generated.ScalaStats')
        names = [m.lean for m in self.order['Q']]
        sk = sorted({s for m in self.order['Q'] for s in m.done['Q']['skipped']})
        self.notes.append(f'T tie: translated {len(names)} Scala members twice (Exact over Rat with tolerance scale τ, Flt over Float): '
                          + ', '.join(names))
        self.notes.append('pinned textually (AST equality): pchisqtail/2, pchisqtail/4, and in fisherExactTest support, hgd, dhyper, logdc, dnhyper; '
                          'fisherExactTest sliced on pvalue, not translated: ' + ', '.join(sk))
        return '\n'.join(out) + '\n'


LAST_LIB_USE: Dict[str, List[str]] = {}     # member -> Lib fields its translated body refers to (last translate())


def translate(repo: str) -> Tuple[str, List[str]]:
    tr = Translator(repo)
    text = tr.run()
    LAST_LIB_USE.clear()
    LAST_LIB_USE.update({m.lean: m.done['Q']['lib_fields'] for m in tr.order['Q']})
    return text, tr.notes


def generate(repo: str) -> List[str]:
    text, notes = translate(repo)
    changed = write_if_changed(OUT, text)
    notes.append('Generated/ScalaStats.lean ' + ('rewritten' if changed else 'unchanged') + f' (sha1 {hashlib.sha1(text.encode()).hexdigest()[:12]})')
    return notes


if __name__ == '__main__':
    import sys
    print(translate(sys.argv[1] if len(sys.argv) > 1 else '/repo')[0])

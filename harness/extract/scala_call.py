"""Scala -> Lean translator for the tiny total `Int` functions of the engine's genotype-call packing (C34, T tie).

Input : hail/hail/src/is/hail/variant/Call.scala, Genotype.scala (text only; nothing Scala is ever run)
Output: lean/HailVerif/Generated/ScalaCall.lean — one Lean `def` per translated Scala `def`/`val`, on `BitVec 32`
        (`HailVerif.Jvm`), `Option` where the Scala can throw (`fatal`, `throw`, `require`, `assert`, array index).

Subset (anything else inside a ROOT function or one it calls raises framework.TieBroken — never guessed):
  members  `def f(p: Int|Call|Boolean [= literal], ...): Int|Call|Boolean = body`, `val v: Array[Int] = Array(e, ...)`
  body     expression or `{ stmt* expr }`
  stmt     `val x[: T] = e` | `var x = e` | `x |= e` | `if (c) x |= e else x |= e`
           | `if (c) fatal(...)` | `if (c) { throw new X(...) }` | `require(c[, msg])` | `assert(c[, msg])`
  expr     `if (c) e else e` | Int literals (decimal/hex) | `true`/`false` | names | calls with positional/named/default
           arguments (`f(..)`, `Obj.f(..)`, `Obj(..)` = `Obj.apply(..)`), table index `v(i)`, `v.length`, `b.toInt`
           | unary `-` `!` | binary `| & ^`(not used) `<< >> >>> + - *`, `/ literal`, `== != < <= > >=`, `|| &&`
           with Scala's precedence by first operator character
           | the float step `(Math.sqrt(D) / 2 - 0.5).toInt` where D is built from Int expressions (32-bit wrapping, BitVec 32),
             `.toDouble`, integer-valued Double literals and `+ - *`, with the Int -> Double widening exactly where Scala's static
             types put it (`8 * i.toDouble + 1` widens i first; `8 * i + 1.0` multiplies in Int - wrapping - and widens the product)
"""
from __future__ import annotations

import hashlib
import os
import re
from typing import Dict, List, Optional, Tuple

from ..framework import LEAN, TieBroken, write_if_changed

FILES = ['hail/hail/src/is/hail/variant/Call.scala', 'hail/hail/src/is/hail/variant/Genotype.scala']
RICH_BOOLEAN = 'hail/hail/utils/src/is/hail/utils/implicits/RichBoolean.scala'
OUT = os.path.join(LEAN, 'HailVerif', 'Generated', 'ScalaCall.lean')

# (object, member, arity or None)
ROOTS = [
    ('Call0', 'apply', None), ('Call1', 'apply', None), ('Call2', 'fromUnphasedDiploidGtIndex', None), ('Call2', 'apply', None),
    ('Call', 'apply', None), ('Call', 'isPhased', None), ('Call', 'isHaploid', None), ('Call', 'isDiploid', None),
    ('Call', 'isUnphasedDiploid', None), ('Call', 'isPhasedDiploid', None), ('Call', 'ploidy', None), ('Call', 'alleleRepr', None),
    ('Call', 'allelePair', None), ('Call', 'allelePairUnchecked', None), ('Call', 'unphasedDiploidGtIndex', None),
    ('AllelePair', 'apply', None), ('AllelePair', 'fromNonNormalized', None), ('AllelePair', 'j', None), ('AllelePair', 'k', None),
    ('AllelePair', 'nNonRefAlleles', None),
    ('Genotype', 'diploidGtIndex', 2), ('Genotype', 'diploidGtIndex', 1), ('Genotype', 'diploidGtIndexWithSwap', None),
    ('Genotype', 'allelePair', None), ('Genotype', 'allelePairSqrt', None), ('Genotype', 'smallAllelePair', None),
]

# `CallN.apply(alleles: IndexedSeq[Int], phased)` dispatches on the ploidy; Model/CallEngine.lean transcribes the dispatch by hand
# (`enginePack`), tied to this normalised text.
CALLN_DISPATCH = ('val ploidy = alleles . length ( ploidy : @ switch ) match { case 0 => Call0 ( phased ) case 1 => Call1 ( alleles ( 0 ) , '
                  'phased ) case 2 => Call2 ( alleles ( 0 ) , alleles ( 1 ) , phased ) case _ => throw new UnsupportedOperationException }')
CALL_ALLELES = ('( ploidy ( c ) : @ switch ) match { case 0 => ArraySeq ( ) case 1 => ArraySeq ( alleleByIndex ( c , 0 ) ) case 2 => '
                'AllelePair . alleleIndices ( allelePair ( c ) ) case _ => throw new UnsupportedOperationException }')
ALLELE_BY_INDEX_1 = 'case 1 => if ( i != 0 ) fatal ( STR ) alleleRepr ( c ) case 2'
ALLELE_INDICES = 'ArraySeq ( j ( p ) , k ( p ) )'


class Tok:
    __slots__ = ('kind', 'text', 'line', 'nl', 'pos', 'end')

    def __init__(self, kind, text, line, nl, pos, end):
        self.kind, self.text, self.line, self.nl, self.pos, self.end = kind, text, line, nl, pos, end

    def __repr__(self):
        return f'{self.text!r}@{self.line}'


_OPS = ['>>>=', '>>>', '<<=', '>>=', '++=', '<<', '>>', '<=', '>=', '==', '!=', '&&', '||', '|=', '&=', '+=', '-=', '=>', '<-', '->',
        '+', '-', '*', '/', '%', '|', '&', '^', '!', '<', '>', '=', '(', ')', '{', '}', '[', ']', ',', '.', ':', ';', '@', '_', '#', '~', '?']
_TOKEN = re.compile(
    r'(?P<ws>[ \t\r]+)|(?P<nl>\n)|(?P<lc>//[^\n]*)|(?P<bc>/\*.*?\*/)|'
    r'(?P<str>[a-zA-Z]*"""(?:.|\n)*?"""|[a-zA-Z]*"(?:\\.|[^"\\\n])*")|(?P<chr>\'(?:\\.|[^\'\\])\')|'
    r'(?P<num>0[xX][0-9a-fA-F]+[lL]?|\d+\.\d+(?:[eE][+-]?\d+)?[dDfF]?|\d+[lLdDfF]?)|(?P<id>[A-Za-z_][A-Za-z0-9_]*|`[^`]+`)|'
    r'(?P<op>' + '|'.join(re.escape(o) for o in _OPS) + ')', re.S)


def tokenize(src: str, fname: str) -> List[Tok]:
    toks: List[Tok] = []
    i, line, nl = 0, 1, False
    while i < len(src):
        m = _TOKEN.match(src, i)
        if not m:
            raise TieBroken(f'{fname}:{line}: cannot tokenize {src[i:i + 20]!r}')
        k = m.lastgroup
        t = m.group(0)
        if k == 'nl':
            nl = True
            line += 1
        elif k in ('ws', 'lc'):
            pass
        elif k == 'bc':
            line += t.count('\n')
        else:
            toks.append(Tok(k, t, line, nl, i, m.end()))
            nl = False
            line += t.count('\n')
        i = m.end()
    return toks


class Member:
    def __init__(self, obj, kind, name, params, rtype, body, fname, src):
        self.obj, self.kind, self.name, self.params, self.rtype, self.body, self.fname = obj, kind, name, params, rtype, body, fname
        self.arity = len(params) if params is not None else 0
        self.text = src[body[0].pos:body[-1].end] if body else ''
        self.line0 = body[0].line if body else 0
        self.line1 = body[-1].line if body else 0
        self.lean_name = None
        self.partial = None
        self.lean_type = None     # 'I32' | 'Bool' | 'Arr'
        self.emitted = None

    @property
    def key(self):
        return (self.obj, self.name, self.arity)


_MEMBER_START = {'def', 'val', 'var', 'lazy', 'private', 'protected', 'override', 'implicit', 'final', 'object', 'class', 'type', 'case', 'trait',
                 'abstract', 'sealed'}
_TYPES = {'Int': 'I32', 'Call': 'I32', 'Boolean': 'Bool'}


def _match_brace(toks, i):
    depth = 0
    open_, close = toks[i].text, {'{': '}', '(': ')', '[': ']'}[toks[i].text]
    j = i
    while j < len(toks):
        if toks[j].text == open_:
            depth += 1
        elif toks[j].text == close:
            depth -= 1
            if depth == 0:
                return j
        j += 1
    raise TieBroken(f'unbalanced {open_} at line {toks[i].line}')


def scan_members(src: str, fname: str) -> List[Member]:
    toks = tokenize(src, fname)
    out: List[Member] = []
    i = 0
    while i < len(toks):
        if toks[i].text == 'object' and toks[i + 1].kind == 'id':
            obj = toks[i + 1].text
            j = i + 2
            while toks[j].text != '{':
                j += 1
            end = _match_brace(toks, j)
            out += _scan_object(toks, j + 1, end, obj, fname, src)
            i = end + 1
        else:
            i += 1
    return out


def _scan_object(toks, lo, hi, obj, fname, src) -> List[Member]:
    """members at brace depth 0 of toks[lo:hi]"""
    starts = []
    depth = 0
    i = lo
    while i < hi:
        t = toks[i]
        if t.text in '({[' and t.kind == 'op':
            depth += 1
        elif t.text in ')}]' and t.kind == 'op':
            depth -= 1
        elif depth == 0 and t.kind == 'id' and t.text in _MEMBER_START and (t.nl or i == lo):
            starts.append(i)
        i += 1
    starts.append(hi)
    res = []
    for a, b in zip(starts, starts[1:]):
        seg = toks[a:b]
        k = 0
        while k < len(seg) and seg[k].text in ('private', 'protected', 'override', 'implicit', 'final', 'lazy', '[', ']', 'this'):
            k += 1
        if k >= len(seg) or seg[k].text not in ('def', 'val'):
            continue
        kind = seg[k].text
        name = seg[k + 1].text
        k += 2
        params = None
        if kind == 'def':
            params = []
            if seg[k].text == '(':
                close = _match_brace(seg, k)
                params = _parse_params(seg[k + 1:close])
                k = close + 1
        rtype = None
        if k < len(seg) and seg[k].text == ':':
            k += 1
            ts = []
            while k < len(seg) and seg[k].text != '=':
                ts.append(seg[k].text)
                k += 1
            rtype = ''.join(ts)
        if k >= len(seg) or seg[k].text != '=':
            continue
        body = seg[k + 1:]
        res.append(Member(obj, kind, name, params, rtype, body, fname, src))
    return res


def _parse_params(toks):
    """-> list of (name, type-string, default-token-list or None); None type means unsupported"""
    params = []
    cur: List[Tok] = []
    depth = 0
    parts = []
    for t in toks:
        if t.text in '([{' and t.kind == 'op':
            depth += 1
        if t.text in ')]}' and t.kind == 'op':
            depth -= 1
        if t.text == ',' and depth == 0:
            parts.append(cur)
            cur = []
        else:
            cur.append(t)
    if cur:
        parts.append(cur)
    for p in parts:
        name = p[0].text
        if len(p) < 3 or p[1].text != ':':
            params.append((name, None, None))
            continue
        k = 2
        ts = []
        while k < len(p) and p[k].text != '=':
            ts.append(p[k].text)
            k += 1
        default = p[k + 1:] if k < len(p) else None
        params.append((name, ''.join(ts), default))
    return params


# ------------------------------------------------------------------------------------------------
# expression compiler


class V:
    """compiled value: Lean term, type ('I32'|'Bool'|'Arr'), partial (term : Option T)"""
    __slots__ = ('term', 'ty', 'partial')

    def __init__(self, term, ty, partial=False):
        self.term, self.ty, self.partial = term, ty, partial


# Scala precedence by first character, lowest first
_PREC = [('|',), ('^',), ('&',), ('=', '!'), ('<', '>'), (':',), ('+', '-'), ('*', '/', '%')]
_BINOPS = {'|', '||', '&', '&&', '^', '==', '!=', '<', '<=', '>', '>=', '<<', '>>', '>>>', '+', '-', '*', '/', '%'}


def _prec(op):
    for lvl, chars in enumerate(_PREC):
        if op[0] in chars:
            return lvl
    return None


class Compiler:
    def __init__(self, members: Dict[Tuple[str, str, int], Member], by_name: Dict[Tuple[str, str], List[Member]], objects):
        self.members, self.by_name, self.objects = members, by_name, objects
        self.fresh = 0
        self.deps: List[Member] = []

    # ---- driver ----
    def compile_member(self, m: Member, resolve):
        self.m, self.toks, self.i, self.resolve = m, m.body, 0, resolve
        self.fresh = 0
        env = {}
        if m.kind == 'def':
            for (n, ty, _d) in m.params:
                if ty not in _TYPES:
                    self.fail(f'parameter {n}: {ty} is outside the subset')
                env[n] = _TYPES[ty]
            if m.rtype not in _TYPES:
                self.fail(f'result type {m.rtype} is outside the subset')
            v = self.body(env)
            if v.ty != _TYPES[m.rtype]:
                self.fail(f'body has type {v.ty}, declared {m.rtype}')
        else:
            if m.rtype != 'Array[Int]':
                self.fail(f'val of type {m.rtype} is outside the subset')
            v = self.array_literal(env)
        if self.i != len(self.toks):
            self.fail(f'unconsumed tokens from {self.toks[self.i]!r}')
        return v

    def fail(self, why):
        line = self.toks[min(self.i, len(self.toks) - 1)].line if self.toks else 0
        raise TieBroken(f'{self.m.fname}:{line}: {self.m.obj}.{self.m.name}: {why}')

    # ---- token helpers ----
    def peek(self, k=0):
        return self.toks[self.i + k] if self.i + k < len(self.toks) else None

    def at(self, text, k=0):
        t = self.peek(k)
        return t is not None and t.text == text and t.kind != 'str'

    def eat(self, text):
        if not self.at(text):
            self.fail(f'expected {text!r}, found {self.peek()!r}')
        self.i += 1

    def name(self):
        self.fresh += 1
        return f't{self.fresh}'

    # ---- combinators ----
    @staticmethod
    def opt(v: V) -> str:
        return v.term if v.partial else f'some ({v.term})'

    def strict(self, args: List[V], build, ty, build_partial=False) -> V:
        names = []
        for a in args:
            names.append(self.name() if a.partial else a.term)
        inner = build(names)
        if not any(a.partial for a in args):
            return V(inner, ty, build_partial)
        inner = inner if build_partial else f'some ({inner})'
        for a, n in reversed(list(zip(args, names))):
            if a.partial:
                inner = f'({a.term}).bind fun {n} => {inner}'
        return V(inner, ty, True)

    # ---- blocks / statements ----
    def body(self, env) -> V:
        if self.at('{'):
            return self.block(env)
        return self.expr(env)

    def block(self, env) -> V:
        self.eat('{')
        v = self.stmts(dict(env))
        self.eat('}')
        return v

    def skip_call_args(self):
        """skip `( ... )` of fatal/throw: message strings are not interpreted"""
        if not self.at('('):
            self.fail('expected (')
        close = _match_brace(self.toks, self.i)
        self.i = close + 1

    def is_fail_here(self):
        return self.at('fatal') or self.at('throw')

    def fail_stmt(self):
        if self.at('fatal'):
            self.i += 1
            self.skip_call_args()
        else:
            self.eat('throw')
            self.eat('new')
            if self.peek().kind != 'id':
                self.fail('throw new <Class>')
            self.i += 1
            if self.at('('):
                self.skip_call_args()

    def stmts(self, env) -> V:
        # returns the value of the block with the remaining statements as continuation
        if self.at('}'):
            self.fail('block without a result expression')
        if self.at(';'):
            self.i += 1
            return self.stmts(env)
        if self.at('val') or self.at('var'):
            self.i += 1
            x = self.peek().text
            self.i += 1
            if self.at(':'):
                self.i += 1
                ty = self.peek().text
                if ty not in _TYPES:
                    self.fail(f'local of type {ty}')
                self.i += 1
            self.eat('=')
            e = self.expr(env)
            env = dict(env)
            env[x] = e.ty
            rest = self.stmts(env)
            return self.let(x, e, rest)
        if self.at('require') or self.at('assert'):
            self.i += 1
            self.eat('(')
            c = self.expr(env)
            if c.ty != 'Bool':
                self.fail('require/assert of a non-Boolean')
            if self.at(','):
                # message: skip to the closing paren
                depth = 0
                while not (self.at(')') and depth == 0):
                    if self.at('('):
                        depth += 1
                    elif self.at(')'):
                        depth -= 1
                    self.i += 1
            self.eat(')')
            rest = self.stmts(env)
            return self.strict([c], lambda n: f'if !({n[0]}) then none else\n  {self.opt(rest)}', rest.ty, True)
        if self.at('if'):
            save = self.i
            self.i += 1
            self.eat('(')
            c = self.expr(env)
            self.eat(')')
            braced = False
            if self.at('{') and (self.at('fatal', 1) or self.at('throw', 1)):
                braced = True
                self.i += 1
            if self.is_fail_here():
                self.fail_stmt()
                if braced:
                    self.eat('}')
                if self.at('else'):
                    self.fail('else after a throwing branch is outside the subset')
                if self.at('}'):
                    self.fail('block ends with a guard')
                rest = self.stmts(env)
                return self.strict([c], lambda n: f'if {n[0]} then none else\n  {self.opt(rest)}', rest.ty, True)
            if self.peek().kind == 'id' and self.at('|=', 1):
                x, a = self.assign(env)
                self.eat('else')
                y, b = self.assign(env)
                if x != y:
                    self.fail('if/else assign different variables')
                e = self.strict([c, a, b], lambda n: f'if {n[0]} then {n[1]} else {n[2]}', 'I32')
                rest = self.stmts(env)
                return self.let(x, e, rest)
            self.i = save   # an if-expression: must be the block result
        if self.peek().kind == 'id' and self.at('|=', 1):
            x, e = self.assign(env)
            rest = self.stmts(env)
            return self.let(x, e, rest)
        e = self.expr(env)
        if not self.at('}'):
            self.fail(f'statement outside the subset near {self.peek()!r}')
        return e

    def assign(self, env):
        x = self.peek().text
        if env.get(x) != 'I32':
            self.fail(f'|= on {x}')
        self.i += 1
        self.eat('|=')
        e = self.expr(env)
        if e.ty != 'I32':
            self.fail('|= with a non-Int')
        return x, self.strict([e], lambda n: f'({x} ||| {n[0]})', 'I32')

    def let(self, x, e: V, rest: V) -> V:
        if e.partial:
            return V(f'({e.term}).bind fun {x} =>\n  {self.opt(rest)}', rest.ty, True)
        return V(f'let {x} := {e.term}\n  {rest.term}', rest.ty, rest.partial)

    # ---- expressions ----
    def expr(self, env) -> V:
        if self.at('if'):
            self.i += 1
            self.eat('(')
            c = self.expr(env)
            self.eat(')')
            if c.ty != 'Bool':
                self.fail('if condition is not Boolean')
            a = self.branch(env)
            if not self.at('else'):
                self.fail('if-expression without else')
            self.eat('else')
            b = self.branch(env)
            if a.ty != b.ty:
                self.fail('if branches of different types')
            if a.partial or b.partial:
                return self.strict([c], lambda n: f'if {n[0]} then {self.opt(a)} else {self.opt(b)}', a.ty, True)
            return self.strict([c], lambda n: f'(if {n[0]} then {a.term} else {b.term})', a.ty)
        return self.binary(env, 0)

    def branch(self, env) -> V:
        if self.at('{'):
            v = self.block(env)
            return V(f'({v.term})', v.ty, v.partial)
        if self.is_fail_here():
            self.fail('throwing if-expression branch')
        return self.expr(env)

    def binary(self, env, lvl) -> V:
        if lvl >= len(_PREC):
            return self.unary(env)
        left = self.binary(env, lvl + 1)
        while True:
            t = self.peek()
            if t is None or t.kind != 'op' or t.text not in _BINOPS or _prec(t.text) != lvl:
                break
            if t.nl:
                self.fail(f'infix operator {t.text} at the start of a line')
            self.i += 1
            right = self.binary(env, lvl + 1)
            left = self.binop(t.text, left, right)
        return left

    def binop(self, op, a: V, b: V) -> V:
        tys = (a.ty, b.ty)
        if op in ('||', '&&'):
            if tys != ('Bool', 'Bool'):
                self.fail(f'{op} on non-Booleans')
            if b.partial:
                self.fail(f'{op} with a throwing right operand (short-circuit) is outside the subset')
            return self.strict([a, b], lambda n: f'({n[0]} {op} {n[1]})', 'Bool')
        if op in ('|', '&') and tys == ('Bool', 'Bool'):
            lop = {'|': '||', '&': '&&'}[op]   # non-short-circuit: both operands are evaluated (strict)
            return self.strict([a, b], lambda n: f'({n[0]} {lop} {n[1]})', 'Bool')
        if 'Dbl' in tys and set(tys) <= {'Dbl', 'I32'}:
            if op not in ('+', '-', '*'):
                self.fail(f'Double operator {op} is outside the subset (only + - * on integer-valued doubles are exact)')
            a, b = self.widen(a), self.widen(b)      # Scala widens the Int operand of a mixed operation
            return self.strict([a, b], lambda n: f'({n[0]} {op} {n[1]})', 'Dbl')
        if tys != ('I32', 'I32'):
            if op in ('==', '!=') and tys == ('Bool', 'Bool'):
                return self.strict([a, b], lambda n: f'({n[0]} {op} {n[1]})', 'Bool')
            self.fail(f'operator {op} on {tys}')
        if op in ('|', '&', '^', '+', '-', '*'):
            lop = {'|': '|||', '&': '&&&', '^': '^^^'}.get(op, op)
            return self.strict([a, b], lambda n: f'({n[0]} {lop} {n[1]})', 'I32')
        if op in ('<<', '>>', '>>>'):
            m = re.fullmatch(r'\((\d+)#32\)', b.term)
            if not m:
                self.fail(f'shift by a non-literal distance')
            f = {'<<': 'Jvm.shl', '>>': 'Jvm.sshr', '>>>': 'Jvm.ushr'}[op]
            return self.strict([a], lambda n: f'({f} {n[0]} {m.group(1)})', 'I32')
        if op == '/':
            m = re.fullmatch(r'\((\d+)#32\)', b.term)
            if not m or int(m.group(1)) == 0:
                self.fail('division by a non-literal or zero divisor')
            return self.strict([a], lambda n: f'(Jvm.divLit {n[0]} {b.term})', 'I32')
        if op in ('==', '!=', '<', '<=', '>', '>='):
            f = {'==': 'Jvm.eq', '!=': 'Jvm.ne', '<': 'Jvm.lt', '<=': 'Jvm.le', '>': 'Jvm.gt', '>=': 'Jvm.ge'}[op]
            return self.strict([a, b], lambda n: f'({f} {n[0]} {n[1]})', 'Bool')
        self.fail(f'operator {op} is outside the subset')

    def unary(self, env) -> V:
        if self.at('!'):
            self.i += 1
            v = self.unary(env)
            if v.ty != 'Bool':
                self.fail('! on a non-Boolean')
            return self.strict([v], lambda n: f'(!{n[0]})', 'Bool')
        if self.at('-'):
            self.i += 1
            v = self.unary(env)
            if v.ty != 'I32':
                self.fail('unary - on a non-Int')
            return self.strict([v], lambda n: f'(-{n[0]})', 'I32')
        return self.postfix(env, self.primary(env))

    def postfix(self, env, v: V) -> V:
        while self.at('.'):
            sel = self.peek(1)
            if sel.text == 'toInt' and v.ty == 'Bool' and not self.at('(', 2):
                self.i += 2
                v = self.strict([v], lambda n: f'(Jvm.boolToInt {n[0]})', 'I32')
            elif sel.text == 'toDouble' and v.ty == 'I32' and not self.at('(', 2):
                self.i += 2
                v = self.widen(v)
            elif sel.text == 'length' and v.ty == 'Arr' and not self.at('(', 2):
                self.i += 2
                v = self.strict([v], lambda n: f'(Jvm.length {n[0]})', 'I32')
            else:
                self.fail(f'selection .{sel.text} on {v.ty}')
        return v

    def widen(self, v: V) -> V:
        """Int -> Double (exact): the value as a Lean Int"""
        if v.ty == 'Dbl':
            return v
        if v.ty != 'I32':
            self.fail(f'cannot widen {v.ty} to Double')
        m = re.fullmatch(r'\((\d+)#32\)', v.term)
        if m and not v.partial:
            return V(f'({m.group(1)} : Int)', 'Dbl')
        return self.strict([v], lambda n: f'(BitVec.toInt {n[0]})', 'Dbl')

    def primary(self, env) -> V:
        t = self.peek()
        if t is None:
            self.fail('unexpected end of body')
        if t.text == '(' and self.at('Math', 1):
            # ( Math . sqrt ( D ) / 2 - 0.5 ) . toInt
            for k, want in enumerate(['(', 'Math', '.', 'sqrt', '(']):
                if not self.at(want, k):
                    self.fail('floating-point expression other than (Math.sqrt(D) / 2 - 0.5).toInt')
            self.i += 5
            d = self.widen(self.expr(env))
            for want in [')', '/', '2', '-', '0.5', ')', '.', 'toInt']:
                if not self.at(want):
                    self.fail('floating-point expression other than (Math.sqrt(D) / 2 - 0.5).toInt')
                self.i += 1
            return self.strict([d], lambda n: f'(Jvm.triRootR {n[0]})', 'I32')
        if t.text == '(':
            self.i += 1
            v = self.expr(env)
            self.eat(')')
            return V(v.term if v.term.startswith('(') and v.term.endswith(')') else f'({v.term})', v.ty, v.partial)
        if t.text == '{':
            v = self.block(env)
            return V(f'({v.term})', v.ty, v.partial)
        if t.kind == 'num':
            txt = t.text
            if re.fullmatch(r'0[xX][0-9a-fA-F]+', txt):
                val = int(txt, 16)
            elif re.fullmatch(r'\d+', txt):
                val = int(txt)
            elif re.fullmatch(r'\d+\.0+', txt):
                self.i += 1
                return V(f'({int(txt.split(".")[0])} : Int)', 'Dbl')     # an integer-valued Double literal, exact
            else:
                self.fail(f'literal {txt} is not an Int (or an integer-valued Double)')
            if val >= 2 ** 32 or (val >= 2 ** 31 and not txt.lower().startswith('0x')):
                self.fail(f'literal {txt} out of Int range')
            self.i += 1
            return V(f'({val}#32)', 'I32')
        if t.kind != 'id':
            self.fail(f'unexpected token {t.text!r}')
        if t.text in ('true', 'false'):
            self.i += 1
            return V(t.text, 'Bool')
        # name, call, qualified call
        self.i += 1
        if t.text in env and not self.at('('):
            return V(t.text, env[t.text])
        if t.text in env and self.at('('):
            self.fail(f'application of the local {t.text}')
        obj, nm = self.m.obj, t.text
        if self.at('.') and t.text in self.objects:
            sel = self.peek(1)
            if sel.kind != 'id':
                self.fail('qualified name')
            obj, nm = t.text, sel.text
            self.i += 2
        elif t.text in self.objects and (self.m.obj, t.text) not in self.by_name:
            obj, nm = t.text, 'apply'
        elif (self.m.obj, t.text) not in self.by_name:
            self.fail(f'unknown name {t.text}')
        cands = self.by_name.get((obj, nm), [])
        if not cands:
            self.fail(f'unknown member {obj}.{nm}')
        if cands[0].kind == 'val':
            target = self.resolve(cands[0])
            arr = V(target.lean_name, 'Arr', target.partial)
            if self.at('(') and not self.peek().nl:
                self.eat('(')
                ix = self.expr(env)
                self.eat(')')
                if ix.ty != 'I32':
                    self.fail('index is not an Int')
                return self.strict([arr, ix], lambda n: f'Jvm.index {n[0]} {n[1]}', 'I32', True)
            return arr
        if not self.at('('):
            self.fail(f'{obj}.{nm} used without arguments')
        self.eat('(')
        pos: List[V] = []
        named: Dict[str, V] = {}
        while not self.at(')'):
            if self.peek().kind == 'id' and self.at('=', 1):
                k = self.peek().text
                self.i += 2
                named[k] = self.expr(env)
            else:
                if named:
                    self.fail('positional argument after a named one')
                pos.append(self.expr(env))
            if self.at(','):
                self.i += 1
        self.eat(')')
        ok = []
        for c in cands:
            if c.params is None or len(pos) > len(c.params):
                continue
            pn = [p[0] for p in c.params]
            if any(k not in pn[len(pos):] for k in named):
                continue
            if all(i < len(pos) or p[0] in named or p[2] is not None for i, p in enumerate(c.params)):
                ok.append(c)
        if len(ok) != 1:
            self.fail(f'cannot resolve the call {obj}.{nm} with {len(pos)} positional and {sorted(named)} named arguments')
        c = self.resolve(ok[0])
        args: List[V] = []
        for i, (pn, pty, pdef) in enumerate(c.params):
            if i < len(pos):
                a = pos[i]
            elif pn in named:
                a = named[pn]
            else:
                a = self.default(pdef)
            if a.ty != _TYPES.get(pty):
                self.fail(f'argument {pn} of {obj}.{nm} has type {a.ty}')
            args.append(a)
        return self.strict(args, lambda n: '(' + ' '.join([c.lean_name] + n) + ')', c.lean_type, c.partial)

    def default(self, toks: List[Tok]) -> V:
        txt = ''.join(t.text for t in toks)
        if txt in ('true', 'false'):
            return V(txt, 'Bool')
        m = re.fullmatch(r'(-?)(\d+)', txt)
        if m:
            return V(f'(-({m.group(2)}#32))' if m.group(1) else f'({m.group(2)}#32)', 'I32')
        self.fail(f'default argument {txt}')

    def array_literal(self, env) -> V:
        if not (self.at('Array') and self.at('(', 1)):
            self.fail('Array[Int] val that is not an Array(...) literal')
        self.i += 1
        self.eat('(')
        es: List[V] = []
        while not self.at(')'):
            es.append(self.expr(env))
            if es[-1].ty != 'I32':
                self.fail('non-Int array element')
            if self.at(','):
                self.i += 1
        self.eat(')')
        if any(e.partial for e in es):
            return V('Jvm.array [\n    ' + ',\n    '.join(self.opt(e) for e in es) + ']', 'Arr', True)
        return V('[' + ', '.join(e.term for e in es) + ']', 'Arr', False)


# ------------------------------------------------------------------------------------------------


def _norm(toks: List[Tok]) -> str:
    return ' '.join('STR' if t.kind == 'str' else t.text for t in toks)


def _body_of(by_name, obj, nm, what) -> str:
    ms = by_name.get((obj, nm), [])
    if len(ms) != 1:
        raise TieBroken(f'{obj}.{nm} ({what}): found {len(ms)} definitions')
    body = ms[0].body
    if body and body[0].text == '{' and body[-1].text == '}':
        body = body[1:-1]
    return _norm(body)


def translate(repo: str) -> Tuple[str, List[str]]:
    notes: List[str] = []
    members: List[Member] = []
    for rel in FILES:
        p = os.path.join(repo, rel)
        try:
            src = open(p, encoding='utf-8').read()
        except OSError as e:
            raise TieBroken(f'cannot read {rel}: {e}')
        members += scan_members(src, rel)
    by_key = {}
    by_name: Dict[Tuple[str, str], List[Member]] = {}
    for m in members:
        by_key.setdefault(m.key, m)
        by_name.setdefault((m.obj, m.name), []).append(m)
    objects = {m.obj for m in members}
    overloaded = {k for k, v in by_name.items() if len(v) > 1}
    comp = Compiler(by_key, by_name, objects)
    order: List[Member] = []
    in_progress = set()

    def resolve(m: Member) -> Member:
        if m.emitted is not None:
            return m
        if m.key in in_progress:
            raise TieBroken(f'{m.obj}.{m.name} is recursive')
        in_progress.add(m.key)
        m.lean_name = f'{m.obj}_{m.name}' + (f'_{m.arity}' if (m.obj, m.name) in overloaded else '')
        saved = (getattr(comp, 'm', None), getattr(comp, 'toks', None), getattr(comp, 'i', None), comp.fresh)
        sub = Compiler(by_key, by_name, objects)
        v = sub.compile_member(m, resolve)
        comp.m, comp.toks, comp.i, comp.fresh = saved
        m.partial = v.partial
        m.lean_type = v.ty
        lty = {'I32': 'I32', 'Bool': 'Bool', 'Arr': 'List I32'}[v.ty]
        rty = f'Option ({lty})' if v.partial and ' ' in lty else f'Option {lty}' if v.partial else lty
        ps = ' '.join(f'({n} : {_TYPES[ty]})' for (n, ty, _d) in (m.params or []))
        h = hashlib.sha1(m.text.encode()).hexdigest()[:12]
        m.emitted = (f'/-- `{m.obj}.{m.name}` — {m.fname}:{m.line0}-{m.line1}, sha1 of the body text {h} -/\n'
                     f'def {m.lean_name}{" " + ps if ps else ""} : {rty} :=\n  {v.term}\n')
        in_progress.discard(m.key)
        order.append(m)
        return m

    for (obj, nm, ar) in ROOTS:
        cands = [m for m in by_name.get((obj, nm), []) if ar is None or m.arity == ar]
        if len(cands) != 1:
            raise TieBroken(f'root {obj}.{nm}{"/" + str(ar) if ar is not None else ""}: found {len(cands)} definitions in {FILES}')
        resolve(cands[0])

    # CallN.apply dispatch (transcribed by hand in Model/CallEngine.lean as `enginePack`)
    calln = [m for m in by_name.get(('CallN', 'apply'), []) if m.params and m.params[0][1] == 'IndexedSeq[Int]']
    if len(calln) != 1:
        raise TieBroken('CallN.apply(alleles: IndexedSeq[Int], phased) not found')
    body = calln[0].body
    if body and body[0].text == '{' and body[-1].text == '}':
        body = body[1:-1]
    if _norm(body) != CALLN_DISPATCH:
        raise TieBroken('CallN.apply no longer is the ploidy dispatch `0 => Call0(phased) | 1 => Call1(alleles(0), phased) | '
                        '2 => Call2(alleles(0), alleles(1), phased)` that Model/CallEngine.lean (`enginePack`) transcribes: ' + _norm(body)[:200])
    # Call.alleles / alleleByIndex / AllelePair.alleleIndices (transcribed by hand as CallEngine.engineUnpack)
    if _body_of(by_name, 'Call', 'alleles', 'engineUnpack') != CALL_ALLELES:
        raise TieBroken('Call.alleles no longer is the ploidy dispatch that Model/CallEngine.lean (`engineUnpack`) transcribes: '
                        + _body_of(by_name, 'Call', 'alleles', '')[:200])
    if ALLELE_BY_INDEX_1 not in _body_of(by_name, 'Call', 'alleleByIndex', 'engineUnpack'):
        raise TieBroken('Call.alleleByIndex: the ploidy-1 branch no longer is `alleleRepr(c)`')
    if _body_of(by_name, 'AllelePair', 'alleleIndices', 'engineUnpack') != ALLELE_INDICES:
        raise TieBroken('AllelePair.alleleIndices no longer is ArraySeq(j(p), k(p))')
    # RichBoolean.toInt
    try:
        rb = open(os.path.join(repo, RICH_BOOLEAN), encoding='utf-8').read()
    except OSError as e:
        raise TieBroken(f'cannot read {RICH_BOOLEAN}: {e}')
    if not re.search(r'def\s+toInt\s*:\s*Int\s*=\s*if\s*\(b\)\s*1\s+else\s+0\b', rb):
        raise TieBroken('RichBoolean.toInt is no longer `if (b) 1 else 0` (Jvm.boolToInt)')

    out = ['import HailVerif.Model.Jvm',
           '/-!',
           '# GENERATED by harness/extract/scala_call.py — do not edit',
           '',
           'Re-emitted from the working tree on every run of `./check C34` from',
           *[f'* `{f}`' for f in FILES],
           '',
           'Scala `Int`/`Call` ↦ `BitVec 32` (`HailVerif.Jvm`), `Boolean` ↦ `Bool`; a Scala function that can throw',
           '(`fatal`, `throw`, `require`, `assert`, array index) returns `Option`, `none` = the exception.',
           '-/',
           'set_option linter.unusedVariables false',
           'namespace HailVerif.Generated.ScalaCall',
           'open HailVerif',
           'open HailVerif.Jvm (I32)',
           '']
    for m in order:
        out.append(m.emitted)
    out.append('end HailVerif.Generated.ScalaCall')
    notes.append(f'T tie: translated {len(order)} Scala members from Call.scala/Genotype.scala '
                 f'({", ".join(m.lean_name for m in order)}); CallN.apply, Call.alleles, alleleByIndex, AllelePair.alleleIndices dispatches and RichBoolean.toInt matched textually')
    return '\n'.join(out) + '\n', notes


def generate(repo: str) -> List[str]:
    text, notes = translate(repo)
    changed = write_if_changed(OUT, text)
    notes.append('Generated/ScalaCall.lean ' + ('rewritten' if changed else 'unchanged') + f' (sha1 {hashlib.sha1(text.encode()).hexdigest()[:12]})')
    return notes


if __name__ == '__main__':
    import sys
    print(translate(sys.argv[1] if len(sys.argv) > 1 else '/repo')[0])

"""Independent (non-Lean) evaluator of the sqltrig AST with MySQL NULL semantics — used to cross-check the Lean translation of
straight-line triggers when the full minisql interpreter is not available."""


def ev(x, env):
    k = x[0]
    if k == 'int' or k == 'str':
        return x[1]
    if k == 'null':
        return None
    if k == 'col':
        return env[x[1].lower()]
    if k == 'arith':
        a, b = ev(x[2], env), ev(x[3], env)
        if a is None or b is None:
            return None
        return {'+': a + b, '-': a - b, '*': a * b}[x[1]]
    if k == 'call':
        args = [ev(a, env) for a in x[2]]
        if x[1] in ('COALESCE', 'IFNULL'):
            return next((a for a in args if a is not None), None)
        if any(a is None for a in args):
            return None
        return max(args) if x[1] == 'GREATEST' else min(args)
    if k == 'and':
        a, b = ev(x[1], env), ev(x[2], env)
        if a == 0 or b == 0:
            return 0
        if a is None or b is None:
            return None
        return 1
    if k == 'or':
        a, b = ev(x[1], env), ev(x[2], env)
        if (a is not None and a != 0) or (b is not None and b != 0):
            return 1
        if a is None or b is None:
            return None
        return 0
    if k == 'not':
        a = ev(x[1], env)
        return None if a is None else (0 if a else 1)
    if k == 'isnull':
        return 1 if ev(x[1], env) is None else 0
    if k == 'isnotnull':
        return 0 if ev(x[1], env) is None else 1
    if k == 'cmp':
        a, b = ev(x[2], env), ev(x[3], env)
        if a is None or b is None:
            return None
        op = x[1]
        r = {'<': a < b, '<=': a <= b, '>': a > b, '>=': a >= b, '=': a == b, '!=': a != b, '<>': a != b}[op]
        return 1 if r else 0
    raise ValueError(k)


def run_before_update(stmts, old, new):
    env = {f'old.{k}': v for k, v in old.items()}
    env.update({f'new.{k}': v for k, v in new.items()})

    def block(ss):
        for s in ss:
            if s[0] == 'set':
                env[s[1].lower()] = ev(s[2], env)
            else:
                c = ev(s[1], env)
                if c is not None and c != 0:
                    block(s[2])
    block(stmts)
    return {k: env[f'new.{k}'] for k in new}

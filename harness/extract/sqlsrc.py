"""Locate the latest definition of a trigger / procedure / function in /repo/batch/sql (numeric migration order)."""
import os
import re

from ..framework import TieBroken, repo_root


def migrations(repo=None):
    d = os.path.join(repo or repo_root(), 'batch', 'sql')
    out = []
    for fn in os.listdir(d):
        m = re.match(r'(\d+)[-_].*\.sql$', fn)
        if m:
            out.append((int(m.group(1)), fn))
    return [os.path.join(d, fn) for _, fn in sorted(out)]


def last_definition(kind, name, repo=None):
    """(relative file, verbatim text 'CREATE <kind> name ... END') of the last migration defining it"""
    found = None
    pat = re.compile(r'CREATE\s+' + kind + r'\s+`?' + re.escape(name) + r'`?\b(.*?)\bEND\s*\$\$', re.S | re.I)
    for path in migrations(repo):
        src = open(path, encoding='utf-8').read()
        for m in pat.finditer(src):
            found = (os.path.relpath(path, repo or repo_root()), m.group(0)[:-2].rstrip())
    if found is None:
        raise TieBroken(f'{kind} {name} not found in batch/sql migrations')
    return found

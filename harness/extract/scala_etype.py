"""Scala text -> table for `EType.fromPythonTypeEncoding` (C33, T tie).  Nothing Scala is run.

Input : hail/hail/src/is/hail/types/encoded/EType.scala  (`def fromPythonTypeEncoding(t: Type): EType = t match { … }`)
Output: rows, one per `case`, in source order (the first matching case wins):
            {'tcase': 'TDict', 'ctor': 'EDictAsUnsortedArrayOfPairs', 'required': False,
             'elem': 'elementType' | 'pointType' | None,        # which component the recursive call is made on
             'elem_required': True | False | None,               # `.setRequired(true)` on the element encoding?
             'fields': [(name, ctor | 'rec:<component>' | 'rec:field', required | None), …] | 'tabulate' | None,
             'ndims': bool}
        and lean/HailVerif/Generated/PyEType.lean with the same rows over the enumerations of Model/PyLayout.lean.

Any case whose text is outside the small grammar below raises framework.TieBroken — nothing is guessed.
    body   := CTOR '(' BOOL ')'                                                     primitives
            | CTOR '(' rec [ '.setRequired(true)' ] ',' [ 't.nDims' ',' ] BOOL ')'     containers
            | 'EBaseStruct(' 'ArraySeq(' field* ')' ',' 'required = ' BOOL ',' ')'   fixed structs
            | 'EBaseStruct(' TABULATE ',' 'required = ' BOOL ',' ')'                 structs / tuples of the type's own fields
    field  := 'EField(' STRING ',' ( CTOR '(' BOOL ')' | rec ) ',' INT ')'
    rec    := 'fromPythonTypeEncoding(t.' NAME ')'
"""
from __future__ import annotations

import os
import re
from typing import Dict, List

from ..framework import LEAN, TieBroken, write_if_changed
from .scala_lexer import _block, _norm

ETYPE = 'hail/hail/src/is/hail/types/encoded/EType.scala'
OUT = os.path.join(LEAN, 'HailVerif', 'Generated', 'PyEType.lean')

TCASES = ['TInt32', 'TInt64', 'TFloat32', 'TFloat64', 'TBoolean', 'TBinary', 'TString', 'TLocus', 'TCall', 'TInterval', 'TDict', 'TSet',
          'TIterable', 'TBaseStruct', 'TNDArray']
CTORS = ['EInt32', 'EInt64', 'EFloat32', 'EFloat64', 'EBoolean', 'EBinary', 'EBaseStruct', 'EDictAsUnsortedArrayOfPairs', 'EUnsortedSet',
         'EArray', 'ENDArrayColumnMajor']

TABULATE = _norm('''ArraySeq.tabulate(t.size) { i => val f = t.fields(i) if (f.index != i) throw new AssertionError(s"$t [$i]")
 EField(f.name, fromPythonTypeEncoding(t.fields(i).typ), f.index) }''')

_BOOL = {'true': True, 'false': False}


def extract(repo: str) -> List[Dict[str, object]]:
    with open(os.path.join(repo, ETYPE), encoding='utf-8') as f:
        src = f.read()
    m = re.search(r'def\s+fromPythonTypeEncoding\(t:\s*Type\)\s*:\s*EType\s*=\s*t\s+match\s*', src)
    if not m:
        raise TieBroken('EType.fromPythonTypeEncoding(t: Type): EType = t match {…} not found')
    body = _norm(_block(src, m.end()))[1:-1].strip()
    parts = re.split(r'\bcase\s+', body)
    if parts[0].strip():
        raise TieBroken(f'unexpected text before the first case: {parts[0][:60]!r}')
    rows = []
    for part in parts[1:]:
        if '=>' not in part:
            raise TieBroken(f'case without =>: {part[:60]!r}')
        pat, rhs = part.split('=>', 1)
        pat, rhs = pat.strip(), rhs.strip()
        mp = re.fullmatch(r'(?:t:\s*)?(T\w+)(?:\(_\))?', pat)
        if not mp or mp.group(1) not in TCASES:
            raise TieBroken(f'unsupported case pattern {pat!r}')
        rows.append(_row(mp.group(1), rhs))
    seen = [r['tcase'] for r in rows]
    if len(set(seen)) != len(seen):
        raise TieBroken('a type case occurs twice')
    return rows


def _row(tcase: str, rhs: str) -> Dict[str, object]:
    row = {'tcase': tcase, 'ctor': None, 'required': None, 'elem': None, 'elem_required': None, 'fields': None, 'ndims': False}
    m = re.fullmatch(r'(E\w+)\((true|false)\)', rhs)
    if m:
        row.update(ctor=_ctor(m.group(1)), required=_BOOL[m.group(2)])
        return row
    m = re.fullmatch(r'(E\w+)\(fromPythonTypeEncoding\(t\.(\w+)\)(\.setRequired\(true\))?, (t\.nDims, )?(true|false)\)', rhs)
    if m:
        row.update(ctor=_ctor(m.group(1)), elem=m.group(2), elem_required=bool(m.group(3)), ndims=bool(m.group(4)),
                   required=_BOOL[m.group(5)])
        return row
    m = re.fullmatch(r'EBaseStruct\( (.*), required = (true|false), \)', rhs)
    if m:
        inner = m.group(1).strip()
        row.update(ctor='EBaseStruct', required=_BOOL[m.group(2)])
        if inner == TABULATE:
            row['fields'] = 'tabulate'
            return row
        mi = re.fullmatch(r'ArraySeq\( (.*) \)', inner)
        if not mi:
            raise TieBroken(f'{tcase}: unsupported EBaseStruct fields {inner[:80]!r}')
        fields = []
        text = mi.group(1).strip()
        pos = 0
        for i, fm in enumerate(re.finditer(r'EField\("(\w+)", (?:(E\w+)\((true|false)\)|fromPythonTypeEncoding\(t\.(\w+)\)), (\d+)\),?\s*', text)):
            if fm.start() != pos or int(fm.group(5)) != i:
                raise TieBroken(f'{tcase}: unsupported field list {text[pos:pos + 60]!r}')
            pos = fm.end()
            if fm.group(2):
                fields.append((fm.group(1), _ctor(fm.group(2)), _BOOL[fm.group(3)]))
            else:
                fields.append((fm.group(1), 'rec:' + fm.group(4), None))
        if pos != len(text) or not fields:
            raise TieBroken(f'{tcase}: field list not fully understood: {text[pos:pos + 60]!r}')
        row['fields'] = fields
        return row
    raise TieBroken(f'{tcase}: unsupported right-hand side {rhs[:100]!r}')


def _ctor(name: str) -> str:
    if name not in CTORS:
        raise TieBroken(f'unknown EType constructor {name}')
    return name


def _lean_bool(b) -> str:
    return 'true' if b else 'false'


def emit(rows: List[Dict[str, object]]) -> bool:
    def cps(s):
        return '[' + ', '.join(str(ord(c)) for c in s) + ']'

    out = []
    for r in rows:
        if r['fields'] is None:
            fields = '.none'
        elif r['fields'] == 'tabulate':
            fields = '.ownFields'
        else:
            fs = []
            for n, k, req in r['fields']:
                if k.startswith('rec:'):
                    fs.append(f'FieldRow.mk {cps(n)} .recur false')
                else:
                    fs.append(f'FieldRow.mk {cps(n)} (.ctor .{k}) {_lean_bool(req)}')
            fields = 'Fields.fixed [' + ', '.join(fs) + ']'
        er = 'none' if r['elem_required'] is None else f'some {_lean_bool(r["elem_required"])}'
        out.append(f'  ⟨.{r["tcase"]}, .{r["ctor"]}, {_lean_bool(r["required"])}, {er}, {fields}, {_lean_bool(r["ndims"])}⟩')
    src = f'''import HailVerif.Model.PyLayout
/-! GENERATED by harness/extract/scala_etype.py from the working tree — do not edit.
  {ETYPE}: `def fromPythonTypeEncoding(t: Type): EType = t match {{ … }}`, one row per `case`, in source order
  (type case, EType constructor, required, element `.setRequired(true)`?, fields, takes `t.nDims`?). -/
namespace HailVerif.Generated.PyEType
open HailVerif.PyLayout

def table : List Row := [
{(",\n").join(out)}]

end HailVerif.Generated.PyEType
'''
    return write_if_changed(OUT, src)

"""Scala text -> what the IR parser expects after an IR node's head (C31, T tie).  Nothing Scala is run.

Input : hail/hail/src/is/hail/expr/ir/Parser.scala — the `case "<Head>" =>` clauses of the IR parsers.
Output: for every requested head the sequence of token-level sub-parsers that read the head's own arguments, BEFORE any child IR:
            ['identifiers', 'boolean_literal', 'opt:int32_literal']           (TableKeyBy)
        taken from the leading `val x = <parser>(it)` statements of the clause (or from the one-line forms
        `done(X(<parser>(it)))` / `<parser>(it).map…`).  Known sub-parsers (their token shapes are transcribed in
        harness/props/c31.py `HeadReader`, from the definitions in the same file whose text is checked here):
            identifier name identifiers names boolean_literal int32_literal int64_literal string_literal string_literals
            sort_fields type_expr opt(it, <one of these>)
Anything else in the argument position raises framework.TieBroken — nothing is guessed.
"""
from __future__ import annotations

import os
import re
from typing import Dict, List

from ..framework import TieBroken
from .scala_lexer import _norm

PARSER = 'hail/hail/src/is/hail/expr/ir/Parser.scala'
ATOMS = ['identifiers', 'identifier', 'names', 'name', 'boolean_literal', 'int32_literal', 'int64_literal', 'string_literals',
         'string_literal', 'sort_fields', 'type_expr']
_ATOM = '(?:' + '|'.join(ATOMS) + ')'
_ARG = re.compile(r'val \w+ = (?:(' + _ATOM + r')\(it\)|opt\(it, (' + _ATOM + r')\)) ')
# what may follow the head's own arguments: the children / the construction of the node
_REST = re.compile(r'(?:for \{|done\(|table_ir|matrix_ir|blockmatrix_ir|ir_value_expr|ir_value_children|table_ir_children|matrix_ir_children|'
                   r'named_value_irs)')

# the definitions of the composite sub-parsers the reader transcribes (white-space normalised); a change is a broken tie
DEFS = {
    'identifiers': 'def identifiers(it: TokenIterator): IndexedSeq[String] = base_seq_parser(identifier)(it)',
    'name': 'def name(it: TokenIterator): Name = Name(identifier(it))',
    'names': 'def names(it: TokenIterator): IndexedSeq[Name] = base_seq_parser(name)(it)',
    'sort_fields': 'def sort_fields(it: TokenIterator): IndexedSeq[SortField] = base_seq_parser(sort_field)(it)',
    'sort_field': ('def sort_field(it: TokenIterator): SortField = { val sortField = identifier(it) val field = sortField.substring(1) '
                   'val sortOrder = SortOrder.parse(sortField.substring(0, 1)) SortField(field, sortOrder) }'),
    'base_seq_parser': ('def base_seq_parser[T: ClassTag](f: TokenIterator => T)(it: TokenIterator): IndexedSeq[T] = { punctuation(it, "(") '
                        'val r = repUntilNonStackSafe(it, f, PunctuationToken(")")) punctuation(it, ")") r }'),
    'string_literals': 'def string_literals: TokenIterator => IndexedSeq[String] = literals(string_literal)',
    'boolean_literal': ('def boolean_literal(it: TokenIterator): Boolean = consumeToken(it) match { case IdentifierToken("True") => true '
                        'case IdentifierToken("False") => false case x: Token => error(x, s"Expected boolean but found ${x.getName} '
                        '\'${x.value}\'.") }'),
    'opt': ('def opt[T](it: TokenIterator, f: (TokenIterator) => T)(implicit tct: ClassTag[T]): Option[T] = { it.head match { '
            'case x: IdentifierToken if x.value == "None" => consumeToken(it): Unit None case _ => Some(f(it)) } }'),
}


def extract(repo: str, heads: List[str]) -> Dict[str, List[str]]:
    with open(os.path.join(repo, PARSER), encoding='utf-8') as f:
        src = f.read()
    norm = _norm(src)
    for name, text in DEFS.items():
        if text not in norm:
            raise TieBroken(f'Parser.scala: the definition of `{name}` is no longer the transcribed one')
    out = {}
    for h in heads:
        ms = list(re.finditer(r'case "' + re.escape(h) + r'" =>', norm))
        if len(ms) != 1:
            raise TieBroken(f'Parser.scala: {len(ms)} clauses `case "{h}" =>`')
        clause = norm[ms[0].end():ms[0].end() + 1500].lstrip()
        spec = []
        # one-line forms
        m = re.match(r'done\(\w+\((' + _ATOM + r')\(it\)\)\)', clause)
        if m:
            out[h] = [m.group(1)]
            continue
        pos = 0
        while True:
            m = _ARG.match(clause, pos)
            if not m:
                break
            spec.append(m.group(1) if m.group(1) else 'opt:' + m.group(2))
            pos = m.end()
        rest = clause[pos:]
        if not _REST.match(rest):
            raise TieBroken(f'Parser.scala: clause of "{h}": cannot classify what follows the head arguments: {rest[:80]!r}')
        out[h] = spec
    return out

"""Scala text -> Lean data for the engine's identifier lexing (C31, T tie).  Nothing Scala is run.

Input : hail/hail/src/is/hail/expr/ir/Parser.scala            (object IRLexer)
        hail/hail/utils/src/is/hail/utils/StringEscapeUtils.scala (unescapeString)
Output: lean/HailVerif/Generated/IRLexer.lean — the data the hand transcription `Model/EngineLexer.lean` runs over:
        `escapeChars` (the literal of `quotedLiteral`), the `case 'x' => sb += 'y'` table of `unescapeString`, the letter that
        starts a `\\uXXXX` escape and its digit count, the punctuation class of the lexer, the identifier delimiter.

The control flow around the data (loop of quotedLiteral, state machine of unescapeString, `identifier = backtickLiteral | ident`,
token order) is compared, white-space normalised, with the text the transcription was made from; any other shape raises
framework.TieBroken — nothing is guessed.
"""
from __future__ import annotations

import os
import re
from typing import Dict, List, Tuple

from ..framework import LEAN, TieBroken, write_if_changed

PARSER = 'hail/hail/src/is/hail/expr/ir/Parser.scala'
ESCAPES = 'hail/hail/utils/src/is/hail/utils/StringEscapeUtils.scala'
OUT = os.path.join(LEAN, 'HailVerif', 'Generated', 'IRLexer.lean')


def _norm(s: str) -> str:
    s = re.sub(r'//[^\n]*', '', s)
    return re.sub(r'\s+', ' ', s).strip()


def _scala_unescape(lit: str) -> str:
    """value of the inside of a Scala "…" / '…' literal (only the escapes that occur in these files)"""
    out = []
    i = 0
    table = {'\\': '\\', '"': '"', "'": "'", 'n': '\n', 't': '\t', 'r': '\r', 'b': '\b', 'f': '\f'}
    while i < len(lit):
        c = lit[i]
        if c == '\\':
            if i + 1 >= len(lit) or lit[i + 1] not in table:
                raise TieBroken(f'unsupported escape in Scala literal {lit!r}')
            out.append(table[lit[i + 1]])
            i += 2
        else:
            out.append(c)
            i += 1
    return ''.join(out)


def _block(src: str, start: int) -> str:
    """text of the balanced {...} block whose '{' is the first one at or after `start` (string/char literals skipped)"""
    i = src.index('{', start)
    depth = 0
    j = i
    n = len(src)
    while j < n:
        c = src[j]
        if c == '"':
            if src.startswith('"""', j):
                j = src.index('"""', j + 3) + 3
                continue
            j += 1
            while src[j] != '"':
                j += 2 if src[j] == '\\' else 1
            j += 1
            continue
        if c == "'":
            m = re.match(r"'(\\.|[^'\\])'", src[j:])
            if m:
                j += m.end()
                continue
        if c == '/' and src.startswith('//', j):
            j = src.index('\n', j)
            continue
        if c == '{':
            depth += 1
        elif c == '}':
            depth -= 1
            if depth == 0:
                return src[i:j + 1]
        j += 1
    raise TieBroken('unbalanced block')


# the white-space-normalised control flow the Lean transcription (Model/EngineLexer.lean) was written from; `@ESC@` stands for
# the extracted literal
QUOTED_LITERAL_SHAPE = _norm('''
{ override def apply(in: Input): ParseResult[String] = { var r = in
 val source = in.source val offset = in.offset val start = handleWhiteSpace(source, offset) r = r.drop(start - offset)
 if (r.atEnd || r.first != delim) return Failure(s"consumed $what", r) r = r.rest
 val sb = new StringBuilder()
 val escapeChars = @ESC@.toSet var continue = true
 while (continue) { if (r.atEnd) return Failure(s"unterminated $what", r) val c = r.first r = r.rest
 if (c == delim) continue = false else { sb += c if (c == '\\\\') { if (r.atEnd) return Failure(s"unterminated $what", r)
 val d = r.first if (!escapeChars.contains(d)) return Failure(s"invalid escape character in $what", r) sb += d r = r.rest } } }
 Success(unescapeString(sb.result()), r) } }''')

UNESCAPE_SHAPE = _norm('''
{ sb.clear()
 var hadSlash = false var inUnicode = false lazy val unicode = new StringBuilder(capacity = @N@) var i = 0
 while (i < str.length) {
 val ch = str.charAt(i) if (inUnicode) {
 unicode.append(ch) if (unicode.length == @N@) {
 try { val value = Integer.parseInt(unicode.toString(), 16) sb += value.toChar unicode.clear() inUnicode = false hadSlash = false }
 catch { case _: NumberFormatException => fatal("Unable to parse unicode value: " + unicode) } }
 } else if (hadSlash) { hadSlash = false ch match { @CASES@ case _ => fatal(s"Got invalid string escape character: '\\\\$ch'") }
 } else if (ch == '\\\\') hadSlash = true else sb += ch i += 1 }
 if (hadSlash) {
 sb += '\\\\' }
 sb.result() }''')


def extract(repo: str) -> Dict[str, object]:
    with open(os.path.join(repo, PARSER), encoding='utf-8') as f:
        psrc = f.read()
    m = re.search(r'object\s+IRLexer\s+extends\s+JavaTokenParsers\s*', psrc)
    if not m:
        raise TieBroken('object IRLexer extends JavaTokenParsers not found in Parser.scala')
    lexer = _block(psrc, m.end())
    # token order and punctuation class
    m = re.search(r'val\s+token\s*:\s*Parser\[Token\]\s*=\s*(.*?)\n\s*\n', lexer, re.S)
    if not m:
        raise TieBroken('IRLexer.token not found')
    tok = _norm(m.group(1))
    mt = re.fullmatch(r'identifier \^\^ \{ id => IdentifierToken\(id\) \} \| float64_literal \^\^ \{ d => FloatToken\(d\) \} \| '
                      r'int64_literal \^\^ \{ l => IntegerToken\(l\) \} \| string_literal \^\^ \{ s => StringToken\(s\) \} \| '
                      r'"((?:\\.|[^"\\])*)"\.r \^\^ \{ p => PunctuationToken\(p\) \}', tok)
    if not mt:
        raise TieBroken(f'IRLexer.token has an unexpected shape: {tok[:200]}')
    punct_re = _scala_unescape(mt.group(1))
    mp = re.fullmatch(r'\[((?:\\.|[^\]\\])+)\]', punct_re)
    if not mp:
        raise TieBroken(f'punctuation regex is not a character class: {punct_re}')
    punct = re.sub(r'\\(.)', r'\1', mp.group(1))
    # identifier shape
    if not re.search(r'def\s+identifier\s*=\s*backtickLiteral\s*\|\s*ident\s*\n', lexer):
        raise TieBroken('IRLexer.identifier is no longer `backtickLiteral | ident`')
    mb = re.search(r'def\s+backtickLiteral\s*:\s*Parser\[String\]\s*=\s*quotedLiteral\(\'(.)\',\s*"backtick identifier"\)', lexer)
    if not mb:
        raise TieBroken('IRLexer.backtickLiteral has an unexpected shape')
    delim = mb.group(1)
    # quotedLiteral
    mq = re.search(r'def\s+quotedLiteral\(delim:\s*Char,\s*what:\s*String\)\s*:\s*Parser\[String\]\s*=\s*new\s+Parser\[String\]\s*', lexer)
    if not mq:
        raise TieBroken('IRLexer.quotedLiteral not found')
    body = _norm(_block(lexer, mq.end()))
    me = re.search(r'val escapeChars = ("(?:\\.|[^"\\])*")\.toSet', body)
    if not me:
        raise TieBroken('quotedLiteral: `val escapeChars = "…".toSet` not found')
    if body.replace(me.group(1), '@ESC@', 1) != QUOTED_LITERAL_SHAPE:
        raise TieBroken('quotedLiteral: control flow differs from the transcribed shape')
    escape_chars = _scala_unescape(me.group(1)[1:-1])
    if re.search(r'override\s+def\s+(whiteSpace|skipWhitespace|handleWhiteSpace)', lexer):
        raise TieBroken('IRLexer overrides white-space handling')

    with open(os.path.join(repo, ESCAPES), encoding='utf-8') as f:
        esrc = f.read()
    mu = re.search(r'def\s+unescapeString\(str:\s*String,\s*sb:\s*StringBuilder\)\s*:\s*String\s*=\s*', esrc)
    if not mu:
        raise TieBroken('StringEscapeUtils.unescapeString(str, sb) not found')
    ubody = _norm(_block(esrc, mu.end()))
    mc = re.search(r'ch match \{ (.*?) case _ => fatal', ubody)
    if not mc:
        raise TieBroken('unescapeString: `ch match { … case _ => fatal` not found')
    cases_txt = mc.group(1)
    simple: List[Tuple[str, str]] = []
    uletter = None
    pos = 0
    for mm in re.finditer(r"case '(\\.|[^'\\])' => (sb \+= '(\\.|[^'\\])'|inUnicode = true)\s*", cases_txt):
        if mm.start() != pos:
            raise TieBroken(f'unescapeString: unexpected text in the escape table: {cases_txt[pos:mm.start()]!r}')
        pos = mm.end()
        k = _scala_unescape(mm.group(1))
        if mm.group(2).startswith('sb'):
            simple.append((k, _scala_unescape(mm.group(3))))
        else:
            if uletter is not None:
                raise TieBroken('unescapeString: two unicode escape letters')
            uletter = k
    if pos != len(cases_txt) or uletter is None:
        raise TieBroken('unescapeString: escape table not fully understood')
    mn = re.search(r'unicode\.length == (\d+)', ubody)
    if not mn:
        raise TieBroken('unescapeString: unicode digit count not found')
    n = mn.group(1)
    if n != '4':
        raise TieBroken('unescapeString: the transcription handles exactly 4 unicode digits')
    shape = UNESCAPE_SHAPE.replace('@N@', n).replace('@CASES@', cases_txt.strip())
    if ubody != shape:
        raise TieBroken('unescapeString: control flow differs from the transcribed shape')
    if not re.search(r'import\s+is\.hail\.utils\.StringEscapeUtils\._', psrc):
        raise TieBroken('Parser.scala no longer imports StringEscapeUtils._ (which unescapeString is called?)')
    return {'escape_chars': escape_chars, 'simple': simple, 'uletter': uletter, 'udigits': int(n), 'punct': punct, 'delim': delim}


def _cps(s: str) -> str:
    return '[' + ', '.join(str(ord(c)) for c in s) + ']'


def emit(data: Dict[str, object]) -> bool:
    simple = ', '.join(f'({ord(k)}, {ord(v)})' for k, v in data['simple'])
    src = f'''/-! GENERATED by harness/extract/scala_lexer.py from the working tree — do not edit.
  {PARSER} (object IRLexer)
  {ESCAPES} (unescapeString)
-/
namespace HailVerif.Generated.IRLexer

/-- `val escapeChars = …toSet` of `IRLexer.quotedLiteral`: {data['escape_chars']!r} -/
def escapeChars : List Nat := {_cps(data['escape_chars'])}

/-- `case 'x' => sb += 'y'` table of `StringEscapeUtils.unescapeString` (escape letter, produced character) -/
def simpleEscapes : List (Nat × Nat) := [{simple}]

/-- `case '{data['uletter']}' => inUnicode = true`, followed by exactly `unicodeEscapeDigits` hexadecimal digits -/
def unicodeEscapeLetter : Nat := {ord(data['uletter'])}
def unicodeEscapeDigits : Nat := {data['udigits']}

/-- delimiter of `backtickLiteral`; `identifier = backtickLiteral | ident` -/
def backtickDelimiter : Nat := {ord(data['delim'])}

/-- punctuation class of `IRLexer.token`: {data['punct']!r} -/
def punctuation : List Nat := {_cps(data['punct'])}

end HailVerif.Generated.IRLexer
'''
    return write_if_changed(OUT, src)

"""T tie for C12/C13: read the machine-type tables and resource constants from the imported repo modules and emit
lean/HailVerif/Generated/Machines.lean.  Anything that is not a plain table is obtained by evaluating the real function on the
finite key set and is marked `evaluated` in the generated file."""
import os

from .. import loader
from ..framework import LEAN, TieBroken, write_if_changed

OUT = os.path.join(LEAN, 'HailVerif', 'Generated', 'Machines.lean')

SOURCES = ['batch/batch/cloud/gcp/resource_utils.py', 'batch/batch/cloud/azure/resource_utils.py', 'batch/batch/globals.py',
           'batch/batch/cloud/resource_utils.py', 'batch/batch/cloud/gcp/instance_config.py', 'batch/batch/cloud/azure/instance_config.py']


def _s(x):
    if not isinstance(x, str) or '"' in x or '\\' in x or '\n' in x:
        raise TieBroken(f'not a plain string: {x!r}')
    return '"' + x + '"'


def _n(x):
    if isinstance(x, bool) or not isinstance(x, int) or x < 0:
        raise TieBroken(f'not a natural number: {x!r}')
    return str(x)


def _list(items, per_line=1, indent='  '):
    if not items:
        return '[]'
    lines = []
    for i in range(0, len(items), per_line):
        lines.append(indent + ', '.join(items[i:i + per_line]))
    return '[\n' + ',\n'.join(lines) + ']'


def read_tables(repo):
    """the tables as python data (also used by the checks' generators/oracles)"""
    loader.install(repo)
    try:
        import batch.cloud.azure.resource_utils as az
        import batch.cloud.gcp.resource_utils as gcp
        import batch.globals as g
    except Exception as e:
        raise TieBroken(f'cannot import the resource tables: {type(e).__name__}: {e}')
    t = {}
    try:
        t['gcp_family'] = gcp.GCP_MACHINE_FAMILY
        t['gcp_mem_per_core'] = [((fam, wt), v) for (fam, wt), v in gcp.MEMORY_PER_CORE_MIB.items()]
        t['azure_worker_types'] = list(az.azure_valid_cores_from_worker_type.keys())
        t['azure_mem_per_core'] = [(wt, az.azure_worker_memory_per_core_mib(wt)) for wt in t['azure_worker_types']]
        t['gcp_machines'] = [(name, p.machine_family, p.worker_type, p.cores, p.memory,
                              0 if p.gpu_config is None else p.gpu_config.num_gpus)
                             for name, p in gcp.MACHINE_TYPE_TO_PARTS.items()]
        t['azure_machines'] = [(name, p.family, p.cores, p.memory) for name, p in az.MACHINE_TYPE_TO_PARTS.items()]
        t['gcp_valid_machine_types'] = list(gcp.gcp_valid_machine_types)
        t['azure_valid_machine_types'] = list(az.azure_valid_machine_types)
        t['gcp_valid_cores'] = [(k, list(v)) for k, v in gcp.gcp_valid_cores_for_pool_worker_type.items()]
        t['azure_valid_cores'] = [(k, list(v)) for k, v in az.azure_valid_cores_from_worker_type.items()]
        t['gcp_memory_to_worker_type'] = list(gcp.gcp_memory_to_worker_type.items())
        t['azure_memory_to_worker_type'] = list(az.azure_memory_to_worker_type.items())
        t['gcp_max_ssd_gib'] = gcp.GCP_MAX_PERSISTENT_SSD_SIZE_GIB
        t['azure_max_ssd_gib'] = az.AZURE_MAX_PERSISTENT_SSD_SIZE_GIB
        # evaluated: the minimum is a literal inside the two functions
        t['gcp_min_storage_bytes'] = gcp.gcp_requested_to_actual_storage_bytes(1, False)
        t['azure_min_storage_bytes'] = az.azure_requested_to_actual_storage_bytes(1, False)
        t['memory_types'] = list(g.memory_types)
        t['reserved_storage_gb_per_core'] = g.RESERVED_STORAGE_GB_PER_CORE
        t['azure_local_ssd_per_core_x2'] = [(k, int(v * 2)) for k, v in az.azure_local_ssd_size_per_core_by_worker_type.items()
                                            if float(v * 2).is_integer()]
        t['gcp_local_ssd_gib'] = gcp.gcp_local_ssd_size()
        import batch.cloud.azure.instance_config as azic
        import batch.cloud.gcp.instance_config as gic
        t['gcp_instance_config_version'] = gic.GCP_INSTANCE_CONFIG_VERSION
        t['azure_instance_config_version'] = azic.AZURE_INSTANCE_CONFIG_VERSION
        # SortedSet iteration order = ascending size (what bisect_key_left indexes)
        t['azure_disks'] = [(fam, [(d.name, d.size_in_gib) for d in az.azure_disks_by_disk_type[fam]])
                            for fam in sorted(az.azure_disks_by_disk_type.keys())]
    except TieBroken:
        raise
    except Exception as e:
        raise TieBroken(f'resource tables have an unexpected shape: {type(e).__name__}: {e}')
    if sorted(t['gcp_valid_machine_types']) != sorted(m[0] for m in t['gcp_machines']):
        raise TieBroken('gcp_valid_machine_types is no longer the key list of MACHINE_TYPE_TO_PARTS')
    if sorted(t['azure_valid_machine_types']) != sorted(m[0] for m in t['azure_machines']):
        raise TieBroken('azure_valid_machine_types is no longer the key list of MACHINE_TYPE_TO_PARTS')
    if len(t['azure_local_ssd_per_core_x2']) != len(az.azure_local_ssd_size_per_core_by_worker_type):
        raise TieBroken('azure local ssd size per core is not a multiple of 1/2')
    return t


def render(repo, t):
    L = []
    L.append('/-! GENERATED by harness/extract/machines.py from ' + ', '.join(SOURCES) + '.')
    L.append('Do not edit: rewritten on every run of `./check C12` / `./check C13`.  Tables are copied from the imported modules;')
    L.append('items marked `evaluated` are the value of the named function on the listed keys. -/')
    L.append('namespace HailVerif.Generated.Machines')
    L.append('')
    L.append('/-- gcp/resource_utils.py `GCP_MACHINE_FAMILY` -/')
    L.append(f'def gcpMachineFamily : String := {_s(t["gcp_family"])}')
    L.append('/-- gcp/resource_utils.py `MEMORY_PER_CORE_MIB` : (family, worker type) ↦ MiB per core -/')
    L.append('def gcpMemoryPerCoreMiB : List ((String × String) × Nat) := ' +
             _list([f'(({_s(a)}, {_s(b)}), {_n(v)})' for (a, b), v in t['gcp_mem_per_core']]))
    L.append('/-- evaluated: azure/resource_utils.py `azure_worker_memory_per_core_mib` on the keys of `azure_valid_cores_from_worker_type` -/')
    L.append('def azureMemoryPerCoreMiB : List (String × Nat) := ' + _list([f'({_s(a)}, {_n(v)})' for a, v in t['azure_mem_per_core']]))
    L.append('/-- gcp `MACHINE_TYPE_TO_PARTS`: name ↦ (family, worker type, cores, memory bytes, number of gpus) -/')
    L.append('def gcpMachineTypes : List (String × String × String × Nat × Nat × Nat) := ' +
             _list([f'({_s(n)}, {_s(f)}, {_s(w)}, {_n(c)}, {_n(m)}, {_n(gp)})' for n, f, w, c, m, gp in t['gcp_machines']]))
    L.append('/-- azure `MACHINE_TYPE_TO_PARTS`: name ↦ (family = worker type, cores, memory bytes) -/')
    L.append('def azureMachineTypes : List (String × String × Nat × Nat) := ' +
             _list([f'({_s(n)}, {_s(f)}, {_n(c)}, {_n(m)})' for n, f, c, m in t['azure_machines']]))
    L.append('/-- `gcp_valid_cores_for_pool_worker_type` -/')
    L.append('def gcpValidCores : List (String × List Nat) := ' +
             _list([f'({_s(k)}, [{", ".join(_n(x) for x in v)}])' for k, v in t['gcp_valid_cores']]))
    L.append('/-- `azure_valid_cores_from_worker_type` -/')
    L.append('def azureValidCores : List (String × List Nat) := ' +
             _list([f'({_s(k)}, [{", ".join(_n(x) for x in v)}])' for k, v in t['azure_valid_cores']]))
    L.append('/-- `gcp_memory_to_worker_type` -/')
    L.append('def gcpMemoryToWorkerType : List (String × String) := ' +
             _list([f'({_s(k)}, {_s(v)})' for k, v in t['gcp_memory_to_worker_type']]))
    L.append('/-- `azure_memory_to_worker_type` -/')
    L.append('def azureMemoryToWorkerType : List (String × String) := ' +
             _list([f'({_s(k)}, {_s(v)})' for k, v in t['azure_memory_to_worker_type']]))
    L.append('/-- `GCP_MAX_PERSISTENT_SSD_SIZE_GIB`, `AZURE_MAX_PERSISTENT_SSD_SIZE_GIB` -/')
    L.append(f'def gcpMaxPersistentSsdGiB : Nat := {_n(t["gcp_max_ssd_gib"])}')
    L.append(f'def azureMaxPersistentSsdGiB : Nat := {_n(t["azure_max_ssd_gib"])}')
    L.append('/-- evaluated: `gcp_requested_to_actual_storage_bytes(1, False)`, `azure_requested_to_actual_storage_bytes(1, False)` -/')
    L.append(f'def gcpMinStorageBytes : Nat := {_n(t["gcp_min_storage_bytes"])}')
    L.append(f'def azureMinStorageBytes : Nat := {_n(t["azure_min_storage_bytes"])}')
    L.append('/-- globals.py `memory_types` -/')
    L.append(f'def memoryTypes : List String := [{", ".join(_s(x) for x in t["memory_types"])}]')
    L.append('/-- globals.py `RESERVED_STORAGE_GB_PER_CORE`; `gcp_local_ssd_size()`; 2 × `azure_local_ssd_size_per_core_by_worker_type` -/')
    L.append(f'def reservedStorageGbPerCore : Nat := {_n(t["reserved_storage_gb_per_core"])}')
    L.append(f'def gcpLocalSsdGiB : Nat := {_n(t["gcp_local_ssd_gib"])}')
    L.append('def azureLocalSsdPerCoreTimes2 : List (String × Nat) := ' +
             _list([f'({_s(k)}, {_n(v)})' for k, v in t['azure_local_ssd_per_core_x2']]))
    L.append('/-- `GCP_INSTANCE_CONFIG_VERSION`, `AZURE_INSTANCE_CONFIG_VERSION` (cloud/*/instance_config.py) -/')
    L.append(f'def gcpInstanceConfigVersion : Nat := {_n(t["gcp_instance_config_version"])}')
    L.append(f'def azureInstanceConfigVersion : Nat := {_n(t["azure_instance_config_version"])}')
    L.append('/-- azure `azure_disks_by_disk_type`: disk family ↦ (disk name, size GiB) in ascending size (SortedSet order) -/')
    L.append('def azureDisks : List (String × List (String × Nat)) := ' +
             _list(['(' + _s(f) + ', [' + ', '.join(f'({_s(n)}, {_n(z)})' for n, z in ds) + '])' for f, ds in t['azure_disks']]))
    L.append('')
    L.append('end HailVerif.Generated.Machines')
    return '\n'.join(L) + '\n'


def generate(repo):
    t = read_tables(repo)
    content = render(repo, t)
    changed = write_if_changed(OUT, content)
    return t, [f'Generated/Machines.lean {"rewritten" if changed else "unchanged"} from the imported resource tables '
               f'({len(t["gcp_machines"])} gcp + {len(t["azure_machines"])} azure machine types)']

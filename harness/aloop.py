"""Deterministic asyncio for the async-primitive properties (DESIGN.md §2.3).

* `VLoop`: SelectorEventLoop whose `time()` is a virtual clock; when nothing is ready and a timer is pending the clock jumps
  to that timer (no real sleeping). `time.time`/`time.monotonic`/`time.monotonic_ns` can be patched onto it with `patch_time`.
* `Sched`: helper to drive a scenario step by step: `spawn(coro)`, `settle()` (run the loop until quiescent *without*
  advancing the clock), `advance(dt)` (move the virtual clock forward, firing timers in order), gates (`gate(name)` returns an
  awaitable the code under test blocks on; `open(name, value|exception)` releases it), `cancel(task)`.
  Only interleavings real asyncio can produce arise: the ready queue is never permuted.
"""
import asyncio
import heapq
import selectors
import time as _time
from contextlib import contextmanager


class VLoop(asyncio.SelectorEventLoop):
    def __init__(self):
        super().__init__(selectors.SelectSelector())
        self._vtime = 1000.0
        self.auto_advance = True

    def time(self):
        return self._vtime

    def _run_once(self):
        # drop cancelled timer heads (as the base class does) before deciding whether to jump the clock
        while self._scheduled and self._scheduled[0]._cancelled:
            h = heapq.heappop(self._scheduled)
            self._timer_cancelled_count = max(0, self._timer_cancelled_count - 1)
            h._scheduled = False
        if not self._ready and self._scheduled and self.auto_advance:
            when = self._scheduled[0]._when
            if when > self._vtime:
                self._vtime = when
        super()._run_once()

    # -- helpers -------------------------------------------------------------------------------
    def quiescent(self):
        if self._ready:
            return False
        return True

    def settle(self, max_iters=100000):
        """run callbacks until the ready queue is empty; timers due at the current virtual time fire, later ones do not"""
        old = self.auto_advance
        self.auto_advance = False
        try:
            for _ in range(max_iters):
                due = any((not h._cancelled) and h._when <= self._vtime for h in self._scheduled)
                if not self._ready and not due:
                    return
                self.call_soon(self.stop)
                self.run_forever()
            raise RuntimeError('settle: loop did not become quiescent')
        finally:
            self.auto_advance = old

    def stall(self, dt):
        """the loop is busy for dt (a blocking step inside some callback): the clock moves on, no timer fires meanwhile; the timers
        that became due fire LATE, all at the new time, in their due order"""
        self._vtime += dt
        self.settle()

    def next_timer(self):
        ts = [h._when for h in self._scheduled if not h._cancelled]
        return min(ts) if ts else None

    def advance(self, dt):
        """advance the virtual clock by dt, firing timers in time order and settling after each"""
        target = self._vtime + dt
        while True:
            self.settle()
            nt = self.next_timer()
            if nt is None or nt > target:
                break
            self._vtime = max(self._vtime, nt)
        self._vtime = target
        self.settle()


@contextmanager
def patch_time(loop, modules=()):
    """patch time.time / time.monotonic / time.monotonic_ns (module-global `time` lookups in the code under test) to the loop clock"""
    saved = (_time.time, _time.monotonic, _time.monotonic_ns, _time.time_ns)
    _time.time = lambda: loop._vtime
    _time.monotonic = lambda: loop._vtime
    _time.monotonic_ns = lambda: int(round(loop._vtime * 1_000_000_000))
    _time.time_ns = lambda: int(round(loop._vtime * 1_000_000_000))
    try:
        yield
    finally:
        _time.time, _time.monotonic, _time.monotonic_ns, _time.time_ns = saved


class Stepper:
    """Awaitable that drives `coro` and calls `on_suspend(n)` every time it suspends (n = 1, 2, ...: the n-th time the task
    hands control back to the event loop, whatever it is waiting for: a future, a bare `sleep(0)` yield, ...).  Whatever the
    coroutine yields is passed through untouched, so the task behaves exactly as if it ran `coro` directly.  Used to inject a
    cancellation at EVERY await point of the code under test: `on_suspend` may call `loop.call_soon(task.cancel)`, which is
    delivered at that very suspension point when the task runs next."""

    def __init__(self, coro, on_suspend):
        self.coro = coro
        self.on_suspend = on_suspend
        self.n = 0

    def __await__(self):
        coro = self.coro
        val, exc = None, None
        while True:
            try:
                y = coro.throw(exc) if exc is not None else coro.send(val)
            except StopIteration as e:
                return e.value
            self.n += 1
            self.on_suspend(self.n)
            try:
                val, exc = (yield y), None
            except BaseException as e:  # noqa: BLE001  (CancelledError must reach the coroutine)
                val, exc = None, e


async def stepped(coro, on_suspend):
    return await Stepper(coro, on_suspend)


class Sched:
    def __init__(self):
        self.loop = VLoop()
        asyncio.set_event_loop(self.loop)
        self.gates = {}
        self.tasks = {}

    def close(self):
        try:
            pending = [t for t in asyncio.all_tasks(self.loop) if not t.done()]
            for t in pending:
                t.cancel()
            if pending:
                self.loop.settle()
            for t in asyncio.all_tasks(self.loop):
                if t.done() and not t.cancelled():
                    t.exception()  # mark retrieved
        finally:
            asyncio.set_event_loop(None)
            self.loop.close()

    def gate(self, name):
        """future owned by the harness; the code under test awaits it"""
        f = self.gates.get(name)
        if f is None:
            f = self.loop.create_future()
            self.gates[name] = f
        return f

    # `settle=False` variants issue the action without running the loop, so that several actions land in the SAME loop
    # iteration (e.g. a release and a cancellation with nothing in between); call `settle()` afterwards.
    def open(self, name, value=None, exc=None, settle=True):
        f = self.gate(name)
        if not f.done():
            if exc is not None:
                f.set_exception(exc)
            else:
                f.set_result(value)
        if settle:
            self.loop.settle()

    def spawn(self, name, coro, settle=True):
        t = self.loop.create_task(coro, name=str(name))
        self.tasks[name] = t
        if settle:
            self.loop.settle()
        return t

    def cancel(self, name, settle=True):
        self.tasks[name].cancel()
        if settle:
            self.loop.settle()

    def cancel_soon(self, name):
        """request the cancellation from a callback queued behind everything already scheduled (no settling): a task woken by an
        earlier callback of the same iteration is then cancelled after its future completed but before it has run"""
        self.loop.call_soon(self.tasks[name].cancel)

    def settle(self):
        self.loop.settle()

    def advance(self, dt):
        self.loop.advance(dt)

    def stall(self, dt):
        self.loop.stall(dt)

    def status(self, name):
        """'pending' | 'ok:<repr>' | 'cancelled' | 'exc:<TypeName>'"""
        t = self.tasks[name]
        if not t.done():
            return 'pending'
        if t.cancelled():
            return 'cancelled'
        e = t.exception()
        if e is not None:
            return f'exc:{type(e).__name__}'
        return f'ok:{t.result()!r}'

import argparse
import importlib
import os
import sys
import traceback

from . import framework


def main():
    ap = argparse.ArgumentParser()
    ap.add_argument('prop')
    ap.add_argument('--tier', default=os.environ.get('VERIF_TIER', 'quick'), choices=['quick', 'thorough'])
    ap.add_argument('--replay')
    a = ap.parse_args()
    seed = int(os.environ.get('VERIF_SEED', '0') or 0)
    try:
        mod = importlib.import_module(f'harness.props.{a.prop.lower()}')
        prop = mod.PROP
        if a.replay:
            sys.exit(framework.replay(prop, a.replay))
        sys.exit(framework.run(prop, a.tier, seed))
    except framework.MachineryError as e:
        print(f'MACHINERY-ERROR property={a.prop}: {e}', file=sys.stderr)
        sys.exit(2)
    except SystemExit:
        raise
    except Exception:
        traceback.print_exc()
        print(f'MACHINERY-ERROR property={a.prop}: unexpected exception', file=sys.stderr)
        sys.exit(2)


if __name__ == '__main__':
    main()

"""Regenerate MANIFEST.json from the property modules that exist (harness/props/cXX.py) — run after adding a property."""
import importlib
import json
import os

HERE = os.path.dirname(os.path.abspath(__file__))
VERIF = os.path.dirname(HERE)

NOT_APPLICABLE = {}   # C37 was listed here until its translator-tied check (harness/props/c37.py) was built
NOT_BUILT = "machine-checked-proof check not built yet in this tree (see DESIGN.md section 4 for the planned model, theorems and tie); not claimed"


def main():
    props = [json.loads(l) for l in open(os.path.join(VERIF, 'properties.jsonl'))]
    checks = []
    na = []
    engines = {}
    for p in props:
        pid = p['id']
        path = os.path.join(HERE, 'props', pid.lower() + '.py')
        if pid in NOT_APPLICABLE:
            na.append({'property_id': pid, 'reason': NOT_APPLICABLE[pid]})
            continue
        if not os.path.exists(path):
            na.append({'property_id': pid, 'reason': NOT_BUILT})
            continue
        mod = importlib.import_module(f'harness.props.{pid.lower()}')
        P = mod.PROP
        if getattr(P, 'not_claimed', None):
            na.append({'property_id': pid, 'reason': P.not_claimed})
            continue
        missing = [m for m in P.lean_props if not os.path.exists(os.path.join(VERIF, 'lean', *m.split('.')) + '.lean')]
        if missing or (P.driver and not os.path.exists(os.path.join(VERIF, 'lean', P.driver))):
            na.append({'property_id': pid, 'reason': 'check under construction in this tree (theorem module or model driver not yet present); not claimed'})
            continue
        checks.append({
            'property_id': pid,
            'quick_cmd': f'./check {pid} --tier quick',
            'thorough_cmd': f'./check {pid} --tier thorough',
            'evidence_file': f'evidence/{pid}.json',
            'replay_cmd_template': f'./check {pid} --replay {{path}}',
            'engine': P.engine,
            'level_claimed': {'category': P.level, 'text': P.level_text, 'design_ref': P.design_ref},
            'level_note': P.level_note,
            'technique': P.technique,
        })
        engines.setdefault(P.engine, []).append(pid)
    man = {
        'version': 1,
        'setup_cmd': './setup.sh',
        'hooks': {
            'guard': 'HAIL_VERIF',
            'enable': 'no hooks are compiled into /repo: all instrumentation is external (fake DB pool, fake clients, deterministic event loop); '
                      'checks read HAIL_VERIF_REPO (default /repo) to locate the tree',
            'baseline_off_cmd': 'cd /repo && /venv/bin/python -m pytest -ra -q -p no:cacheprovider --timeout=900 --continue-on-collection-errors',
            'source_commits': [],
            'add_only': True,
        },
        'engines': [{'name': k, 'path': 'harness/ + lean/', 'serves_properties': v,
                     'kind_free_text': 'Lean 4 model + theorems (lean/HailVerif), tied to /repo by translator and/or differential correspondence (harness/props)'}
                    for k, v in sorted(engines.items())],
        'checks': checks,
        'not_applicable': na,
        'notes': 'Technique family: machine-checked proof in Lean 4. Every check = regenerate (T) -> lake build + #print axioms audit -> '
                 'correspondence of the executable model with the real code (C) -> oracle -> evidence. See DESIGN.md.',
    }
    with open(os.path.join(VERIF, 'MANIFEST.json'), 'w') as f:
        json.dump(man, f, indent=1)
    print(f'{len(checks)} checks, {len(na)} not claimed')


if __name__ == '__main__':
    main()

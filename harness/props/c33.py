"""C33 Value binary encoding round-trips and matches the engine layout.

C tie : the real `HailType._to_encoding` / `_from_encoding` (`_convert_to_encoding`, `_convert_from_encoding`, ByteWriter /
        ByteReader) against `Model/ValueEnc.lean`: the bytes written (must be EQUAL) and the value read back.
T tie : `EType.fromPythonTypeEncoding`'s case table is re-extracted from EType.scala on every run
        (`harness/extract/scala_etype.py` -> `Generated/PyEType.lean`; `C33.layout_matches_table` compares it with the table the
        model was written to).
Oracle: on the real bytes, independent of the model — (a) `_from_encoding(_to_encoding(x))` equals x; (b) a decoder that is
        driven ONLY by the extracted EType table and the conventions of the EType classes (required ⇒ no missing bit, LE fixed
        width, length-prefixed binary, column-major n-d arrays, bit-packed calls) reads exactly x and consumes every byte;
        (c) an array gives the same bytes whatever its memory order.
"""
import json
import math
import struct

from .. import hailenv
from ..extract import scala_etype
from ..framework import Prop
from . import hailvalues as hv

CLASS_WITNESS = {
    'ndarray-non-numeric-encode': {'type': ['ndarray', ['str'], 0], 'value': ['nd', [], [''], 'C']},
}

TCASE_OF = {'i32': ['TInt32'], 'i64': ['TInt64'], 'f32': ['TFloat32'], 'f64': ['TFloat64'], 'bool': ['TBoolean'], 'str': ['TString'],
            'locus': ['TLocus'], 'call': ['TCall'], 'interval': ['TInterval'], 'dict': ['TDict', 'TIterable'], 'set': ['TSet', 'TIterable'],
            'array': ['TIterable'], 'struct': ['TBaseStruct'], 'tuple': ['TBaseStruct'], 'ndarray': ['TNDArray']}


class LayoutError(Exception):
    pass


def spec_call_word(alleles, phased):
    """bit-packed call of the property text: phased bit, ploidy in bits 1-2, allele / genotype index from bit 3"""
    w = (1 if phased else 0) | (len(alleles) << 1)
    if len(alleles) == 1:
        w |= alleles[0] << 3
    elif len(alleles) == 2:
        j, k = alleles
        if phased:
            k = j + k
        w |= (k * (k + 1) // 2 + j) << 3
    return w & 0xFFFFFFFF


class EngineDecoder:
    """reads bytes the way the EType classes named by `EType.fromPythonTypeEncoding` do (table-driven; nothing of the Python
    encoder or of the Lean model is used)"""

    def __init__(self, rows):
        self.rows = rows

    def row(self, t):
        for r in self.rows:
            if r['tcase'] in TCASE_OF[t[0]]:
                return r
        raise LayoutError(f'no case of fromPythonTypeEncoding matches {t[0]}')

    def etype(self, t):
        r = self.row(t)
        e = {'ctor': r['ctor'], 'required': r['required'], 't': t}
        if r['elem'] is not None:
            if t[0] == 'dict':
                et = ['struct', [['key', t[1]], ['value', t[2]]]]
            else:
                et = t[1]
            sub = self.etype(et)
            if r['elem_required']:
                sub = dict(sub, required=True)
            e['elem'] = sub
            if r['ndims']:
                e['ndims'] = t[2]
        if r['fields'] == 'tabulate':
            ts = [ft for _, ft in t[1]] if t[0] == 'struct' else list(t[1])
            e['fields'] = [self.etype(ft) for ft in ts]
        elif r['fields'] is not None:
            fs = []
            for name, kind, req in r['fields']:
                if kind.startswith('rec:'):
                    fs.append(self.etype(t[1]))
                else:
                    prim = {'EBinary': ['str'], 'EInt32': ['i32'], 'EBoolean': ['bool'], 'EInt64': ['i64'], 'EFloat64': ['f64'],
                            'EFloat32': ['f32']}[kind]
                    fs.append({'ctor': kind, 'required': req, 't': prim})
            e['fields'] = fs
        return e

    def take(self, bs, pos, n):
        if n < 0 or pos + n > len(bs):
            raise LayoutError(f'needs {n} bytes at offset {pos} of {len(bs)}')
        return bs[pos:pos + n], pos + n

    def read(self, e, bs, pos):
        """-> (canonical text in the format of hailvalues.canon_case, with calls as cw<word>), new position"""
        c = e['ctor']
        t = e['t']
        if c == 'EInt32':
            b, pos = self.take(bs, pos, 4)
            v = struct.unpack('<i', b)[0]
            if t[0] == 'call':
                return 'cw%d' % (v & 0xFFFFFFFF), pos
            return 'i%d' % v, pos
        if c == 'EInt64':
            b, pos = self.take(bs, pos, 8)
            return 'i%d' % struct.unpack('<q', b)[0], pos
        if c == 'EFloat32':
            b, pos = self.take(bs, pos, 4)
            x = struct.unpack('<f', b)[0]
            return ('nan' if x != x else ('inf' if x > 0 else '-inf') if math.isinf(x) else 'g%08x' % struct.unpack('<I', b)[0]), pos
        if c == 'EFloat64':
            b, pos = self.take(bs, pos, 8)
            x = struct.unpack('<d', b)[0]
            return ('nan' if x != x else ('inf' if x > 0 else '-inf') if math.isinf(x) else 'f%016x' % struct.unpack('<Q', b)[0]), pos
        if c == 'EBoolean':
            b, pos = self.take(bs, pos, 1)
            if b[0] not in (0, 1):
                raise LayoutError(f'boolean byte {b[0]}')
            return ('T' if b[0] else 'F'), pos
        if c == 'EBinary':
            b, pos = self.take(bs, pos, 4)
            n = struct.unpack('<i', b)[0]
            b, pos = self.take(bs, pos, n)
            return 's' + hv.cps(bytes(b).decode('utf-8')), pos
        if c == 'EBaseStruct':
            fs = e['fields']
            nopt = sum(1 for f in fs if not f['required'])
            mb, pos = self.take(bs, pos, (nopt + 7) // 8)
            vals = []
            k = 0
            for f in fs:
                if not f['required']:
                    miss = (mb[k // 8] >> (k % 8)) & 1
                    k += 1
                    if miss:
                        vals.append('NA')
                        continue
                v, pos = self.read(f, bs, pos)
                vals.append(v)
            if t[0] == 'struct':
                return 'st(' + ','.join(vals) + ')', pos
            if t[0] == 'tuple':
                return 'tup(' + ','.join(vals) + ')', pos
            if t[0] == 'locus':
                if 'NA' in vals:
                    raise LayoutError('locus with a missing component')
                return 'locus(%s;%s;%s)' % (hv.cps(t[1]), vals[0][1:], vals[1][1:]), pos
            if t[0] == 'interval':
                if 'NA' in vals[2:]:
                    raise LayoutError('interval with a missing flag')
                return 'iv(%s;%s;%d;%d)' % (vals[0], vals[1], vals[2] == 'T', vals[3] == 'T'), pos
            raise LayoutError(t[0])
        if c in ('EArray', 'EUnsortedSet', 'EDictAsUnsortedArrayOfPairs'):
            b, pos = self.take(bs, pos, 4)
            n = struct.unpack('<i', b)[0]
            if n < 0:
                raise LayoutError('negative length')
            el = e['elem']
            mb = None
            if not el['required']:
                mb, pos = self.take(bs, pos, (n + 7) // 8)
            vals = []
            for i in range(n):
                if mb is not None and (mb[i // 8] >> (i % 8)) & 1:
                    vals.append('NA')
                    continue
                v, pos = self.read(el, bs, pos)
                vals.append(v)
            if t[0] == 'dict':
                ents = []
                for v in vals:
                    if v == 'NA':
                        raise LayoutError('missing dict entry')
                    # v = st(<key>,<value>): split at the top-level comma
                    depth = 0
                    cut = None
                    body = v[3:-1]
                    for i, ch in enumerate(body):
                        if ch == '(':
                            depth += 1
                        elif ch == ')':
                            depth -= 1
                        elif ch == ',' and depth == 0:
                            cut = i
                            break
                    ents.append(body[:cut] + '=>' + body[cut + 1:])
                return 'dict(' + ','.join(sorted(ents)) + ')', pos
            if t[0] == 'set':
                return 'set(' + ','.join(sorted(vals)) + ')', pos
            return 'arr(' + ','.join(vals) + ')', pos
        if c == 'ENDArrayColumnMajor':
            dims = []
            for _ in range(e['ndims']):
                b, pos = self.take(bs, pos, 8)
                dims.append(struct.unpack('<q', b)[0])
            if any(d < 0 for d in dims):
                raise LayoutError('negative dimension')
            total = 1
            for d in dims:
                total *= d
            el = e['elem']
            if not el['required']:
                raise LayoutError('ENDArrayColumnMajor with nullable elements is not a layout this decoder knows')
            cm = []
            for _ in range(total):
                v, pos = self.read(el, bs, pos)
                cm.append(v)
            # column-major position of the row-major index (i0, …, ik): sum_k i_k * prod(dims[:k])
            out = []
            idx = [0] * len(dims)
            for _ in range(total):
                p, stride = 0, 1
                for k in range(len(dims)):
                    p += idx[k] * stride
                    stride *= dims[k]
                out.append(cm[p])
                for k in reversed(range(len(dims))):
                    idx[k] += 1
                    if idx[k] < dims[k]:
                        break
                    idx[k] = 0
            return 'nd(%s;%s)' % ('x'.join(map(str, dims)), ','.join(out)), pos
        raise LayoutError(f'unknown EType constructor {c}')


def canon_engine(t, v):
    """hailvalues.canon_case with calls as their spec word"""
    s = hv.canon_case(t, v)
    return s


def engine_canon_case(t, v):
    if v is None:
        return 'NA'
    k = t[0]
    if k == 'call':
        return 'cw%d' % spec_call_word(v[1], v[2])
    if k == 'interval':
        return 'iv(%s;%s;%d;%d)' % (engine_canon_case(t[1], v[1]), engine_canon_case(t[1], v[2]), 1 if v[3] else 0, 1 if v[4] else 0)
    if k == 'array':
        return 'arr(' + ','.join(engine_canon_case(t[1], x) for x in v[1]) + ')'
    if k == 'set':
        return 'set(' + ','.join(sorted(engine_canon_case(t[1], x) for x in v[1])) + ')'
    if k == 'dict':
        return 'dict(' + ','.join(sorted(engine_canon_case(t[1], a) + '=>' + engine_canon_case(t[2], b) for a, b in v[1])) + ')'
    if k == 'struct':
        return 'st(' + ','.join(engine_canon_case(ft, x) for (_, ft), x in zip(t[1], v[1])) + ')'
    if k == 'tuple':
        return 'tup(' + ','.join(engine_canon_case(et, x) for et, x in zip(t[1], v[1])) + ')'
    if k == 'ndarray':
        return 'nd(%s;%s)' % ('x'.join(map(str, v[1])), ','.join(engine_canon_case(t[1], x) for x in v[2]))
    return hv.canon_case(t, v)


def strip_nonnumeric_nd(t, v):
    if v is None:
        return None
    k = t[0]
    if k == 'interval':
        return ['iv', strip_nonnumeric_nd(t[1], v[1]), strip_nonnumeric_nd(t[1], v[2]), v[3], v[4]]
    if k == 'array':
        return ['arr', [strip_nonnumeric_nd(t[1], x) for x in v[1]]]
    if k == 'set':
        out, seen = [], set()
        for x in v[1]:
            y = strip_nonnumeric_nd(t[1], x)
            key = hv.canon_case(t[1], y)
            if key not in seen:
                seen.add(key)
                out.append(y)
        return ['set', out]
    if k == 'dict':
        out, seen = [], set()
        for a, b in v[1]:
            a2 = strip_nonnumeric_nd(t[1], a)
            key = hv.canon_case(t[1], a2)
            if key not in seen:
                seen.add(key)
                out.append([a2, strip_nonnumeric_nd(t[2], b)])
        return ['dict', out]
    if k == 'struct':
        return ['st', [strip_nonnumeric_nd(ft, x) for (_, ft), x in zip(t[1], v[1])]] + v[2:]
    if k == 'tuple':
        return ['tup', [strip_nonnumeric_nd(et, x) for et, x in zip(t[1], v[1])]]
    if k == 'ndarray':
        if t[1][0] not in hv.NUMERIC and v[2]:
            return None
        return v
    return v


def flip_order(t, v):
    """the same value with every n-d array in the other memory order"""
    if v is None:
        return None
    k = t[0]
    if k == 'interval':
        return ['iv', flip_order(t[1], v[1]), flip_order(t[1], v[2]), v[3], v[4]]
    if k in ('array', 'set'):
        return [v[0], [flip_order(t[1], x) for x in v[1]]]
    if k == 'dict':
        return ['dict', [[flip_order(t[1], a), flip_order(t[2], b)] for a, b in v[1]]]
    if k == 'struct':
        return ['st', [flip_order(ft, x) for (_, ft), x in zip(t[1], v[1])]] + v[2:]
    if k == 'tuple':
        return ['tup', [flip_order(et, x) for et, x in zip(t[1], v[1])]]
    if k == 'ndarray':
        return ['nd', v[1], v[2], 'F' if v[3] == 'C' else 'C'] + v[4:]
    return v


def has_nd(t):
    return 'ndarray' in hv.kinds(t, set())


class C33(Prop):
    id = 'C33'
    title = 'Value binary encoding round-trips and matches the engine layout'
    lean_props = ['HailVerif.Props.C33']
    driver = 'Driver/C33.lean'
    engine = 'E4-frontend'
    design_ref = 'DESIGN.md §4 C33'
    technique = ('Lean 4 theorems (mutual structural induction over the type) about an executable byte-level model of _convert_to_encoding / '
                 '_convert_from_encoding + byte-exact differential correspondence with the real methods + translator tie (case table of '
                 'EType.fromPythonTypeEncoding)')
    level_text = ('Proved for every type and every well-typed value (missing at every level, NaN/±inf, calls, loci, intervals, sets, dicts, '
                  'tuples, nested structs, numeric n-d arrays of any rank in either memory order): decode(encode(v) ++ rest) = (v, rest); n-d '
                  'arrays are written column-major whatever their memory order; the nullability choices of the model are exactly the case '
                  'table extracted from EType.fromPythonTypeEncoding. Excluded by an explicit hypothesis: n-d arrays with a non-numeric '
                  'element type, which the encoder cannot write (known finding).')
    level_note = ('Trusted: the readers of the EType classes in Scala are not modelled beyond the extracted table (the oracle\'s table-driven '
                  'decoder states their conventions); struct.pack/unpack little-endian layouts; numpy nditer order="F"; the call bit packing '
                  'is the model of C34. The expected numeric-ndarray row-major defect of DESIGN.md does NOT exist in this tree: the numeric '
                  'fast path is dead code (type instance compared with a set of classes).')
    budget = {'quick': 6000, 'thorough': 40000}
    search_budget = {'quick': 6000, 'thorough': 40000}
    rule = ('case = (type of depth <= 4, type-directed non-missing value with 15% missing inside, NaN/±inf/-0.0/denormals, boundary ints, '
            'all call shapes, loci, C- and F-ordered n-d arrays of rank 0-3 incl. empty ones, structs/tuples of 8-9 fields to cross the '
            'missing-byte boundary, arrays of 7/8/9/17 elements); lines = bytes written (hex, must be equal), value read back; '
            'non-trivial = a compound type with at least 3 values; distinct by full case')
    trusted = ['harness/extract/scala_etype.py (case-table extraction from EType.scala, every case checked against a small grammar)',
               'the conventions of the engine\'s EType readers as stated in the oracle\'s table-driven decoder (EngineDecoder)',
               'numpy 2.x nditer(order="F") / ndarray(order="F"), struct.pack/unpack',
               'Model/CallPack.lean (C34) for the call word',
               'harness/hailenv.py StubBackend + real ReferenceGenome/Locus/Interval/Call/Struct classes']
    assumptions = ['the platform is little-endian (struct "=" formats)', 'float("nan") is the quiet NaN 0x7ff8000000000000 / 0x7fc00000',
                   'the top-level value is not None (hl.literal turns None into hl.missing before any encoding)']

    def generate(self, repo):
        rows = scala_etype.extract(repo)        # raises TieBroken
        self.rows = rows
        changed = scala_etype.emit(rows)
        return [f'T: EType.fromPythonTypeEncoding: {len(rows)} cases ('
                + ', '.join(f'{r["tcase"]}->{r["ctor"]}' + ('[elem required]' if r['elem_required'] else '') for r in rows)
                + f'); Generated/PyEType.lean {"rewritten" if changed else "unchanged"}']

    def setup(self, repo):
        self.hl = hailenv.init(repo)
        hailenv.reference('my ref')
        self.H = hv.HailValues(self.hl, hailenv)
        if not hasattr(self, 'rows'):
            self.rows = scala_etype.extract(repo)
        self.engine = EngineDecoder(self.rows)
        self._memo = {}

    def cases(self, rng, n, tier):
        for _ in range(n):
            if rng.random() < 0.15:      # numeric matrices / tensors at the top: the layout question of the property
                t = ['ndarray', [rng.choice(hv.NUMERIC)], rng.choice([2, 2, 3])]
            else:
                t = hv.gen_type(rng, rng.choice([1, 2, 2, 3, 3, 3, 4, 4]))
            v = hv.gen_value(rng, t, allow_missing=False)
            if rng.random() < 0.5:      # missing values in both spellings HailType._missing accepts: None and pandas.NA
                v = hv.spell_missing(rng, t, v)
            yield {'type': t, 'value': v}

    def ordered(self, t, v, x):
        """the case value with set elements in the order the REAL Python set `x` is iterated (the bytes depend on it; the order
        itself is not an observable, so the model is simply given the same order)"""
        if v is None:
            return None
        k = t[0]
        if k == 'interval':
            return ['iv', self.ordered(t[1], v[1], x.start), self.ordered(t[1], v[2], x.end), v[3], v[4]]
        if k == 'array':
            return ['arr', [self.ordered(t[1], a, b) for a, b in zip(v[1], x)]]
        if k == 'set':
            by_canon = {hv.canon_case(t[1], a): a for a in v[1]}
            return ['set', [self.ordered(t[1], by_canon[self.H.canon_py(t[1], e)], e) for e in x]]
        if k == 'dict':
            by_canon = {hv.canon_case(t[1], a): (a, b) for a, b in v[1]}
            out = []
            for ke, ve in x.items():
                a, b = by_canon[self.H.canon_py(t[1], ke)]
                out.append([self.ordered(t[1], a, ke), self.ordered(t[2], b, ve)])
            return ['dict', out]
        if k == 'struct':
            return ['st', [self.ordered(ft, a, x[n]) for (n, ft), a in zip(t[1], v[1])]] + v[2:]
        if k == 'tuple':
            return ['tup', [self.ordered(et, a, b) for et, a, b in zip(t[1], v[1], x)]]
        return v

    def real(self, c):
        """(python value, case value in the real iteration order, bytes | None) — built once per case"""
        key = json.dumps(c, sort_keys=True)
        if key not in self._memo:
            if len(self._memo) > 400000:      # impl() of every case runs before model_lines(): never evict within a run
                self._memo.clear()
            t, v = c['type'], c['value']
            try:
                x = self.H.to_py(t, v)
            except Exception as e:      # the value cannot even be built (e.g. hl.Struct refusing a field name)
                self._memo[key] = (e, hv.unspell(v), None)
                return self._memo[key]
            v = hv.unspell(v)           # from here on the spelling of a missing value is not an observable
            ov = self.ordered(t, v, x)
            try:
                b = self.H.build_type(t)._to_encoding(x)
            except Exception:
                b = None
            self._memo[key] = (x, ov, b)
        return self._memo[key]

    def model_lines(self, c):
        t = c['type']
        x, v, real = self.real(c)
        if isinstance(x, Exception):
            return []          # nothing to compare: impl() re-raises, the oracle reports it
        s = ' '.join(hv.ty_tokens(t)) + ' | ' + ' '.join(hv.val_tokens(t, v))
        # (the model is never asked to read bytes it did not write: on foreign bytes a garbage dimension of an array of
        # zero-width elements would make it — like the real decoder — loop for 2^60 steps; when the `enc` lines agree the bytes
        # ARE the model's, so `rt` already is the model's reading of the real bytes)
        return ['enc ' + s, 'rt ' + s]

    def impl(self, c):
        t = c['type']
        x, v, b = self.real(c)
        if isinstance(x, Exception):
            raise x
        ht = self.H.build_type(t)
        if b is None:
            return ['err', 'err']
        out = [b.hex() if b else '-']
        try:
            back = self.H.canon_py(t, ht._from_encoding(b))
        except Exception:
            back = 'err'
        out.append(back)
        return out

    def failure(self, t, v):
        ht = self.H.build_type(t)
        try:
            x = self.H.to_py(t, v)
        except Exception as e:
            return f'the value cannot be built: {type(e).__name__}: {str(e)[:100]}'
        spelled, v = v, hv.unspell(v)
        want = hv.canon_case(t, v)
        try:
            b = ht._to_encoding(x)
        except Exception as e:
            return f'_to_encoding raises {type(e).__name__}: {str(e)[:90]}'
        try:
            back = ht._from_encoding(b)
        except Exception as e:
            return f'_from_encoding raises {type(e).__name__}: {str(e)[:80]} on {b.hex()[:80]}'
        try:
            got = self.H.canon_py(t, back)
        except Exception as e:
            return f'value read back has the wrong shape ({e})'
        if got != want:
            return f'value read back differs: sent {want[:150]} got {got[:150]}'
        # (b) the engine's reading of the same bytes
        try:
            got, pos = self.engine.read(self.engine.etype(t), b, 0)
        except LayoutError as e:
            return f'the layout EType.fromPythonTypeEncoding announces cannot read the bytes ({e}): {b.hex()[:120]}'
        except UnicodeDecodeError as e:
            return f'string bytes are not UTF-8: {e}'
        if pos != len(b):
            return f'the engine layout reads {pos} of {len(b)} bytes: {b.hex()[:120]}'
        want_e = engine_canon_case(t, v)
        if got != want_e:
            return f'the engine layout reads another value: sent {want_e[:150]} engine reads {got[:150]} from {b.hex()[:120]}'
        # (c) memory order of n-d arrays is not visible in the bytes
        if has_nd(t) and 'set' not in hv.kinds(t, set()):
            try:
                b2 = ht._to_encoding(self.H.to_py(t, flip_order(t, v)))       # (missing values spelled None here)
            except Exception as e:
                return f'the same value with its arrays in the other memory order: _to_encoding raises {type(e).__name__}: {str(e)[:80]}'
            if b2 != b:
                return f'bytes depend on the memory order of the array: {b.hex()[:100]} vs {b2.hex()[:100]}'
        return None

    def oracle(self, c, out):
        if out and out[0].startswith('IMPL-EXC'):
            return out[0]
        t, v = c['type'], c['value']
        why = self.failure(t, v)
        if why is None:
            return None
        v = hv.unspell(v)
        v2 = strip_nonnumeric_nd(t, v)
        if json.dumps(v2) != json.dumps(v):
            if v2 is None or self.failure(t, v2) is None:
                return f'[class=ndarray-non-numeric-encode] {why}'
        return why

    def finding_key(self, c, msg):
        if msg.startswith('[class='):
            cls = msg[7:msg.index(']')]
            if cls in CLASS_WITNESS:
                return json.dumps({'class': cls, 'witness': CLASS_WITNESS[cls]}, sort_keys=True)
        return json.dumps({'case': c, 'msg': msg[:100]}, sort_keys=True)

    def classify(self, c, out):
        t, v = c['type'], c['value']
        spelled = json.dumps(v) != json.dumps(hv.unspell(v))
        v = hv.unspell(v)
        acc = hv.count_values(t, v, [0, 0, 0])
        ks = hv.kinds(t, set())
        tags = ['has:' + k for k in sorted(ks)]
        tags.append('missing%%=%d' % (10 * round(10 * acc[1] / max(acc[0], 1))))
        if acc[2]:
            tags.append('nonfinite-float')
        if out and out[0] not in ('err', '-') and not out[0].startswith('IMPL'):
            n = len(out[0]) // 2
            tags.append('bytes<=%d' % (8 if n <= 8 else 64 if n <= 64 else 512 if n <= 512 else 100000))
        tags.append('outcome:' + ('err' if out and out[0] == 'err' else 'ok'))
        if spelled:
            tags.append('missing-spelled-pd.NA')
        for nd in self._nds(t, v):
            tags.append('nd:rank=%d' % len(nd[1]))
            tags.append('nd:order=' + nd[3] if len(nd[1]) >= 2 else 'nd:order=n/a')
            if len(nd) > 4:
                tags.append('nd:foreign-dtype')
            if not nd[2]:
                tags.append('nd:empty')
        compound = bool(ks - {'i32', 'i64', 'f32', 'f64', 'bool', 'str', 'call', 'locus'})
        return (json.dumps(c, sort_keys=True) if compound and acc[0] >= 3 else None, tags)

    def _nds(self, t, v):
        if v is None:
            return
        k = t[0]
        if k == 'ndarray':
            yield v
        elif k == 'interval':
            yield from self._nds(t[1], v[1])
            yield from self._nds(t[1], v[2])
        elif k in ('array', 'set'):
            for x in v[1]:
                yield from self._nds(t[1], x)
        elif k == 'dict':
            for a, b in v[1]:
                yield from self._nds(t[1], a)
                yield from self._nds(t[2], b)
        elif k == 'struct':
            for (_, ft), x in zip(t[1], v[1]):
                yield from self._nds(ft, x)
        elif k == 'tuple':
            for et, x in zip(t[1], v[1]):
                yield from self._nds(et, x)

    def shrink(self, c, fails):
        from .c32 import PROP as P32
        t, v = c['type'], c['value']
        changed = True
        while changed:
            changed = False
            for t2, v2 in P32._smaller(t, v):
                if v2 is not None and v2 != hv.PDNA and fails({'type': t2, 'value': v2}):
                    t, v = t2, v2
                    changed = True
                    break
        return {'type': t, 'value': v}


PROP = C33()

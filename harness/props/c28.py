"""C28 Usernames and credential secret names are validated exactly — correspondence of Names.validUsername /
Names.validSecretNameInput with the real auth.auth_utils functions, and of the user-creation flow in auth/auth/auth.py
(check_valid_new_user / insert_new_user, executed from their own source) with the same specification."""
import ast
import itertools
import json
import os

from .. import loader
from ..framework import Prop

ALNUM = frozenset('abcdefghijklmnopqrstuvwxyz0123456789')

# class alphabet: two letters, two digits, both separators, an upper-case letter, underscore, newline, a non-ASCII
# lower-case letter ('é'.islower() is True) and a fullwidth digit ('１'.isdigit() is True)
ALPHA11 = ['a', 'z', '0', '9', '-', '.', 'A', '_', '\n', '\xe9', '\uff11']
ALPHA10 = ['a', 'z', '0', '-', '.', 'A', '_', '\n', '\xe9', '\uff11']

# characters that look acceptable to a sloppy check: control characters, Unicode lower-case letters / digits for which
# str.islower()/str.isdigit() are True, line separators that '$' or str.splitlines honour, lone surrogate
NASTY = ['\n', '\r', '\0', '\t', ' ', '\x0b', '\x0c', '\x1c', '\x1f', '\x7f', '\x85', '\xa0', '\u2028', '\u2029', '\xe9', '\xdf', '\u01c6',
         '\uff41', '\uff11', '\u0663', '\xb2', '\U0001d41a', '\U0001d7d8', '\uff21', 'A', 'Z', '_', '@', '/', ':', '`', '{', '-', '.', '\ud800', '\udfff',
         '\U0010ffff', '\xad', '\u200b']


def spec_labels(s: str, seps: str) -> bool:
    """The property statement: non-empty alphanumeric ([a-z0-9]) labels joined by single separators from `seps`."""
    if s == '':
        return False
    cur = 0                      # length of the label being read
    for ch in s:
        if ch in ALNUM:
            cur += 1
        elif ch in seps:
            if cur == 0:         # separator at the start or right after another separator
                return False
            cur = 0
        else:
            return False
    return cur > 0               # a separator at the end leaves an empty last label


def spec_username(s: str) -> bool:
    return spec_labels(s, '-')


def spec_secret(s: str) -> bool:
    return spec_labels(s, '.-')


class _FakeTx:
    def __init__(self):
        self.inserted = []

    async def execute_insertone(self, sql, args=None):
        self.inserted.append((sql, args))
        return 1

    def execute_and_fetchall(self, sql, args=None):
        async def gen():
            return
            yield  # pragma: no cover
        return gen()


def _drive(coro):
    """run a coroutine that never really suspends"""
    try:
        coro.send(None)
    except StopIteration as e:
        return e.value
    coro.close()
    raise RuntimeError('user-creation flow suspended on a real await')


class C28(Prop):
    id = 'C28'
    title = 'Usernames and credential secret names are validated exactly'
    lean_props = ['HailVerif.Props.C28']
    driver = 'Driver/C28.lean'
    engine = 'E3-pure'
    design_ref = 'DESIGN.md §4 C28'
    technique = ('Lean 4 proof that two executable recognisers (one a verified regular-expression matcher run on the pattern itself) '
                 'decide the grammars of the property + exhaustive small-scope differential correspondence with the real validators')
    level_text = ('Theorems for ALL strings (any Unicode scalar values, any length): validUsername s <-> Username s, validSecretName s <-> '
                  'Rfc1123Name s (grammars as an inductive predicate, proved equal to the plain reading: non-empty, only [a-z0-9] and '
                  'separators, alphanumeric first and last, no two separators in a row), None accepted by design; corollaries: non-ASCII, '
                  'control characters, trailing newline, upper case rejected. The regex matcher is proved correct for every expression. The '
                  'models are tied to auth.auth_utils on every run by comparison on ALL strings of length <= 4 (quick) / <= 6 (thorough) '
                  'over a class alphabet plus directed Unicode/control/long strings; the user-creation handlers of auth.py are executed '
                  'from their source to check they still apply both validators before the INSERT.')
    level_note = ('Trusted: Lean kernel; the hand-written models agree with the Python functions only as far as the (class-exhaustive) '
                  'correspondence shows; CPython str.isascii/isdigit/islower and re.fullmatch semantics; lone surrogates are fed to the model '
                  'as U+FFFD. The proof is about the models, not about the Python text.')
    budget = {'quick': 4000, 'thorough': 60000}            # directed/random strings on top of the exhaustive part
    search_budget = {'quick': 20000, 'thorough': 200000}
    rule = ('case = one string (list of code points) or None; exhaustive over all strings of length <= 4 over the 11-symbol class alphabet '
            '{a z 0 9 - . A _ \\n é １} (quick), additionally length <= 6 over 10 of them (thorough); plus every code point < 0x250 alone and '
            'embedded in a/…/a; plus grammar-generated valid names with one nasty character (controls, Unicode lower-case/digits, line '
            'separators, lone surrogates) inserted/substituted/appended; plus random Unicode and long strings. non-trivial = at most one '
            'character outside [a-z0-9.-]; distinct by string. flow cases = (username, secret name or None, login_id None/empty/given, '
            'is_developer, is_service_account, hail_identity) — every flag combination x boundary names + random — pushed through the real '
            'insert_new_user/check_valid_new_user source with a fake transaction: INSERT reached iff both valid')
    trusted = ['lone surrogate code points (possible in a Python str, not Lean Chars) are mapped to U+FFFD by the model driver',
               'auth.py handlers check_valid_new_user/insert_new_user are exec-ed from their own AST with a fake transaction '
               '(annotations stripped; gear.transaction replaced by a pass-through)']
    assumptions = ['inputs are Python str (or None for the secret name): check_valid_new_user rejects non-str usernames before validation',
                   'CPython re: a pattern without back-references/look-around fullmatches exactly the strings of its regular language']

    # ------------------------------------------------------------------------------------------
    def setup(self, repo):
        loader.install(repo)
        import auth.auth_utils as au
        import auth.exceptions as ex
        self.au = au
        self.ex = ex
        self.repo = repo
        self._flow = None

    # ---- case streams ---------------------------------------------------------------------------
    @staticmethod
    def _case(s):
        return {'s': None if s is None else [ord(c) for c in s]}

    def _valid_name(self, rng, seps, maxlen):
        n_labels = rng.choice([1, 1, 2, 2, 3, 5])
        out = []
        for i in range(n_labels):
            if i:
                out.append(rng.choice(seps))
            out.append(''.join(rng.choice('abcxyz0189mq') for _ in range(rng.choice([1, 1, 2, 3, 8]))))
        s = ''.join(out)
        if rng.random() < 0.05:
            s = s + rng.choice('ab0') * rng.randint(1, maxlen)
        return s[:maxlen] if s[:maxlen] and s[:maxlen][-1] in ALNUM else s[:1]

    def _random_string(self, rng):
        r = rng.random()
        if r < 0.55:
            s = self._valid_name(rng, rng.choice(['-', '.-', '.-']), 600)
            m = rng.random()
            if m < 0.15:
                return s
            ch = rng.choice(NASTY)
            pos = rng.choice([0, len(s), len(s), rng.randint(0, len(s))])
            if m < 0.6:
                return s[:pos] + ch + s[pos:]
            if m < 0.85 and s:
                pos = min(pos, len(s) - 1)
                return s[:pos] + ch + s[pos + 1:]
            return s[:pos] + ch + rng.choice(NASTY) + s[pos:]
        if r < 0.75:
            ranges = [(0, 0x7f), (0, 0x7f), (0x80, 0x2ff), (0x300, 0xffff), (0x10000, 0x10ffff), (0xff00, 0xffef), (0x660, 0x669)]
            out = []
            for _ in range(rng.choice([1, 2, 3, 5, 9])):
                lo, hi = rng.choice(ranges)
                out.append(chr(rng.randint(lo, hi)))
            return ''.join(out)
        if r < 0.95:
            return ''.join(rng.choice('ab0-.') for _ in range(rng.choice([5, 7, 8, 12, 20])))
        return ''.join(rng.choice('ab01-') for _ in range(rng.randint(100, 600)))

    def cases(self, rng, n, tier):
        yield {'s': None}
        for k in range(0, 5):
            for t in itertools.product(ALPHA11, repeat=k):
                yield {'s': [ord(c) for c in t]}
        if tier == 'thorough':
            for k in (5, 6):
                for t in itertools.product(ALPHA10, repeat=k):
                    yield {'s': [ord(c) for c in t]}
        top = 0x250 if tier == 'quick' else 0x3000
        for cp in range(top):
            yield {'s': [cp]}
            yield {'s': [97, cp]}
            yield {'s': [cp, 97]}
            yield {'s': [97, cp, 48]}
        for _ in range(n):
            yield self._case(self._random_string(rng))
        yield from self._flows(rng, 300 if tier == 'quick' else 5000)

    def search_cases(self, rng, n, hint):
        # mismatch-directed: neighbours of the mismatching string first, then the exhaustive scope one longer, then random
        if hint and hint.get('s') is not None:
            s = hint['s']
            yield {'s': s}
            for i in range(len(s) + 1):
                for ch in NASTY + ['a', '0', '-', '.']:
                    yield {'s': s[:i] + [ord(ch)] + s[i:]}
                    if i < len(s):
                        yield {'s': s[:i] + [ord(ch)] + s[i + 1:]}
                if i < len(s):
                    yield {'s': s[:i] + s[i + 1:]}
        yield {'s': None}
        yield from self._flows(rng, 2000)
        for t in itertools.product(ALPHA11, repeat=5):
            yield {'s': [ord(c) for c in t]}
        for _ in range(n):
            yield self._case(self._random_string(rng))

    # ---- model / implementation -------------------------------------------------------------------
    @staticmethod
    def _flow_args(c):
        """(username cps, secret cps|None, login_id str|None, is_developer, is_service_account, hail_identity)"""
        f = c['flow']
        return f['u'], f['s'], f.get('login', 'login-id'), bool(f.get('dev', False)), bool(f.get('sa', False)), f.get('ident')

    def model_lines(self, c):
        if 'flow' in c:
            u, s, login, dev, sa, _ident = self._flow_args(c)
            head = ['flow', '1' if dev else '0', '1' if sa else '0', 'n' if login is None else 'e' if login == '' else 'v']
            return [' '.join(head + ['%x' % cp for cp in u] + ['|'] + (['none'] if s is None else ['s'] + ['%x' % cp for cp in s]))]
        if c['s'] is None:
            return ['none']
        return [' '.join(['s'] + ['%x' % cp for cp in c['s']])]

    @staticmethod
    def _str(cps):
        return None if cps is None else ''.join(map(chr, cps))

    def _secret_accepts(self, s):
        try:
            r = self.au.validate_credentials_secret_name_input(s)
        except self.ex.AuthUserError:
            return False
        if r is not None:
            raise RuntimeError(f'validate_credentials_secret_name_input returned {r!r}')
        return True

    def impl(self, c):
        if 'flow' in c:
            u, s, login, dev, sa, ident = self._flow_args(c)
            return [self._run_flow(self._str(u), self._str(s), login, dev, sa, ident)]
        s = self._str(c['s'])
        if s is None:
            return ['s=%d' % self._secret_accepts(None)]
        return ['u=%d s=%d' % (bool(self.au.is_valid_username(s)), self._secret_accepts(s))]

    def oracle(self, c, out):
        if out and out[0].startswith('IMPL-EXC'):
            return out[0]
        if 'flow' in c:
            u, s, login, dev, sa, ident = self._flow_args(c)
            u, s = self._str(u), self._str(s)
            kind = f'login_id={login!r}, is_developer={dev}, is_service_account={sa}, hail_identity={ident!r}'
            names_ok = spec_username(u) and (s is None or spec_secret(s))
            flags_ok = not (dev and sa) and (sa or bool(login))
            got = out[0]
            if got == 'inserted' and not names_ok:
                return (f'user-creation flow insert_new_user({kind}) reached the INSERT with username {u!r} and credentials secret name '
                        f'{s!r}, which are not both valid names')
            if got != 'inserted' and names_ok and flags_ok:
                return f'user-creation flow insert_new_user({kind}) refused the valid username {u!r} with secret name {s!r}'
            return None
        s = self._str(c['s'])
        if s is None:
            return None          # the property speaks about strings; None is covered by the correspondence with the model
        flags = dict(kv.split('=') for kv in out[0].split())
        if (flags['u'] == '1') != spec_username(s):
            return (f'is_valid_username({s!r}) = {flags["u"] == "1"} but the string is {"" if spec_username(s) else "not "}a non-empty string of '
                    'ASCII lowercase letters, digits and single interior hyphens')
        if (flags['s'] == '1') != spec_secret(s):
            return (f'validate_credentials_secret_name_input({s!r}) {"accepts" if flags["s"] == "1" else "rejects"} but the string is '
                    f'{"" if spec_secret(s) else "not "}a lowercase RFC-1123 name')
        return None

    def classify(self, c, out):
        if 'flow' in c:
            _u, _s, login, dev, sa, _i = self._flow_args(c)
            kind = 'service' if sa and not dev else 'developer' if dev and not sa else 'both' if dev else 'human'
            return (json.dumps(c, sort_keys=True), ['flow=' + out[0], f'flow-account={kind}',
                                                    'flow-login=' + ('None' if login is None else 'empty' if login == '' else 'given')])
        if c['s'] is None:
            return ('none', ['input=None'])
        s = c['s']
        flags = out[0]
        tags = ['user=' + ('acc' if 'u=1' in flags else 'rej'), 'secret=' + ('acc' if 's=1' in flags else 'rej'),
                'len=' + ('0' if not s else '1-2' if len(s) <= 2 else '3-6' if len(s) <= 6 else '7-63' if len(s) <= 63 else '64+')]
        bad = [cp for cp in s if not (chr(cp) in ALNUM or cp in (45, 46))]
        if any(cp >= 128 for cp in s):
            tags.append('has-non-ascii')
        if any(cp < 32 or cp == 127 for cp in s):
            tags.append('has-control')
        tags.append('outside-alphabet=' + ('0' if not bad else '1' if len(bad) == 1 else '2+'))
        return (None if len(bad) >= 2 else ' '.join('%x' % cp for cp in s), tags)

    def finding_key(self, c, msg):
        return json.dumps(c, sort_keys=True)

    @staticmethod
    def _shrink_cps(cps, fails_with):
        cur = list(cps)
        changed = True
        while changed:
            changed = False
            for i in range(len(cur)):
                cand = cur[:i] + cur[i + 1:]
                if fails_with(cand):
                    cur, changed = cand, True
                    break
        for i in range(len(cur)):
            if cur[i] != 97 and fails_with(cur[:i] + [97] + cur[i + 1:]):
                cur = cur[:i] + [97] + cur[i + 1:]
        return cur

    def shrink(self, c, fails):
        if 'static' in c:
            return c
        if 'flow' in c:
            f = dict(c['flow'])
            for k in ('ident', 'login', 'dev', 'sa'):       # back to the defaults (human account with a login id) where possible
                if k in f:
                    g = {x: y for x, y in f.items() if x != k}
                    if fails({'flow': g}):
                        f = g
            if f['s'] is not None and fails({'flow': {**f, 's': None}}):
                f['s'] = None
            f['u'] = self._shrink_cps(f['u'], lambda x: fails({'flow': {**f, 'u': x}}))
            if f['s'] is not None:
                f['s'] = self._shrink_cps(f['s'], lambda x: fails({'flow': {**f, 's': x}}))
            return {'flow': f}
        if c['s'] is None:
            return c
        return {'s': self._shrink_cps(c['s'], lambda x: fails({'s': x}))}

    # ---- the call sites in auth/auth/auth.py ---------------------------------------------------------
    def _load_flow(self):
        if self._flow is not None:
            return self._flow
        path = os.path.join(self.repo, 'auth', 'auth', 'auth.py')
        tree = ast.parse(open(path, encoding='utf-8').read())
        wanted = ('users_with_username_or_login_id', 'check_valid_new_user', 'insert_new_user')
        defs = [n for n in tree.body if isinstance(n, (ast.AsyncFunctionDef, ast.FunctionDef)) and n.name in wanted]
        missing = set(wanted[1:]) - {d.name for d in defs}
        if missing:
            raise RuntimeError(f'auth.py no longer defines {sorted(missing)}')
        for d in defs:                      # annotations name gear/typing classes the sandbox does not import
            for node in ast.walk(d):
                if isinstance(node, (ast.AsyncFunctionDef, ast.FunctionDef)):
                    node.returns = None
                    for a in node.args.args + node.args.kwonlyargs + node.args.posonlyargs:
                        a.annotation = None
        mod = ast.Module(body=defs, type_ignores=[])
        ast.fix_missing_locations(mod)

        def transaction(db, read_only=False):
            def transformer(fun):
                async def wrapper(*a, **k):
                    return await fun(db, *a, **k)
                return wrapper
            return transformer

        ns = {k: getattr(self.ex, k) for k in dir(self.ex) if not k.startswith('_')}
        # the names auth.py binds with `from .auth_utils import …` — the REAL validators of this tree
        imported = set()
        for node in tree.body:
            if isinstance(node, ast.ImportFrom) and node.module == 'auth_utils' and node.level == 1:
                for al in node.names:
                    ns[al.asname or al.name] = getattr(self.au, al.name)
                    imported.add(al.name)
        ns['transaction'] = transaction
        exec(compile(mod, path, 'exec'), ns)
        self._flow = (ns, imported)
        return self._flow

    def _run_flow(self, username, secret, login_id='login-id', is_developer=False, is_service_account=False, hail_identity=None):
        ns, _ = self._load_flow()
        tx = _FakeTx()
        try:
            _drive(ns['insert_new_user'](tx, username, login_id, is_developer, is_service_account, hail_identity=hail_identity,
                                         hail_credentials_secret_name=secret))
        except (self.ex.AuthUserError,) as e:
            if tx.inserted:
                return 'inserted'
            return 'refused'
        if not tx.inserted:
            return 'refused'
        sql, args = tx.inserted[0]
        if 'INSERT INTO users' not in sql or username not in args:
            return 'refused'
        return 'inserted'

    def extra_checks(self, repo, tier, rng):
        fails = []
        # (a) static: every `INSERT INTO users (` of the auth service sits inside insert_new_user
        d = os.path.join(repo, 'auth', 'auth')
        for fn in sorted(os.listdir(d)):
            if not fn.endswith('.py'):
                continue
            tree = ast.parse(open(os.path.join(d, fn), encoding='utf-8').read())
            inside = set()
            for node in ast.walk(tree):
                if isinstance(node, (ast.AsyncFunctionDef, ast.FunctionDef)) and node.name == 'insert_new_user':
                    inside |= {id(x) for x in ast.walk(node)}
            for node in ast.walk(tree):
                if isinstance(node, ast.Constant) and isinstance(node.value, str) and 'INSERT INTO users ' in node.value.replace('\n', ' ') \
                        and id(node) not in inside:
                    fails.append(({'static': f'{fn}:{node.lineno}'}, f'auth/auth/{fn}:{node.lineno} inserts into `users` outside insert_new_user '
                                  '(a user-creation path that bypasses the validators)'))
        # (b) informational: which validator calls the AST of the two handlers contains (the behavioural check of the call
        #     sites is the `flow` case stream: the handlers are executed from their source)
        tree = ast.parse(open(os.path.join(d, 'auth.py'), encoding='utf-8').read())
        sites = []
        for node in ast.walk(tree):
            if isinstance(node, (ast.AsyncFunctionDef, ast.FunctionDef)) and node.name in ('check_valid_new_user', 'insert_new_user'):
                for x in ast.walk(node):
                    if isinstance(x, ast.Call) and isinstance(x.func, ast.Name) and x.func.id in (
                            'is_valid_username', 'validate_credentials_secret_name_input', 'check_valid_new_user'):
                        sites.append(f'{node.name}:{x.lineno} calls {x.func.id}')
        _, imported = self._load_flow()
        self.call_sites = {'validators_imported_from_auth_utils': sorted(imported), 'calls': sorted(set(sites))}
        return fails

    def extra_coverage(self):
        return {'call_sites': getattr(self, 'call_sites', {})}

    FLOW_NAMES = ['ab', 'a-b', 'a.b', 'ab\n', 'a\n', 'A', 'a_b', '-a', 'a-', 'a--b', 'a..b', '\xe9', 'a\uff11', '', 'a\r', 'a\x00', '\uff41', 'a.', 'abc\n']

    def _flows(self, rng, n):
        names = self.FLOW_NAMES
        pairs = [(u, s) for u in names for s in [None, 'abc-gsa-key', 'abc\n', 'a..b', 'A', '', 'a\uff11']]
        pairs += [(u, 'k') for u in names] + [('ab', s) for s in names]
        for _ in range(n):
            u = self._valid_name(rng, '-', 40) if rng.random() < 0.4 else self._random_string(rng)[:80]
            sec = rng.choice([None, 'k', self._valid_name(rng, '.-', 60), self._random_string(rng)[:80]])
            pairs.append((u, sec))
        for u, s in pairs:
            yield {'flow': {'u': [ord(ch) for ch in u], 's': None if s is None else [ord(ch) for ch in s]}}
        # every kind of account x every kind of login id x every boundary name: the name checks must not depend on the flags
        kinds = [(dev, sa, login, ident) for dev in (False, True) for sa in (False, True) for login in (None, '', 'svc@hail.test')
                 for ident in (None, 'sa@proj.iam')]
        for u in names + ['abc', 'ci-bot', 'ABC', 'CI_Bot', 'abc--def', '-abc']:
            for dev, sa, login, ident in kinds:
                yield {'flow': {'u': [ord(ch) for ch in u], 's': None, 'login': login, 'dev': dev, 'sa': sa, 'ident': ident}}
        for s in ['k', 'abc\n', 'A', 'a..b', '']:
            for dev, sa, login, ident in kinds:
                yield {'flow': {'u': [97, 98], 's': [ord(ch) for ch in s], 'login': login, 'dev': dev, 'sa': sa, 'ident': ident}}
        for _ in range(n):
            u = self._valid_name(rng, '-', 40) if rng.random() < 0.4 else self._random_string(rng)[:80]
            sec = rng.choice([None, None, 'k', self._valid_name(rng, '.-', 60), self._random_string(rng)[:80]])
            dev, sa, login, ident = rng.choice(kinds)
            yield {'flow': {'u': [ord(ch) for ch in u], 's': None if sec is None else [ord(ch) for ch in sec], 'login': login, 'dev': dev,
                            'sa': sa, 'ident': ident}}


PROP = C28()
